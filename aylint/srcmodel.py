"""E1 - source model of /repo/awesomeyaml built from `ast` only (nothing is imported).

Knows the one piece of repo-specific semantics that matters for resolution: the `ayns`
namespace mechanism of awesomeyaml.namespace (nested `class ayns(Namespace)` bodies and
`@namespace('ayns')` decorated defs are collected into one per-class namespace table that is
looked up along the MRO, exactly like `Namespace._resolve_endpoint` does at run time).
"""
import ast
import os

from .report import AnalysisError

BUILTIN_BASES = {'dict', 'list', 'tuple', 'str', 'int', 'float', 'object', 'type', 'property', 'Exception'}


def unparse(node):
    return ast.unparse(node) if node is not None else ''


def norm(node_or_text):
    """normalised construct text used in finding keys (no line numbers, no CR, single spaces)"""
    t = node_or_text if isinstance(node_or_text, str) else unparse(node_or_text)
    return ' '.join(t.replace('\r', '').split())


class FuncInfo:
    def __init__(self, node, module, cls=None, ayns=False, outer=None):
        self.node = node
        self.module = module
        self.cls = cls
        self.ayns = ayns
        self.outer = outer
        self.name = node.name if not isinstance(node, ast.Lambda) else '<lambda>'
        decos = [unparse(d) for d in getattr(node, 'decorator_list', [])]
        self.decorators = decos
        self.is_static = any(d == 'staticmethod' for d in decos)
        self.is_classmethod = any(d == 'classmethod' for d in decos)
        self.is_property = any(d in ('property', 'staticproperty') or d.endswith('.setter') for d in decos)
        self.is_contextmanager = any(d.endswith('contextmanager') for d in decos)

    @property
    def qualname(self):
        if self.outer is not None:
            return self.outer.qualname + '.<locals>.' + self.name
        if self.cls is not None:
            return self.cls.name + ('.ayns.' if self.ayns else '.') + self.name
        return self.module.short + '.' + self.name

    @property
    def file(self):
        return self.module.relpath

    @property
    def line(self):
        return self.node.lineno

    def params(self):
        a = self.node.args
        return [x.arg for x in a.posonlyargs + a.args]

    def where(self, node=None):
        n = node if node is not None else self.node
        return '%s:%d' % (self.file, getattr(n, 'lineno', self.node.lineno))

    def nested(self):
        """directly nested function definitions (name -> FuncInfo)"""
        if getattr(self, '_nested', None) is not None:
            return self._nested
        out = {}
        for n in walk_no_nested(self.node, include_root_body=True):
            if isinstance(n, (ast.FunctionDef, ast.AsyncFunctionDef)) and n is not self.node:
                out[n.name] = FuncInfo(n, self.module, self.cls, self.ayns, outer=self)
        self._nested = out
        return out

    def __repr__(self):
        return '<Func %s>' % self.qualname


def walk_no_nested(fn_node, include_root_body=True):
    """walk the body of a function without descending into nested defs / lambdas / classes
    (the nested def node itself is yielded, its body is not)."""
    stack = list(reversed(fn_node.body)) if hasattr(fn_node, 'body') and isinstance(fn_node.body, list) else [fn_node.body]
    while stack:
        n = stack.pop()
        yield n
        if isinstance(n, (ast.FunctionDef, ast.AsyncFunctionDef, ast.Lambda, ast.ClassDef)):
            continue
        stack.extend(reversed(list(ast.iter_child_nodes(n))))


class ClassInfo:
    def __init__(self, node, module, outer=None):
        self.node = node
        self.module = module
        self.outer = outer
        self.name = (outer.name + '.' if outer else '') + node.name
        self.simple_name = node.name
        self.base_exprs = [unparse(b) for b in node.bases]
        self.bases = []          # resolved base names (known classes or builtin names)
        self.payload = None      # for ConfigScalar(T) dynamic bases: 'T'
        self.metaclass = None
        for k in node.keywords:
            if k.arg == 'metaclass':
                self.metaclass = unparse(k.value)
        self.methods = {}        # plain members (FuncInfo)
        self.ayns = {}           # namespace members (FuncInfo)
        self.attrs = {}          # class attributes name -> ast expr
        self.nested_classes = {}
        self.cond_methods = {}   # methods defined under a class-level `if` (version-conditional)

    def __repr__(self):
        return '<Class %s>' % self.name


class Module:
    def __init__(self, relpath, text):
        self.relpath = relpath
        self.text = text.replace('\r\n', '\n')
        self.lines = self.text.split('\n')
        self.tree = ast.parse(self.text, filename=relpath)
        from .desugar import desugar
        self.tree = desugar(self.tree)      # match statements -> if chains (one statement vocabulary for all engines)
        # awesomeyaml/nodes/node.py -> awesomeyaml.nodes.node ; short = 'node' / 'yaml' ...
        mod = relpath[:-3].replace('/', '.')
        if mod.endswith('.__init__'):
            mod = mod[:-9]
        self.name = mod
        self.short = mod.split('.')[-1] if mod != 'awesomeyaml' else 'awesomeyaml'
        self.functions = {}
        self.classes = {}
        self.globals = {}        # module-level simple assignments name -> ast expr
        self.rebound = set()     # module-level names assigned more than once, or written through a `global` statement
        self.imports = {}        # local name -> dotted target
        for n in ast.walk(self.tree):
            for ch in ast.iter_child_nodes(n):
                ch._parent = n
            if isinstance(n, ast.Global):
                self.rebound.update(n.names)

    def segment(self, node):
        return ast.get_source_segment(self.text, node)

    def constant_binding(self, name):
        """the expression a module-level name is bound to, when it is bound exactly once (a module constant) - else None"""
        if name in self.rebound or name in self.functions or name in self.classes:
            return None
        return self.globals.get(name)

    def frozen_display(self, name):
        """the display (tuple / list / dict) a module-level name is bound to, when the name is bound once and the module never
        mutates the object (no item store / delete, no mutating method call) - a lookup table; else None"""
        g = self.constant_binding(name)
        if not isinstance(g, (ast.Tuple, ast.List, ast.Dict)):
            return None
        cache = self.__dict__.setdefault('_frozen', {})
        if name not in cache:
            mutated = False
            for n in ast.walk(self.tree):
                if isinstance(n, ast.Subscript) and isinstance(n.ctx, (ast.Store, ast.Del)) and isinstance(n.value, ast.Name) and n.value.id == name:
                    mutated = True
                if isinstance(n, ast.Call) and isinstance(n.func, ast.Attribute) and isinstance(n.func.value, ast.Name) and n.func.value.id == name \
                        and n.func.attr in ('append', 'extend', 'insert', 'pop', 'remove', 'clear', 'update', 'setdefault', 'popitem', 'add', 'discard', 'sort', 'reverse'):
                    mutated = True
                if isinstance(n, ast.AugAssign) and isinstance(n.target, ast.Name) and n.target.id == name:
                    mutated = True
            cache[name] = None if mutated else g
        return cache[name]

    def record_defaults(self, name):
        """{field: default expression} of a class-based record (see namedtuple_fields)"""
        ci = self.classes.get(name)
        if ci is None:
            return {}
        return {st.target.id: st.value for st in ci.node.body if isinstance(st, ast.AnnAssign) and isinstance(st.target, ast.Name) and st.value is not None}

    def namedtuple_fields(self, name):
        """field names when `name = namedtuple('X', [...])` (or 'a b c' / 'a, b, c') is a module constant - else None"""
        ci = self.classes.get(name)
        if ci is not None and ci.outer is None:
            # class-based records: typing.NamedTuple, @dataclass(frozen=True) - immutable, built from their arguments alone
            decos = [unparse(d) for d in ci.node.decorator_list]
            frozen_dc = any(d.split('(')[0] in ('dataclass', 'dataclasses.dataclass') and 'frozen=True' in d.replace(' ', '') for d in decos)
            is_nt = any(b in ('NamedTuple', 'typing.NamedTuple') for b in ci.base_exprs)
            nt_base = [b for b in ci.node.bases if isinstance(b, ast.Call)]
            if len(ci.node.bases) == 1 and nt_base and not any(m in ci.methods for m in ('__init__', '__new__', '__getattr__', '__getattribute__')):
                # class X(namedtuple('X', [...])): the fields of the base call
                f = self._nt_call_fields(nt_base[0])
                if f is not None:
                    return f
            if (frozen_dc or is_nt) and not any(m in ci.methods for m in ('__init__', '__new__', '__post_init__', '__getattr__', '__getattribute__')):
                fields = [st.target.id for st in ci.node.body if isinstance(st, ast.AnnAssign) and isinstance(st.target, ast.Name) and 'ClassVar' not in unparse(st.annotation)]
                return tuple(fields) if fields else None
            return None
        return self._nt_call_fields(self.constant_binding(name))

    def _nt_call_fields(self, g):
        if not (isinstance(g, ast.Call) and len(g.args) == 2 and not g.keywords):
            return None
        fn = unparse(g.func)
        if isinstance(g.func, ast.Name):
            fn = self.imports.get(fn, fn).replace(':', '.')       # from collections import namedtuple [as x]
        elif isinstance(g.func, ast.Attribute) and isinstance(g.func.value, ast.Name):
            fn = self.imports.get(g.func.value.id, g.func.value.id) + '.' + g.func.attr       # import collections [as x]
        if fn != 'collections.namedtuple':
            return None
        f = g.args[1]
        if isinstance(f, ast.Constant) and isinstance(f.value, str):
            return tuple(f.value.replace(',', ' ').split())
        if isinstance(f, (ast.List, ast.Tuple)) and all(isinstance(x, ast.Constant) and isinstance(x.value, str) for x in f.elts):
            return tuple(x.value for x in f.elts)
        return None


class Repo:
    """all modules of the package, class table, MRO, resolution helpers"""

    def __init__(self, sources, root='/repo', reuse=None):
        self.root = root
        self.modules = {}
        self.classes = {}
        self.functions = {}
        self._allf = {}
        for rel, text in sorted(sources.items()):
            old = reuse.get(rel) if reuse else None
            if old is not None and old.text == text.replace('\r\n', '\n'):
                # unchanged module: re-parse is avoided by sharing the (immutable) tree; the index tables
                # of Module are rebuilt below because FuncInfo objects are per-Repo
                m = Module.__new__(Module)
                m.__dict__.update(old.__dict__)
                m.functions, m.classes, m.globals, m.imports = {}, {}, {}, {}
            else:
                try:
                    m = Module(rel, text)
                except SyntaxError as e:
                    raise AnalysisError('cannot parse %s: %s' % (rel, e))
            self.modules[rel] = m
        for m in self.modules.values():
            self._index_module(m)
        self._resolve_bases()

    # ---- construction -------------------------------------------------------------------
    @classmethod
    def load(cls, root='/repo', package='awesomeyaml', overrides=None):
        sources = {}
        base = os.path.join(root, package)
        if not os.path.isdir(base):
            raise AnalysisError('package directory %s not found' % base)
        for dp, dn, fn in os.walk(base):
            dn[:] = [d for d in dn if d != '__pycache__']
            for f in fn:
                if f.endswith('.py'):
                    p = os.path.join(dp, f)
                    rel = os.path.relpath(p, root)
                    with open(p, 'rb') as fh:
                        sources[rel] = fh.read().decode('utf8')
        if overrides:
            sources.update(overrides)
        return cls(sources, root=root)

    def with_overrides(self, overrides):
        src = {rel: m.text for rel, m in self.modules.items()}
        src.update(overrides)
        return Repo(src, root=self.root, reuse=self.modules)

    def _index_module(self, m):
        for n in m.tree.body:
            self._index_stmt(m, n)

    def _index_stmt(self, m, n):
        if isinstance(n, (ast.FunctionDef, ast.AsyncFunctionDef)):
            fi = FuncInfo(n, m)
            m.functions[n.name] = fi
            self.functions[fi.qualname] = fi
        elif isinstance(n, ast.ClassDef):
            self._index_class(m, n, None)
        elif isinstance(n, ast.Assign) and len(n.targets) == 1 and isinstance(n.targets[0], ast.Name):
            if n.targets[0].id in m.globals:
                m.rebound.add(n.targets[0].id)
            m.globals[n.targets[0].id] = n.value
        elif isinstance(n, ast.Assign) and len(n.targets) == 1 and isinstance(n.targets[0], ast.Tuple) and isinstance(n.value, ast.Tuple) \
                and len(n.targets[0].elts) == len(n.value.elts) and all(isinstance(t, ast.Name) for t in n.targets[0].elts) \
                and not any(isinstance(v, ast.Starred) for v in n.value.elts):
            # `_A, _B = 'a', 'b'`: element-wise module-level bindings
            for t, v in zip(n.targets[0].elts, n.value.elts):
                if t.id in m.globals:
                    m.rebound.add(t.id)
                m.globals[t.id] = v
        elif isinstance(n, ast.Import):
            for a in n.names:
                m.imports[a.asname or a.name.split('.')[0]] = a.name
        elif isinstance(n, ast.ImportFrom):
            for a in n.names:
                m.imports[a.asname or a.name] = ('.' * n.level) + (n.module or '') + ':' + a.name
        elif isinstance(n, (ast.If, ast.Try)):
            for sub in ast.iter_child_nodes(n):
                if isinstance(sub, ast.stmt):
                    self._index_stmt(m, sub)

    def _index_class(self, m, node, outer):
        ci = ClassInfo(node, m, outer)
        m.classes[ci.name] = ci
        if ci.name in self.classes:
            raise AnalysisError('duplicate class name %s (%s and %s)' % (ci.name, self.classes[ci.name].module.relpath, m.relpath))
        self.classes[ci.name] = ci
        for n in node.body:
            self._index_member(ci, n, cond=False)
        return ci

    def _index_member(self, ci, n, cond):
        m = ci.module
        if isinstance(n, (ast.FunctionDef, ast.AsyncFunctionDef)):
            is_ns = any(isinstance(d, ast.Call) and unparse(d.func) == 'namespace' and d.args and
                        isinstance(d.args[0], ast.Constant) and d.args[0].value == 'ayns' for d in n.decorator_list)
            fi = FuncInfo(n, m, ci, ayns=is_ns)
            table = ci.ayns if is_ns else ci.methods
            if cond:
                ci.cond_methods[n.name] = fi
            else:
                # property setter shares the name with its getter: keep the getter under the
                # name and the setter under name + '.setter'
                key = n.name
                if any(unparse(d).endswith('.setter') for d in n.decorator_list):
                    key = n.name + '.setter'
                table[key] = fi
                self.functions[fi.qualname if key == n.name else fi.qualname + '.setter'] = fi
        elif isinstance(n, ast.ClassDef):
            if n.name == 'ayns' and any(unparse(b) == 'Namespace' for b in n.bases):
                for sub in n.body:
                    if isinstance(sub, (ast.FunctionDef, ast.AsyncFunctionDef)):
                        fi = FuncInfo(sub, m, ci, ayns=True)
                        key = sub.name
                        if any(unparse(d).endswith('.setter') for d in sub.decorator_list):
                            key = sub.name + '.setter'
                        ci.ayns[key] = fi
                        self.functions[fi.qualname if key == sub.name else fi.qualname + '.setter'] = fi
            else:
                sub = self._index_class(m, n, ci)
                ci.nested_classes[n.name] = sub
        elif isinstance(n, ast.Assign) and len(n.targets) == 1 and isinstance(n.targets[0], ast.Name):
            ci.attrs[n.targets[0].id] = n.value
        elif isinstance(n, ast.If):
            for sub in n.body + n.orelse:
                self._index_member(ci, sub, cond=True)

    def _resolve_bases(self):
        for ci in self.classes.values():
            out = []
            for b in ci.node.bases:
                if isinstance(b, ast.Call) and unparse(b.func) in self.classes:
                    # dynamic base: ConfigScalar(str)
                    out.append(unparse(b.func))
                    ci.payload = unparse(b.args[0]) if b.args else None
                    continue
                s = unparse(b)
                if s in self.classes:
                    out.append(s)
                elif s.split('.')[-1] in self.classes and s.split('.')[-1] != ci.name:
                    out.append(s.split('.')[-1])
                else:
                    out.append(s)   # builtin / external base kept by name
            ci.bases = out
        self._mro_cache = {}

    # ---- queries -----------------------------------------------------------------------
    def cls(self, name):
        if name not in self.classes:
            raise AnalysisError('anchor vanished: class %s not found in %s' % (name, self.root))
        return self.classes[name]

    def mro(self, name):
        if name in self._mro_cache:
            return self._mro_cache[name]
        if name not in self.classes:
            return [name]
        ci = self.classes[name]
        seqs = [self.mro(b) for b in ci.bases] + [list(ci.bases)]
        res = [name]
        seqs = [list(s) for s in seqs if s]
        while seqs:
            for s in seqs:
                cand = s[0]
                if not any(cand in t[1:] for t in seqs):
                    break
            else:
                raise AnalysisError('inconsistent MRO for %s' % name)
            res.append(cand)
            seqs = [[x for x in s if x != cand] for s in seqs]
            seqs = [s for s in seqs if s]
        self._mro_cache[name] = res
        return res

    def subclasses(self, name, strict=False):
        return [c for c in self.classes if name in self.mro(c) and (c != name or not strict)]

    def is_subclass(self, c, base):
        return base in self.mro(c)

    def resolve(self, cls_name, member, ayns=False, after=None):
        """FuncInfo of `member` looked up along the MRO of cls_name (after=<class>: super() semantics).
        Returns None when only a builtin base provides it / not found."""
        mro = self.mro(cls_name)
        if after is not None:
            if after not in mro:
                return None
            mro = mro[mro.index(after) + 1:]
        for c in mro:
            ci = self.classes.get(c)
            if ci is None:
                continue
            table = ci.ayns if ayns else ci.methods
            if member in table:
                return table[member]
        return None

    def class_attr(self, cls_name, attr):
        """(owner, expr) of a class attribute along the MRO or (None, None)"""
        for c in self.mro(cls_name):
            ci = self.classes.get(c)
            if ci is not None and attr in ci.attrs:
                return c, ci.attrs[attr]
        return None, None

    def func(self, qualname):
        """anchor lookup: 'Class.method', 'Class.ayns.member', 'module.function'"""
        if qualname in self.functions:
            return self.functions[qualname]
        raise AnalysisError('anchor vanished: function %s not found in %s' % (qualname, self.root))

    def has_func(self, qualname):
        return qualname in self.functions

    def module(self, short):
        for m in self.modules.values():
            if m.short == short or m.name == short or m.relpath == short:
                return m
        raise AnalysisError('anchor vanished: module %s not found' % short)

    def all_functions(self, include_nested=True):
        """every FuncInfo in the package (module functions, methods, ayns members, nested)"""
        if include_nested in self._allf:
            return self._allf[include_nested]
        seen = []
        for q, f in sorted(self.functions.items()):
            seen.append(f)
        for ci in self.classes.values():
            for f in ci.cond_methods.values():
                seen.append(f)
        out = []
        ids = set()
        def add(f):
            if id(f.node) in ids:
                return
            ids.add(id(f.node))
            out.append(f)
            if include_nested:
                for g in f.nested().values():
                    add(g)
        for f in seen:
            add(f)
        self._allf[include_nested] = out
        return out

    # ---- call classification ------------------------------------------------------------
    def callee_desc(self, call):
        """(receiver_text, member, via_ayns) for attribute calls; ('', name, False) for plain names"""
        f = call.func
        if isinstance(f, ast.Name):
            return '', f.id, False
        if isinstance(f, ast.Attribute):
            recv = f.value
            if isinstance(recv, ast.Attribute) and recv.attr == 'ayns':
                return unparse(recv.value), f.attr, True
            return unparse(recv), f.attr, False
        return unparse(f), '', False

    def resolve_call(self, call, fn):
        """Best-effort resolution of a call made inside FuncInfo `fn` to FuncInfo targets.
        Handles self.m(), self.ayns.m(), super().m(), super().ayns.m(), K.m(self,..), K.ayns.m(self,..),
        module functions and nested defs. Returns list of FuncInfo (possibly empty = unresolved/external)."""
        recv, member, via = self.callee_desc(call)
        if recv == '' and member:
            # nested function of an enclosing function, or a module function / imported function
            f = fn
            while f is not None:
                nest = f.nested()
                if member in nest:
                    return [nest[member]]
                f = f.outer
            if member in fn.module.functions:
                return [fn.module.functions[member]]
            imp = fn.module.imports.get(member)
            if imp and ':' in imp:
                modpart, name = imp.split(':')
                for m in self.modules.values():
                    if m.name.endswith(modpart.lstrip('.')) and name in m.functions:
                        return [m.functions[name]]
            return []
        if fn.cls is not None:
            if recv in ('self', 'cls') and not (fn.is_static and recv == 'self' and 'self' not in fn.params()):
                t = self.resolve(fn.cls.name, member, ayns=via)
                return [t] if t else []
            if recv == 'super()':
                t = self.resolve(fn.cls.name, member, ayns=via, after=fn.cls.name)
                return [t] if t else []
        if recv in self.classes:
            t = self.resolve(recv, member, ayns=via)
            return [t] if t else []
        if recv.split('.')[-1] in self.classes and '.' in recv:
            t = self.resolve(recv.split('.')[-1], member, ayns=via)
            return [t] if t else []
        if recv and '.' not in recv and not via and recv not in ('self', 'cls'):
            # <module>.function(...): a module of the package named by its short name (imported at module level or inside the function)
            cands = [m for m in self.modules.values() if m.short == recv and member in m.functions]
            if len(cands) == 1:
                return [cands[0].functions[member]]
        return []

    def positional_form(self, call, fn, args, kw, union=False):
        """(args, kw) of a call with the keyword arguments that name leading positional parameters of the (uniquely resolved)
        callee moved to their positions - `f(a, y=2)` and `f(a, 2)` are the same call"""
        if (not kw and not union) or any(isinstance(a, ast.Starred) for a in getattr(call, 'args', [])) or any(k is None or str(k).startswith('**') for k in kw):
            return args, kw
        ts = self.resolve_call(call, fn)
        ctor = False
        if not ts:
            recv0, member0, via0 = self.callee_desc(call)
            cname = member0 if recv0 == '' else None
            if cname in self.classes and not via0:
                init = self.resolve(cname, '__init__')
                if init is not None:
                    ts, ctor = [init], True      # Cls(...): the parameters of its __init__ (without self)
        if len(ts) != 1:
            return args, kw
        t = ts[0]
        a = t.node.args
        names = [x.arg for x in a.posonlyargs + a.args]
        if ctor:
            names = names[1:]
        elif t.cls is not None and not t.is_static:
            recv, member, via = self.callee_desc(call)
            through_class = recv in self.classes or recv.split('.')[-1] in self.classes
            if t.is_classmethod or not through_class:
                names = names[1:]
        args, kw = list(args), dict(kw)
        for i in range(len(args), len(names)):
            if names[i] in kw and names[i] not in [x.arg for x in a.posonlyargs]:
                args.append(kw[names[i]])
            else:
                break
        if union:
            # both views complete: every argument that has a parameter name is also found under that name
            for i, v in enumerate(args[:len(names)]):
                kw.setdefault(names[i], v)
        else:
            for n_ in names[:len(args)]:
                kw.pop(n_, None)
        return args, kw

    def cha(self, member, ayns=True):
        """all classes defining `member` (class-hierarchy analysis for <expr>.ayns.member())"""
        out = []
        for c, ci in sorted(self.classes.items()):
            table = ci.ayns if ayns else ci.methods
            if member in table:
                out.append(table[member])
        return out


def calls_in(node, nested=False):
    """Call nodes inside `node` in evaluation order (approximated by end position)."""
    out = []
    it = ast.walk(node) if nested else _walk_expr(node)
    for n in it:
        if isinstance(n, ast.Call):
            out.append(n)
    out.sort(key=lambda c: (c.end_lineno, c.end_col_offset))
    return out


def _walk_expr(node):
    stack = [node]
    first = True
    while stack:
        n = stack.pop()
        yield n
        if not first and isinstance(n, (ast.FunctionDef, ast.AsyncFunctionDef, ast.Lambda, ast.ClassDef)):
            continue
        first = False
        stack.extend(ast.iter_child_nodes(n))


def fold_const(repo, expr, cls_name=None, _depth=0):
    """fold a literal / ConfigNode.WEAK style constant; returns (ok, value)"""
    try:
        return True, ast.literal_eval(expr)
    except Exception:
        pass
    if isinstance(expr, ast.UnaryOp) and isinstance(expr.op, ast.USub):
        ok, v = fold_const(repo, expr.operand, cls_name)
        return (ok, -v) if ok else (False, None)
    if isinstance(expr, ast.Attribute) and isinstance(expr.value, ast.Name) and expr.value.id in repo.classes:
        owner, e = repo.class_attr(expr.value.id, expr.attr)
        if e is not None:
            return fold_const(repo, e, owner)
    if isinstance(expr, ast.Name) and cls_name is not None:
        owner, e = repo.class_attr(cls_name, expr.id)
        if e is not None:
            return fold_const(repo, e, owner)
        ci = repo.classes.get(cls_name)
        if ci is not None and _depth < 4:
            g = ci.module.constant_binding(expr.id)       # a module-level constant named in the class body
            if g is not None and not (isinstance(g, ast.Name) and g.id == expr.id):
                return fold_const(repo, g, cls_name, _depth + 1)
    return False, None
