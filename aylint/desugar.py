"""Source-level desugaring applied when a module is parsed, so that every engine (CFG, tracer, finite-domain evaluator,
effect walker) sees one statement vocabulary.

  match <subject>: case <pattern> [if <guard>]: <body> ...
      ->  __match_<line> = <subject>
          if <test(pattern)>: <bindings>; [if <guard>:] <body> [else: <remaining cases>]
          else: <remaining cases>

Patterns translated: literals (==), None / True / False (is), `A | B`, wildcard, capture, `P as x`, class patterns without
positional sub-patterns (isinstance + attribute sub-patterns), sequence patterns (isinstance(Sequence, not str/bytes/bytearray),
length, element sub-patterns, one starred capture) and mapping patterns (isinstance(Mapping), key presence, value sub-patterns).
  with contextlib.suppress(A, B): <body>   ->   try: <body> / except (A, B): pass
  dict(a=x, b=y) / dict()  ->  {'a': x, 'b': y} / {}   (when the module never rebinds `dict`)
  _NAME = <literal> at module level, bound once  ->  uses of _NAME inside functions / classes read the literal
  x: T = v  ->  x = v   (annotated assignments outside class bodies; a bare `x: T` becomes `pass`; class-level ones declare record fields)
  a[k] = name = V   ->   name = V; a[k] = name     (chained assignment with exactly one plain name among the targets)
  functools.partial(F, a, k=v)(x)   ->   F(a, x, k=v);  `p = functools.partial(F, ...)` bound once in a function and only ever called -> the calls are F(...)
  return (not P) or Q   ->   if not P: return True / return Q;   return C and Q  ->  if not C: return False / return Q
      (only when the first operand is a `not`, a comparison or isinstance / hasattr / callable - always a bool)
  (f if C else g)(args)   ->   f(args) if C else g(args)
  raise X from (A if C else B)   ->   if C: raise X from A / else: raise X from B
  try: <return / x => D[K]  /  except KeyError: <H>   ->   if K in D: <return / x =>  D[K] / else: <H>
      (one statement in the body, D an attribute or a local name - never `self` itself -, K free of calls other than id / str / repr /
      persistent_id / tuple; no else / finally, the exception not bound: the look-before-you-leap spelling of the same dict lookup)

A match statement that uses anything else (positional class sub-patterns, which depend on __match_args__) is left as it
is - the engines then give no verdict for the function that contains it.
"""
import ast


class _Unsupported(Exception):
    pass


def _name(id_, ctx=None):
    return ast.Name(id=id_, ctx=ctx or ast.Load())


def _and(tests):
    tests = [t for t in tests if not (isinstance(t, ast.Constant) and t.value is True)]
    if not tests:
        return ast.Constant(value=True)
    if len(tests) == 1:
        return tests[0]
    return ast.BoolOp(op=ast.And(), values=tests)


def _pattern(p, subj):
    """(test expression, [binding statements]) for pattern p against the expression subj"""
    if isinstance(p, ast.MatchValue):
        return ast.Compare(left=subj, ops=[ast.Eq()], comparators=[p.value]), []
    if isinstance(p, ast.MatchSingleton):
        return ast.Compare(left=subj, ops=[ast.Is()], comparators=[ast.Constant(value=p.value)]), []
    if isinstance(p, ast.MatchAs):
        if p.pattern is None:
            binds = [ast.Assign(targets=[_name(p.name, ast.Store())], value=subj)] if p.name else []
            return ast.Constant(value=True), binds
        t, b = _pattern(p.pattern, subj)
        return t, b + ([ast.Assign(targets=[_name(p.name, ast.Store())], value=subj)] if p.name else [])
    if isinstance(p, ast.MatchOr):
        parts = [_pattern(x, subj) for x in p.patterns]
        if any(b for _, b in parts):
            raise _Unsupported()      # alternatives that bind names
        return ast.BoolOp(op=ast.Or(), values=[t for t, _ in parts]), []
    if isinstance(p, ast.MatchClass):
        if p.patterns:
            raise _Unsupported()      # positional sub-patterns depend on __match_args__
        tests = [ast.Call(func=_name('isinstance'), args=[subj, p.cls], keywords=[])]
        binds = []
        for attr, sub in zip(p.kwd_attrs, p.kwd_patterns):
            tests.append(ast.Call(func=_name('hasattr'), args=[subj, ast.Constant(value=attr)], keywords=[]))
            t, b = _pattern(sub, ast.Attribute(value=subj, attr=attr, ctx=ast.Load()))
            tests.append(t)
            binds += b
        return _and(tests), binds
    if isinstance(p, ast.MatchSequence):
        stars = [i for i, x in enumerate(p.patterns) if isinstance(x, ast.MatchStar)]
        if len(stars) > 1:
            raise _Unsupported()
        n = len(p.patterns)
        seq = ast.Attribute(value=ast.Attribute(value=_name('collections'), attr='abc', ctx=ast.Load()), attr='Sequence', ctx=ast.Load())
        tests = [ast.Call(func=_name('isinstance'), args=[subj, seq], keywords=[]),
                 ast.UnaryOp(op=ast.Not(), operand=ast.Call(func=_name('isinstance'), args=[subj, ast.Tuple(elts=[_name('str'), _name('bytes'), _name('bytearray')], ctx=ast.Load())], keywords=[]))]
        ln = ast.Call(func=_name('len'), args=[subj], keywords=[])
        if stars:
            tests.append(ast.Compare(left=ln, ops=[ast.GtE()], comparators=[ast.Constant(value=n - 1)]))
        else:
            tests.append(ast.Compare(left=ln, ops=[ast.Eq()], comparators=[ast.Constant(value=n)]))
        binds = []
        for i, x in enumerate(p.patterns):
            if isinstance(x, ast.MatchStar):
                lo = ast.Constant(value=i)
                hi = ast.UnaryOp(op=ast.USub(), operand=ast.Constant(value=n - 1 - i)) if n - 1 - i else None
                if x.name:
                    binds.append(ast.Assign(targets=[_name(x.name, ast.Store())],
                                            value=ast.Call(func=_name('list'), args=[ast.Subscript(value=subj, slice=ast.Slice(lower=lo, upper=hi), ctx=ast.Load())], keywords=[])))
                continue
            idx = ast.Constant(value=i) if not stars or i < stars[0] else ast.UnaryOp(op=ast.USub(), operand=ast.Constant(value=n - i))
            t, b = _pattern(x, ast.Subscript(value=subj, slice=idx, ctx=ast.Load()))
            tests.append(t)
            binds += b
        return _and(tests), binds
    if isinstance(p, ast.MatchMapping):
        if p.rest:
            raise _Unsupported()
        mp = ast.Attribute(value=ast.Attribute(value=_name('collections'), attr='abc', ctx=ast.Load()), attr='Mapping', ctx=ast.Load())
        tests = [ast.Call(func=_name('isinstance'), args=[subj, mp], keywords=[])]
        binds = []
        for k, sub in zip(p.keys, p.patterns):
            tests.append(ast.Compare(left=k, ops=[ast.In()], comparators=[subj]))
            t, b = _pattern(sub, ast.Subscript(value=subj, slice=k, ctx=ast.Load()))
            tests.append(t)
            binds += b
        return _and(tests), binds
    raise _Unsupported()


class _Desugar(ast.NodeTransformer):
    def __init__(self, suppress_names=()):
        self.suppress_names = set(suppress_names)
        self._in_class = 0

    def visit_ClassDef(self, node):
        # annotated assignments directly in a class body declare record fields (NamedTuple / dataclass): they are kept
        self._in_class += 1
        body = []
        for st in node.body:
            if isinstance(st, ast.AnnAssign):
                body.append(st)
            else:
                r = self.visit(st)
                body.extend(r if isinstance(r, list) else [r])
        self._in_class -= 1
        node.body = body
        return node

    def visit_FunctionDef(self, node):
        saved, self._in_class = self._in_class, 0
        self.generic_visit(node)
        self._in_class = saved
        return node

    visit_AsyncFunctionDef = visit_FunctionDef

    def visit_AnnAssign(self, node):
        # `x: T = v` -> `x = v`; a bare declaration `x: T` binds nothing
        self.generic_visit(node)
        if node.value is None:
            return ast.copy_location(ast.Pass(), node)
        a = ast.Assign(targets=[node.target], value=node.value, type_comment=None)
        return ast.copy_location(a, node)

    def visit_With(self, node):
        self.generic_visit(node)
        if len(node.items) == 1 and node.items[0].optional_vars is None and isinstance(node.items[0].context_expr, ast.Call):
            c = node.items[0].context_expr
            if ast.unparse(c.func) in self.suppress_names and c.args and not c.keywords and not any(isinstance(a, ast.Starred) for a in c.args):
                # with contextlib.suppress(A, B): body  ->  try: body / except (A, B): pass
                typ = c.args[0] if len(c.args) == 1 else ast.Tuple(elts=list(c.args), ctx=ast.Load())
                t = ast.Try(body=node.body, handlers=[ast.ExceptHandler(type=typ, name=None, body=[ast.Pass()])], orelse=[], finalbody=[])
                ast.copy_location(t, node)
                ast.fix_missing_locations(t)
                for sub in ast.walk(t):
                    if not hasattr(sub, 'lineno') and isinstance(sub, (ast.expr, ast.stmt, ast.excepthandler)):
                        ast.copy_location(sub, node)
                return t
        return node

    def _tuple_match(self, node):
        """match (e0, .., en-1): with every case a sequence pattern of n sub-patterns (no star) or a wildcard: the elements are bound to
        temporaries once, in order, and each case tests them one by one - no tuple is built, no Sequence / length test is needed"""
        n = len(node.subject.elts)
        for c in node.cases:
            pt = c.pattern
            if isinstance(pt, ast.MatchAs) and pt.pattern is None and pt.name is None:
                continue
            if not (isinstance(pt, ast.MatchSequence) and len(pt.patterns) == n and not any(isinstance(x, ast.MatchStar) for x in pt.patterns)):
                return None
        tmps = ['__match_%d_%d_%d' % (node.lineno, node.col_offset, i) for i in range(n)]
        out = [ast.Assign(targets=[_name(t, ast.Store())], value=e) for t, e in zip(tmps, node.subject.elts)]

        def chain(cases):
            if not cases:
                return []
            c = cases[0]
            if isinstance(c.pattern, ast.MatchAs):
                test, binds = ast.Constant(value=True), []
            else:
                parts = [_pattern(x, _name(t)) for x, t in zip(c.pattern.patterns, tmps)]
                test, binds = _and([t for t, _ in parts]), [b for _, bs in parts for b in bs]
            rest = chain(cases[1:])
            body = list(c.body)
            if c.guard is not None:
                body = [ast.If(test=c.guard, body=body, orelse=rest)]
            body = binds + body
            if isinstance(test, ast.Constant) and test.value is True:
                return body
            return [ast.If(test=test, body=body, orelse=rest)]
        return out + chain(list(node.cases))

    def visit_Match(self, node):
        self.generic_visit(node)
        try:
            if isinstance(node.subject, ast.Tuple) and not any(isinstance(x, ast.Starred) for x in node.subject.elts):
                tm = self._tuple_match(node)
                if tm is not None:
                    for st in tm:
                        ast.copy_location(st, node)
                        for sub in ast.walk(st):
                            if not hasattr(sub, 'lineno') and isinstance(sub, (ast.expr, ast.stmt)):
                                ast.copy_location(sub, node)
                        ast.fix_missing_locations(st)
                    return tm
            tmp = '__match_%d_%d' % (node.lineno, node.col_offset)
            subj = node.subject if isinstance(node.subject, ast.Name) else _name(tmp)
            out = [] if isinstance(node.subject, ast.Name) else [ast.Assign(targets=[_name(tmp, ast.Store())], value=node.subject)]

            def binds_names(pt):
                return any(isinstance(x, (ast.MatchAs, ast.MatchStar)) and x.name for x in ast.walk(pt)) or any(isinstance(x, ast.MatchMapping) and x.rest for x in ast.walk(pt))

            expanded = []
            for c in node.cases:
                if isinstance(c.pattern, ast.MatchOr) and binds_names(c.pattern):
                    # alternatives that bind names: one case per alternative (same guard, same body)
                    expanded.extend(ast.match_case(pattern=alt, guard=c.guard, body=c.body) for alt in c.pattern.patterns)
                else:
                    expanded.append(c)

            def chain(cases):
                if not cases:
                    return []
                c = cases[0]
                test, binds = _pattern(c.pattern, subj)
                rest = chain(cases[1:])
                body = list(c.body)
                if c.guard is not None:
                    body = [ast.If(test=c.guard, body=body, orelse=rest)]
                body = binds + body
                if isinstance(test, ast.Constant) and test.value is True and c.guard is None:
                    return body
                if isinstance(test, ast.Constant) and test.value is True:
                    return body
                stmt = ast.If(test=test, body=body, orelse=rest)
                ast.copy_location(stmt, c.pattern)
                return [stmt]
            out += chain(expanded)
            if not out:
                out = [ast.Pass()]
            for st in out:
                ast.copy_location(st, node)
                ast.fix_missing_locations(st)
                for sub in ast.walk(st):
                    if not hasattr(sub, 'lineno') and isinstance(sub, (ast.expr, ast.stmt)):
                        ast.copy_location(sub, node)
            return out
        except _Unsupported:
            return node


def _private_literal_constants(tree):
    """{name: literal} for module-level `_NAME = <str / int / bool / None literal, or a tuple of such>` bound exactly once in the whole module (no other
    store, parameter, import, global declaration, del or for / with / except / comprehension target of that name anywhere)"""
    cand = {}
    for st in tree.body:
        tgt, val = None, None
        if isinstance(st, ast.Assign) and len(st.targets) == 1 and isinstance(st.targets[0], ast.Name):
            tgt, val = st.targets[0].id, st.value
        elif isinstance(st, ast.AnnAssign) and isinstance(st.target, ast.Name) and st.value is not None:
            tgt, val = st.target.id, st.value
        def lit(v):
            if isinstance(v, ast.Constant):
                return v.value is None or type(v.value) in (str, int, bool)
            return isinstance(v, ast.Tuple) and all(lit(x) for x in v.elts)      # a tuple of literals is as immutable as they are
        if tgt and tgt.startswith('_') and not tgt.startswith('__') and val is not None and lit(val):
            cand[tgt] = None if tgt in cand else val       # bound twice at module level: not a constant
    cand = {k: v for k, v in cand.items() if v is not None}
    if not cand:
        return {}
    stores = {}
    for n in ast.walk(tree):
        if isinstance(n, ast.Name) and isinstance(n.ctx, (ast.Store, ast.Del)) and n.id in cand:
            stores[n.id] = stores.get(n.id, 0) + 1
        elif isinstance(n, ast.arg) and n.arg in cand:
            stores[n.arg] = 99
        elif isinstance(n, (ast.Global, ast.Nonlocal)):
            for x in n.names:
                if x in cand:
                    stores[x] = 99
        elif isinstance(n, ast.alias) and (n.asname or n.name.split('.')[0]) in cand:
            stores[n.asname or n.name.split('.')[0]] = 99
        elif isinstance(n, ast.ExceptHandler) and n.name in cand:
            stores[n.name] = 99
        elif isinstance(n, (ast.FunctionDef, ast.AsyncFunctionDef, ast.ClassDef)) and n.name in cand:
            stores[n.name] = 99
    return {k: v for k, v in cand.items() if stores.get(k, 0) == 1}


class _Propagate(ast.NodeTransformer):
    """private module-level literal constants are read through inside function and class bodies (named constants introduced for
    readability mean the literal)"""

    def __init__(self, consts):
        self.consts = consts
        self.depth = 0

    def _scoped(self, node):
        self.depth += 1
        self.generic_visit(node)
        self.depth -= 1
        return node

    visit_FunctionDef = visit_AsyncFunctionDef = visit_ClassDef = visit_Lambda = _scoped

    def visit_Name(self, node):
        if self.depth and isinstance(node.ctx, ast.Load) and node.id in self.consts:
            import copy as _copy
            v = self.consts[node.id]
            if isinstance(v, ast.Constant):
                return ast.copy_location(ast.Constant(value=v.value), node)
            new = _copy.deepcopy(v)
            for x in ast.walk(new):
                ast.copy_location(x, node)
            return new
        return node


class _DictCalls(ast.NodeTransformer):
    """dict(a=x, b=y) / dict() written with the builtin -> the display {'a': x, 'b': y} / {} (same object, same evaluation order)"""

    def visit_Call(self, node):
        self.generic_visit(node)
        if isinstance(node.func, ast.Name) and node.func.id == 'dict' and not node.args and all(k.arg is not None for k in node.keywords):
            d = ast.Dict(keys=[ast.Constant(value=k.arg) for k in node.keywords], values=[k.value for k in node.keywords])
            ast.copy_location(d, node)
            for k_ in d.keys:
                ast.copy_location(k_, node)
            return d
        return node


class _Chained(ast.NodeTransformer):
    def visit_Assign(self, node):
        self.generic_visit(node)
        if len(node.targets) < 2:
            return node
        names = [t for t in node.targets if isinstance(t, ast.Name)]
        others = [t for t in node.targets if not isinstance(t, ast.Name)]
        if len(names) != 1 or any(isinstance(x, ast.Name) and x.id == names[0].id for t in others for x in ast.walk(t)) \
                or any(isinstance(x, ast.Name) and x.id == names[0].id for x in ast.walk(node.value)):
            return node
        first = ast.copy_location(ast.Assign(targets=[names[0]], value=node.value), node)
        rest = [ast.copy_location(ast.Assign(targets=[t], value=ast.copy_location(ast.Name(id=names[0].id, ctx=ast.Load()), node)), node) for t in others]
        return [first] + rest


class _PartialApply(ast.NodeTransformer):
    """functools.partial(F, ...)(...) applied on the spot, and locals that only name such a partial and are only ever called"""
    NAMES = ('functools.partial', 'partial')

    def __init__(self, module_functions=None):
        self.module_functions = module_functions or {}

    def _is_partial(self, c):
        return isinstance(c, ast.Call) and ast.unparse(c.func) in self.NAMES and c.args and not any(isinstance(a, ast.Starred) for a in c.args) and all(k.arg is not None for k in c.keywords) \
            and isinstance(c.args[0], (ast.Name, ast.Attribute))

    def _merge(self, part, call):
        return ast.copy_location(ast.Call(func=part.args[0], args=list(part.args[1:]) + list(call.args), keywords=list(part.keywords) + list(call.keywords)), call)

    def visit_FunctionDef(self, node):
        import copy as _copy
        stores = {}
        for n in ast.walk(node):
            if isinstance(n, ast.Name) and isinstance(n.ctx, (ast.Store, ast.Del)):
                stores[n.id] = stores.get(n.id, 0) + 1
        params = {a.arg for a in node.args.args + node.args.kwonlyargs + node.args.posonlyargs}
        aliases = {}
        for st in ast.walk(node):
            if isinstance(st, ast.Assign) and len(st.targets) == 1 and isinstance(st.targets[0], ast.Name) and self._is_partial(st.value) \
                    and stores.get(st.targets[0].id) == 1 and st.targets[0].id not in params:
                nm = st.targets[0].id
                loads = [n for n in ast.walk(node) if isinstance(n, ast.Name) and n.id == nm and isinstance(n.ctx, ast.Load)]
                called = [n for n in ast.walk(node) if isinstance(n, ast.Call) and isinstance(n.func, ast.Name) and n.func.id == nm]
                if loads and len(loads) == len(called):
                    aliases[nm] = st
        if aliases:
            outer = self

            class S(ast.NodeTransformer):
                def visit_Call(self, c):
                    self.generic_visit(c)
                    if isinstance(c.func, ast.Name) and c.func.id in aliases:
                        return outer._merge(_copy.deepcopy(aliases[c.func.id].value), c)
                    return c

                def visit_Assign(self, a):
                    if a in aliases.values():
                        return ast.copy_location(ast.Pass(), a)
                    return self.generic_visit(a)
            node = S().visit(node)
        self.generic_visit(node)
        return node

    visit_AsyncFunctionDef = visit_FunctionDef

    def visit_Call(self, node):
        self.generic_visit(node)
        if self._is_partial(node.func):
            return self._merge(node.func, node)
        if self._is_partial(node) and isinstance(node.args[0], ast.Name) and not node.keywords and node.args[0].id in self.module_functions:
            # functools.partial(f, a, b) of a module-level function with plain positional parameters, used as a value (a callback):
            # lambda <remaining parameters>: f(a, b, <remaining parameters>)
            fd = self.module_functions[node.args[0].id]
            a = fd.args
            if not a.vararg and not a.kwarg and not a.kwonlyargs and not a.posonlyargs and not a.defaults and len(node.args) - 1 <= len(a.args):
                rest = [x.arg for x in a.args[len(node.args) - 1:]]
                used = {x.id for b in node.args[1:] for x in ast.walk(b) if isinstance(x, ast.Name)}
                if not (set(rest) & used):
                    lam = ast.Lambda(args=ast.arguments(posonlyargs=[], args=[ast.arg(arg=r) for r in rest], vararg=None, kwonlyargs=[], kw_defaults=[], kwarg=None, defaults=[]),
                                     body=ast.Call(func=node.args[0], args=list(node.args[1:]) + [ast.Name(id=r, ctx=ast.Load()) for r in rest], keywords=[]))
                    return ast.copy_location(lam, node)
        return node


class _CallOfChoice(ast.NodeTransformer):
    def visit_Call(self, node):
        self.generic_visit(node)
        if isinstance(node.func, ast.IfExp):
            import copy as _copy
            c = node.func
            a = ast.copy_location(ast.Call(func=c.body, args=node.args, keywords=node.keywords), node)
            b = ast.copy_location(ast.Call(func=c.orelse, args=_copy.deepcopy(node.args), keywords=_copy.deepcopy(node.keywords)), node)
            return ast.copy_location(ast.IfExp(test=c.test, body=a, orelse=b), node)
        return node


class _BoolReturn(ast.NodeTransformer):
    def _is_bool(self, e):
        return (isinstance(e, ast.UnaryOp) and isinstance(e.op, ast.Not)) or isinstance(e, ast.Compare) or \
            (isinstance(e, ast.Call) and isinstance(e.func, ast.Name) and e.func.id in ('isinstance', 'hasattr', 'callable', 'issubclass') and not e.keywords)

    def visit_Return(self, node):
        v = node.value
        if not (isinstance(v, ast.BoolOp) and len(v.values) >= 2 and self._is_bool(v.values[0])):
            return node
        first, rest = v.values[0], v.values[1:]
        tail = rest[0] if len(rest) == 1 else ast.copy_location(ast.BoolOp(op=v.op, values=rest), v)
        ret_tail = self.visit_Return(ast.copy_location(ast.Return(value=tail), node))
        ret_tail = ret_tail if isinstance(ret_tail, list) else [ret_tail]
        if isinstance(v.op, ast.Or):
            test, const = first, True
        else:
            test, const = ast.copy_location(ast.UnaryOp(op=ast.Not(), operand=first), first), False
        guard = ast.copy_location(ast.If(test=test, body=[ast.copy_location(ast.Return(value=ast.copy_location(ast.Constant(value=const), node)), node)], orelse=[]), node)
        return [guard] + ret_tail

    def visit_Lambda(self, node):
        return node


class _RaiseFrom(ast.NodeTransformer):
    def visit_Raise(self, node):
        if node.exc is not None and isinstance(node.cause, ast.IfExp):
            import copy as _copy
            c = node.cause
            a = ast.copy_location(ast.Raise(exc=node.exc, cause=c.body), node)
            b = ast.copy_location(ast.Raise(exc=_copy.deepcopy(node.exc), cause=c.orelse), node)
            return ast.copy_location(ast.If(test=c.test, body=[a], orelse=[b]), node)
        return node


class _TryKeyError(ast.NodeTransformer):
    """try: return D[K] / except KeyError: H  ->  if K in D: return D[K] / else: H   (see the module docstring)"""
    PURE = {'id', 'str', 'repr', 'tuple', 'persistent_id', 'utils.persistent_id', 'int', 'len'}

    def _pure(self, e):
        for n in ast.walk(e):
            if isinstance(n, ast.Call) and not (ast.unparse(n.func) in self.PURE and not n.keywords):
                return False
            if isinstance(n, (ast.NamedExpr, ast.Await, ast.Yield, ast.YieldFrom, ast.Lambda, ast.ListComp, ast.SetComp, ast.DictComp, ast.GeneratorExp)):
                return False
        return True

    def visit_Try(self, node):
        self.generic_visit(node)
        if node.orelse or node.finalbody or len(node.handlers) != 1 or len(node.body) != 1:
            return node
        h = node.handlers[0]
        if h.name is not None or h.type is None or ast.unparse(h.type) != 'KeyError':
            return node
        st = node.body[0]
        if isinstance(st, ast.Return):
            sub = st.value
        elif isinstance(st, ast.Assign) and len(st.targets) == 1 and isinstance(st.targets[0], ast.Name):
            sub = st.value
        else:
            return node
        if not (isinstance(sub, ast.Subscript) and isinstance(sub.ctx, ast.Load)) or isinstance(sub.slice, ast.Slice):
            return node
        d, k = sub.value, sub.slice
        base = d
        while isinstance(base, ast.Attribute):
            base = base.value
        if not isinstance(base, ast.Name) or (isinstance(d, ast.Name) and d.id in ('self', 'cls')) or not self._pure(k) or not self._pure(d):
            return node
        if any(isinstance(x, ast.Raise) and x.exc is None for hs in h.body for x in ast.walk(hs)):
            return node       # a bare `raise` needs the exception
        test = ast.Compare(left=k, ops=[ast.In()], comparators=[d])
        orelse = [] if all(isinstance(x, ast.Pass) for x in h.body) else h.body
        return ast.copy_location(ast.If(test=test, body=[st], orelse=orelse), node)


def _rebinds(tree, name):
    for n in ast.walk(tree):
        if isinstance(n, ast.Name) and n.id == name and isinstance(n.ctx, (ast.Store, ast.Del)):
            return True
        if isinstance(n, ast.arg) and n.arg == name:
            return True
        if isinstance(n, ast.alias) and (n.asname or n.name.split('.')[0]) == name:
            return True
        if isinstance(n, (ast.FunctionDef, ast.AsyncFunctionDef, ast.ClassDef)) and n.name == name:
            return True
    return False


def desugar(tree):
    if any(isinstance(n, ast.Call) and isinstance(n.func, ast.Name) and n.func.id == 'dict' and not n.args for n in ast.walk(tree)) and not _rebinds(tree, 'dict'):
        tree = _DictCalls().visit(tree)
        ast.fix_missing_locations(tree)
    if any(isinstance(n, ast.Try) and len(n.handlers) == 1 and n.handlers[0].type is not None and ast.unparse(n.handlers[0].type) == 'KeyError' for n in ast.walk(tree)):
        tree = _TryKeyError().visit(tree)
        ast.fix_missing_locations(tree)
    if any(isinstance(n, ast.Assign) and len(n.targets) > 1 for n in ast.walk(tree)):
        tree = _Chained().visit(tree)
        ast.fix_missing_locations(tree)
    if any(isinstance(n, ast.Call) and ast.unparse(n.func) in _PartialApply.NAMES for n in ast.walk(tree)):
        tree = _PartialApply({n.name: n for n in tree.body if isinstance(n, ast.FunctionDef)}).visit(tree)
        ast.fix_missing_locations(tree)
    if any(isinstance(n, ast.Call) and isinstance(n.func, ast.IfExp) for n in ast.walk(tree)):
        tree = _CallOfChoice().visit(tree)
        ast.fix_missing_locations(tree)
    if any(isinstance(n, ast.Return) and isinstance(n.value, ast.BoolOp) for n in ast.walk(tree)):
        tree = _BoolReturn().visit(tree)
        ast.fix_missing_locations(tree)
    if any(isinstance(n, ast.Raise) and isinstance(n.cause, ast.IfExp) for n in ast.walk(tree)):
        tree = _RaiseFrom().visit(tree)
        ast.fix_missing_locations(tree)
    consts = _private_literal_constants(tree)
    if consts:
        tree = _Propagate(consts).visit(tree)
        ast.fix_missing_locations(tree)
    names = set()
    for n in tree.body:
        if isinstance(n, ast.Import):
            for a in n.names:
                if a.name == 'contextlib':
                    names.add((a.asname or 'contextlib') + '.suppress')
        elif isinstance(n, ast.ImportFrom) and n.module == 'contextlib' and n.level == 0:
            for a in n.names:
                if a.name == 'suppress':
                    names.add(a.asname or 'suppress')
    has_suppress = names and any(isinstance(n, ast.With) and any(isinstance(i.context_expr, ast.Call) and ast.unparse(i.context_expr.func) in names for i in n.items) for n in ast.walk(tree))
    if not has_suppress and not any(isinstance(n, (ast.Match, ast.AnnAssign)) for n in ast.walk(tree)):
        return tree
    tree = _Desugar(names).visit(tree)
    ast.fix_missing_locations(tree)
    return tree
