"""E4 - effect summaries for the two-store containers (ConfigDict / ConfigList).

Every container node keeps its entries twice: in the built-in dict / list storage (**B**) and in the child map
`self._children` (**C**).  For one mutator the analysis enumerates the structural paths through its body
(if: both arms; for/while: zero or one iteration; try: body, or body-prefix + handler), inlines calls that
resolve to repo methods on `self` (bottom-up, bounded depth) and records the ordered primitive effects

    B.<op>(key)   dict.__setitem__(self, k, v), list.append(self, v), list.__delitem__(self, i), ...
    C.<op>(key)   self._children[k] = v, del self._children[k], self._children.pop(k), self._children.clear(),
                  self._children = <rebuilt map>

together with the branch facts of the path.  `balanced()` then decides whether the two stores received the
same updates (after the idioms confirmed by reading the repo, see DESIGN C17.R1).
"""
import ast

from .report import AnalysisError
from .srcmodel import unparse, norm

B_TABLE = {'__setitem__': ('set', 1), '__delitem__': ('del', 1), 'pop': ('del', 1), 'popitem': ('delany', None), 'clear': ('clear', None),
           'append': ('append', None), 'insert': ('insert', 1), '__init__': ('init', 1), 'extend': ('extend', None),
           'remove': ('delvalue', 1), 'update': ('update', None), 'setdefault': ('setdefault', 1), 'sort': ('reorder', None), 'reverse': ('reorder', None),
           '__iadd__': ('extend', None), '__imul__': ('repeat', None), '__ior__': ('update', None)}
B_READS = {'__getitem__', '__contains__', '__len__', '__iter__', 'index', 'count', 'get', 'keys', 'values', 'items', 'copy', '__eq__', '__repr__', '__str__'}


class Eff:
    def __init__(self, store, op, key=None, node=None):
        self.store, self.op, self.key, self.node = store, op, key, node

    def __repr__(self):
        return '%s.%s(%s)' % (self.store, self.op, self.key) if self.key is not None else '%s.%s' % (self.store, self.op)


class Path:
    def __init__(self):
        self.effs = []
        self.facts = []
        self.end = None
        self.loops = 0
        self.locals = {}     # local name -> AST of the single expression it was last bound to on this path

    def copy(self):
        p = Path()
        p.locals = dict(self.locals)
        p.effs = list(self.effs)
        p.facts = list(self.facts)
        p.end = self.end
        p.loops = self.loops
        return p


def _subst(src, env):
    if src is None or not env:
        return src
    try:
        t = ast.parse(src, mode='eval')
    except SyntaxError:
        return src

    class S(ast.NodeTransformer):
        def visit_Name(self, n):
            if n.id in env:
                try:
                    return ast.parse(env[n.id], mode='eval').body
                except SyntaxError:
                    return n
            return n
    return unparse(S().visit(t))


_UNALIAS = {}


def _unalias_children(fnode):
    """the function with local aliases of the child map read through: `children = self._children` (the only binding of that local,
    the attribute itself never rebound in the function) makes `children[k] = v` / `del children[k]` / `children.pop(k)` operations on
    self._children - the same object"""
    ent = _UNALIAS.get(id(fnode))
    if ent is not None and ent[0] is fnode:
        return ent[1]
    import copy
    out = fnode
    aliases = {}
    stores = {}
    for n in ast.walk(fnode):
        if isinstance(n, ast.Name) and isinstance(n.ctx, (ast.Store, ast.Del)):
            stores[n.id] = stores.get(n.id, 0) + 1
    rebinds = any(isinstance(n, ast.Attribute) and isinstance(n.ctx, (ast.Store, ast.Del)) and unparse(n) == 'self._children' for n in ast.walk(fnode))
    if not rebinds:
        for st in fnode.body:
            if isinstance(st, ast.Assign) and len(st.targets) == 1 and isinstance(st.targets[0], ast.Name) and unparse(st.value) == 'self._children' and stores.get(st.targets[0].id) == 1 \
                    and st.targets[0].id not in [a.arg for a in fnode.args.args + fnode.args.kwonlyargs + fnode.args.posonlyargs]:
                aliases[st.targets[0].id] = st
    if aliases:
        out = copy.deepcopy(fnode)

        class S(ast.NodeTransformer):
            def visit_FunctionDef(self, n):
                return n if n is not out else self.generic_visit(n)

            def visit_Lambda(self, n):
                return n

            def visit_Name(self, n):
                if n.id in aliases and isinstance(n.ctx, ast.Load):
                    return ast.copy_location(ast.Attribute(value=ast.Name(id='self', ctx=ast.Load()), attr='_children', ctx=ast.Load()), n)
                return n
        out = S().visit(out)
        out.body = [st for st in out.body if not (isinstance(st, ast.Assign) and len(st.targets) == 1 and isinstance(st.targets[0], ast.Name) and st.targets[0].id in aliases)]
        ast.fix_missing_locations(out)
    _UNALIAS[id(fnode)] = (fnode, out)
    return out


_INLINED = {}


def _inline_index_locals(fnode):
    """the function with locals that only name a position read through: `pos = len(self)` / `last = len(self) - 1` / `at = index`
    bound exactly once (not a parameter, not in a loop), from an expression made of names, constants, arithmetic and len(..), and with
    no operation on the built-in storage between the binding and any use (so that len(self) means the same at both places) - the
    effects are then keyed by the expression, whatever the local is called"""
    ent = _INLINED.get(id(fnode))
    if ent is not None and ent[0] is fnode:
        return ent[1]
    import copy
    params = {a.arg for a in fnode.args.args + fnode.args.kwonlyargs + fnode.args.posonlyargs} | ({fnode.args.vararg.arg} if fnode.args.vararg else set()) | ({fnode.args.kwarg.arg} if fnode.args.kwarg else set())
    stores = {}
    for n in ast.walk(fnode):
        if isinstance(n, ast.Name) and isinstance(n.ctx, (ast.Store, ast.Del)):
            stores[n.id] = stores.get(n.id, 0) + 1

    def simple(e):
        for x in ast.walk(e):
            if isinstance(x, ast.Call):
                if not (isinstance(x.func, ast.Name) and x.func.id == 'len' and len(x.args) == 1 and not x.keywords):
                    return False
            elif not isinstance(x, (ast.Name, ast.Constant, ast.BinOp, ast.UnaryOp, ast.operator, ast.unaryop, ast.expr_context)):
                return False
        return True
    mutators = [n for n in ast.walk(fnode) if isinstance(n, ast.Call) and isinstance(n.func, ast.Attribute) and n.func.attr in B_TABLE]
    cands = {}
    for st in fnode.body:       # (top-level statements of the body only: never inside a loop)
        if isinstance(st, ast.Assign) and len(st.targets) == 1 and isinstance(st.targets[0], ast.Name) and stores.get(st.targets[0].id) == 1 \
                and st.targets[0].id not in params and simple(st.value) and any(isinstance(x, ast.Call) for x in ast.walk(st.value)):
            name = st.targets[0].id
            uses = [n for n in ast.walk(fnode) if isinstance(n, ast.Name) and n.id == name and isinstance(n.ctx, ast.Load)]
            inner = {id(x) for x in ast.walk(fnode) if isinstance(x, (ast.FunctionDef, ast.Lambda)) and x is not fnode for x in ast.walk(x)}
            if not uses or any(id(u) in inner for u in uses):
                continue
            last = max((u.lineno, u.col_offset) for u in uses)
            if any((st.lineno, st.col_offset) < (m.lineno, m.col_offset) < last and not any(u.lineno == m.lineno and m.col_offset <= u.col_offset <= (m.end_col_offset or 10 ** 6) for u in uses if (u.lineno, u.col_offset) == last) for m in mutators):
                continue
            cands[name] = st
    out = fnode
    if cands:
        out = copy.deepcopy(fnode)
        exprs = {k: v.value for k, v in cands.items()}

        class S(ast.NodeTransformer):
            def visit_Name(self, n):
                if n.id in exprs and isinstance(n.ctx, ast.Load):
                    return ast.copy_location(copy.deepcopy(exprs[n.id]), n)
                return n
        out = S().visit(out)
        out.body = [st for st in out.body if not (isinstance(st, ast.Assign) and len(st.targets) == 1 and isinstance(st.targets[0], ast.Name) and st.targets[0].id in cands)]
        ast.fix_missing_locations(out)
    _INLINED[id(fnode)] = (fnode, out)
    return out


class Analyzer:
    _memo_numbers = {}

    def __init__(self, repo, cls_name, max_depth=9, max_paths=6000):
        self.repo = repo
        self.cls = cls_name
        mro = repo.mro(cls_name)
        self.base = 'dict' if 'dict' in mro else ('list' if 'list' in mro else None)
        if self.base is None:
            raise AnalysisError('%s has no built-in dict/list base' % cls_name)
        self.max_depth = max_depth
        self.max_paths = max_paths
        self._abort = []
        self._renamed = {}
        self.unresolved = []
        self._memo = {}

    # -- lookup ---------------------------------------------------------------------------
    def lookup(self, member, ayns=False, after=None, cls=None):
        return self.repo.resolve(cls or self.cls, member, ayns=ayns, after=after)

    # -- classification of one call ---------------------------------------------------------
    def _prim(self, call):
        f = call.func
        s = unparse(f)
        args = call.args

        def k(i):
            return norm(args[i]) if len(args) > i else None
        if isinstance(f, ast.Attribute) and isinstance(f.value, ast.Name) and f.value.id in ('dict', 'list') and args and unparse(args[0]) == 'self':
            m = f.attr
            if m in B_TABLE:
                op, ki = B_TABLE[m]
                return Eff('B', op, k(ki) if ki is not None else None, call)
            if m in B_READS:
                return 'read'
            raise AnalysisError('unknown built-in storage operation %s' % s)
        if s == 'self._children.pop':
            return Eff('C', 'del', k(0), call)
        if s == 'self._children.clear':
            return Eff('C', 'clear', None, call)
        if s in ('self._children.update', 'self._children.setdefault', 'self._children.popitem', 'self._children.__setitem__', 'self._children.__delitem__'):
            raise AnalysisError('child map primitive %s not modelled' % s)
        return None

    def _target(self, call, owner_fi):
        """FuncInfo that a call on self resolves to (None = no effect on self / external)"""
        f = call.func
        if isinstance(f, ast.Name) and f.id in owner_fi.module.functions and any(isinstance(a, ast.Name) and a.id == 'self' for a in call.args):
            # a module-level helper that receives the container: analysed as if it were a method (its parameter renamed to self)
            t = owner_fi.module.functions[f.id]
            idx = [i for i, a in enumerate(call.args) if isinstance(a, ast.Name) and a.id == 'self'][0]
            ps = t.params()
            if idx < len(ps):
                return self._as_method(t, ps[idx]), ('drop', idx)
            return None
        if not isinstance(f, ast.Attribute):
            return None
        recv = f.value
        via = isinstance(recv, ast.Attribute) and recv.attr == 'ayns'
        if via:
            recv = recv.value
        r = unparse(recv)
        if r == 'self':
            return self.lookup(f.attr, ayns=via), 0
        if r == 'super()':
            return self.lookup(f.attr, ayns=via, after=owner_fi.cls.name), 0
        if r in self.repo.classes and call.args and unparse(call.args[0]) == 'self':
            t = self.repo.resolve(r, f.attr, ayns=via)
            return t, 1
        return None

    def _as_method(self, t, pname):
        key = (id(t.node), pname)
        if key not in self._renamed:
            from .tracer import clone
            from .srcmodel import FuncInfo
            node = clone(t.node)

            class R(ast.NodeTransformer):
                def visit_Name(self, n):
                    if n.id == pname:
                        return ast.copy_location(ast.Name(id='self', ctx=n.ctx), n)
                    return n

                def visit_arg(self, a):
                    if a.arg == pname:
                        a.arg = 'self'
                    return a
            node = R().visit(node)
            ast.fix_missing_locations(node)
            self._renamed[key] = FuncInfo(node, t.module, None, False, outer=None)
        return self._renamed[key]

    # -- path enumeration ---------------------------------------------------------------------
    def paths(self, fi, depth=0):
        if depth > self.max_depth:
            raise AnalysisError('effect inlining deeper than %d at %s' % (self.max_depth, fi.qualname))
        key = id(fi.node)
        if key in self._memo and not self._abort:
            return [p.copy() for p in self._memo[key]]
        res = self._run(_inline_index_locals(_unalias_children(fi.node)).body, [Path()], fi, depth)
        if depth > 0:
            # summarise: effect-free paths carry no information for the caller (its own branch tests are recorded
            # as facts by the caller); keep one representative per outcome
            out, seen = [], set()
            for p in res:
                if not p.effs:
                    k = ('raise' if p.end == 'raise' else 'normal')
                    if k in seen:
                        continue
                    seen.add(k)
                    q = Path()
                    q.end = p.end
                    out.append(q)
                else:
                    out.append(p)
            res = out
        if not self._abort:
            self._memo[key] = [p.copy() for p in res]
        return res

    def _run(self, stmts, paths, fi, depth):
        for st in stmts:
            nxt = []
            for p in paths:
                if p.end:
                    nxt.append(p)
                else:
                    nxt.extend(self._step(st, p, fi, depth))
            paths = nxt
            if len(paths) > self.max_paths:
                raise AnalysisError('path explosion in %s' % fi.qualname)
        return paths

    def _calls(self, node):
        out = []
        stack = [node]
        while stack:
            n = stack.pop()
            if isinstance(n, ast.Call):
                out.append(n)
            if isinstance(n, (ast.Lambda, ast.FunctionDef, ast.ClassDef)) and n is not node:
                continue
            stack.extend(ast.iter_child_nodes(n))
        out.sort(key=lambda c: (c.end_lineno, c.end_col_offset))
        return out

    def _apply_expr(self, node, p, fi, depth):
        ps = [p]
        for c in self._calls(node):
            e = self._prim(c)
            if e == 'read':
                continue
            if e is not None:
                for q in ps:
                    q.effs.append(e)
                continue
            tgt = self._target(c, fi)
            if not tgt or tgt[0] is None:
                # a call on self that falls through to the built-in base mutates B only
                f = c.func
                if isinstance(f, ast.Attribute) and unparse(f.value) == 'self' and f.attr in B_TABLE and self.lookup(f.attr) is None:
                    op, ki = B_TABLE[f.attr]
                    for q in ps:
                        q.effs.append(Eff('B', op, norm(c.args[ki - 1]) if ki is not None and len(c.args) >= ki else None, c))
                continue
            t, skip = tgt
            if t.is_property:
                continue
            if isinstance(skip, tuple):
                params = [pn for i_, pn in enumerate(t.params()) if i_ != skip[1]]
                args = [a_ for i_, a_ in enumerate(c.args) if i_ != skip[1]]
            else:
                params = t.params()[1:] if not t.is_static else t.params()
                args = c.args[skip:]
            amap = {pn: norm(a) for pn, a in zip(params, args)}
            for kwd in c.keywords:
                if kwd.arg:
                    amap[kwd.arg] = norm(kwd.value)
            # defaults of unbound parameters (needed for facts like `strict`)
            a = t.node.args
            names = [x.arg for x in a.args]
            for i, d in enumerate(a.defaults):
                nm = names[len(names) - len(a.defaults) + i]
                if nm not in amap and nm != 'self':
                    amap[nm] = norm(d)
            # exceptional exits of a try block around this call are taken from the caller's state before the call; the
            # callee's own statements must not register their (callee-local) states as such exits
            saved_abort, self._abort = self._abort, []
            try:
                subs = self.paths(t, depth + 1)
            finally:
                self._abort = saved_abort
            new = []
            for q in ps:
                for sp in subs:
                    r = q.copy()
                    for e2 in sp.effs:
                        r.effs.append(Eff(e2.store, e2.op, _subst(e2.key, amap), e2.node))
                    r.facts += [_subst(f_, amap) for f_ in sp.facts]
                    r.loops += sp.loops
                    if sp.end == 'raise':
                        r.end = 'raise'
                    new.append(r)
            ps = new
            if len(ps) > self.max_paths:
                raise AnalysisError('path explosion in %s' % fi.qualname)
        return ps

    def _numbers_its_argument(self, h):
        """the module-level helper h(elements) evaluated on concrete sequences: does it return {0: e0, 1: e1, ...} in order?"""
        key = id(h.node)
        if key not in self._memo_numbers or self._memo_numbers[key][0] is not h.node:
            from .fde import FDE, Unsupported, Raised
            ok = True
            try:
                for seq in (['x', 'y', 'z'], [], ['only']):
                    r = FDE(self.repo, max_depth=4).call(h, list(seq))
                    if r.raised or not isinstance(r.ret, dict) or list(r.ret.items()) != list(enumerate(seq)):
                        ok = False
            except (Unsupported, Raised, AnalysisError):
                ok = False
            self._memo_numbers[key] = (h.node, ok)
        return self._memo_numbers[key][1]

    def _synth(self, name, args, like):
        c = ast.Call(func=ast.Attribute(value=ast.Name(id='self', ctx=ast.Load()), attr=name, ctx=ast.Load()), args=args, keywords=[])
        ast.copy_location(c, like)
        ast.fix_missing_locations(c)
        c.end_lineno, c.end_col_offset = like.end_lineno, like.end_col_offset
        return c

    def _step(self, st, p, fi, depth):
        A = self._abort
        if isinstance(st, ast.Expr) and isinstance(st.value, ast.Constant):
            return [p]
        if isinstance(st, ast.Assign) and len(st.targets) == 1:
            t = st.targets[0]
            if isinstance(t, ast.Subscript) and unparse(t.value) == 'self._children':
                if A:
                    A[-1].append(p.copy())
                outs = self._apply_expr(st.value, p, fi, depth)
                for q in outs:
                    q.effs.append(Eff('C', 'set', norm(t.slice), st))
                return outs
            if unparse(t) == 'self._children':
                if A:
                    A[-1].append(p.copy())
                outs = self._apply_expr(st.value, p, fi, depth)
                rhs = st.value
                if isinstance(rhs, ast.Name) and rhs.id in p.locals:
                    rhs = p.locals[rhs.id]          # `tmp = {...}; self._children = tmp`
                if isinstance(rhs, ast.Call) and isinstance(rhs.func, ast.Name) and len(rhs.args) == 1 and not rhs.keywords and unparse(rhs.args[0]) == 'self' \
                        and rhs.func.id in fi.module.functions and rhs.func.id not in fi.module.rebound:
                    # a private module-level helper that only returns an expression of its parameter: read through (self._children = _number_children(self))
                    h = fi.module.functions[rhs.func.id]
                    body = [x for x in h.node.body if not (isinstance(x, ast.Expr) and isinstance(x.value, ast.Constant))]
                    hp = h.params()
                    if len(body) == 1 and isinstance(body[0], ast.Return) and body[0].value is not None and len(hp) == 1:
                        import copy as _copy

                        class R(ast.NodeTransformer):
                            def visit_Name(self, n):
                                return ast.copy_location(ast.Name(id='self', ctx=n.ctx), n) if n.id == hp[0] else n
                        rhs = R().visit(_copy.deepcopy(body[0].value))
                if isinstance(rhs, ast.Call) and isinstance(rhs.func, ast.Name) and len(rhs.args) == 1 and not rhs.keywords and unparse(rhs.args[0]) == 'self' \
                        and rhs.func.id in fi.module.functions and rhs.func.id not in fi.module.rebound and self._numbers_its_argument(fi.module.functions[rhs.func.id]):
                    rhs = ast.parse('dict(enumerate(self))', mode='eval').body       # a helper that numbers the elements of its argument (decided by evaluation)
                v = norm(rhs)
                canonical = v.replace(' ', '') in ('{idx:childforidx,childinenumerate(self)}', '{i:cfori,cinenumerate(self)}', 'dict(enumerate(self))', '{i:vfori,vinenumerate(self)}', '{idx:valueforidx,valueinenumerate(self)}')
                if not canonical:
                    # any dict comprehension {a: b for a, b in enumerate(self)}
                    canonical = isinstance(rhs, ast.DictComp) and len(rhs.generators) == 1 and norm(rhs.generators[0].iter) == 'enumerate(self)' \
                        and not rhs.generators[0].ifs and isinstance(rhs.generators[0].target, ast.Tuple) \
                        and [norm(e) for e in rhs.generators[0].target.elts] == [norm(rhs.key), norm(rhs.value)]
                kind = 'from-storage' if canonical else ('empty' if v in ('{}', 'dict()') else 'other')
                for q in outs:
                    q.effs.append(Eff('C', 'rebuild', kind, st))
                return outs
            if isinstance(t, ast.Subscript) and unparse(t.value) == 'self':
                if A:
                    A[-1].append(p.copy())
                outs = self._apply_expr(st.value, p, fi, depth)
                res = []
                c = self._synth('__setitem__', [t.slice, st.value], st)
                for q in outs:
                    res += self._apply_expr(ast.Expr(value=c), q, fi, depth)
                return res
            if A and self._calls(st):
                A[-1].append(p.copy())
            outs = self._apply_expr(st.value, p, fi, depth)
            if isinstance(t, ast.Name):
                for q in outs:
                    q.locals[t.id] = st.value
            return outs
        if isinstance(st, ast.Delete) and len(st.targets) == 1 and isinstance(st.targets[0], ast.Subscript):
            t = st.targets[0]
            if A:
                A[-1].append(p.copy())
            if unparse(t.value) == 'self._children':
                p.effs.append(Eff('C', 'del', norm(t.slice), st))
                return [p]
            if unparse(t.value) == 'self':
                c = self._synth('__delitem__', [t.slice], st)
                return self._apply_expr(ast.Expr(value=c), p, fi, depth)
            return [p]
        if isinstance(st, ast.If):
            t = norm(st.test)
            outs = []
            for q in self._apply_expr(st.test, p.copy(), fi, depth):
                q2 = q.copy()
                q2.facts.append(t)
                outs += self._run(st.body, [q2], fi, depth)
                q3 = q.copy()
                q3.facts.append('not (%s)' % t)
                outs += self._run(st.orelse, [q3], fi, depth)
            return outs
        if isinstance(st, (ast.For, ast.While)):
            outs = []
            hdr = st.iter if isinstance(st, ast.For) else st.test
            for q in self._apply_expr(hdr, p.copy(), fi, depth):
                outs.append(q.copy())
                for o in self._run(st.body, [q.copy()], fi, depth):
                    o.loops += 1
                    if o.end in ('break', 'continue'):
                        o.end = None
                    outs.append(o)
            return outs
        if isinstance(st, ast.Try):
            aborts = []
            self._abort.append(aborts)
            body = self._run(st.body, [p.copy()], fi, depth)
            self._abort.pop()
            outs = list(body)
            for h in st.handlers:
                for q in aborts:
                    q2 = q.copy()
                    q2.facts.append('exc@try')
                    outs += self._run(h.body, [q2], fi, depth)
            if st.finalbody:
                outs = self._run(st.finalbody, outs, fi, depth)
            return outs
        if isinstance(st, ast.With):
            outs = [p]
            for it in st.items:
                nxt = []
                for q in outs:
                    nxt += self._apply_expr(it.context_expr, q, fi, depth)
                outs = nxt
            return self._run(st.body, outs, fi, depth)
        if isinstance(st, ast.Return):
            if A and st.value is not None and self._calls(st):
                A[-1].append(p.copy())
            outs = self._apply_expr(st.value, p, fi, depth) if st.value is not None else [p]
            for q in outs:
                if not q.end:
                    q.end = 'return'
            return outs
        if isinstance(st, ast.Raise):
            p.end = 'raise'
            return [p]
        if isinstance(st, (ast.Break, ast.Continue)):
            p.end = 'break' if isinstance(st, ast.Break) else 'continue'
            return [p]
        if isinstance(st, (ast.Pass, ast.Import, ast.ImportFrom, ast.Global, ast.Nonlocal, ast.FunctionDef, ast.ClassDef)):
            return [p]
        if isinstance(st, ast.Assert):
            return self._apply_expr(st.test, p, fi, depth)
        if isinstance(st, (ast.Expr, ast.AugAssign, ast.AnnAssign)):
            if A and self._calls(st):
                A[-1].append(p.copy())
            if isinstance(st, ast.AugAssign) and unparse(st.target).startswith('self._children'):
                raise AnalysisError('augmented assignment to the child map not modelled')
            return self._apply_expr(st, p, fi, depth)
        if isinstance(st, ast.Assign):
            if any(unparse(t).startswith('self._children') for t in st.targets):
                raise AnalysisError('multi-target assignment to the child map not modelled')
            return self._apply_expr(st.value, p, fi, depth)
        raise AnalysisError('statement %s not modelled by the effect analysis' % type(st).__name__)


def canon(e):
    k = e.key.replace(' ', '') if e.key is not None else None
    op = e.op
    if e.store == 'B' and op == 'append':
        op, k = 'set', 'len(self)'
    if k == '-1':
        k = 'len(self)-1'
    return (op, k)


def _normfact(f):
    """strip double negations; `not a != b` -> `a == b`"""
    try:
        e = ast.parse(f, mode='eval').body
    except SyntaxError:
        return f
    neg = False
    while isinstance(e, ast.UnaryOp) and isinstance(e.op, ast.Not):
        neg = not neg
        e = e.operand
    if neg and isinstance(e, ast.Compare) and len(e.ops) == 1 and isinstance(e.ops[0], (ast.NotEq, ast.Eq)):
        e = ast.Compare(left=e.left, ops=[ast.Eq() if isinstance(e.ops[0], ast.NotEq) else ast.NotEq()], comparators=e.comparators)
        neg = False
    return ('not ' if neg else '') + norm(e)


def balanced(p, base):
    """(ok, why) for one path"""
    B = [e for e in p.effs if e.store == 'B']
    C = [e for e in p.effs if e.store == 'C']
    if len(B) == 1 and B[0].op == 'init' and p.effs[-1] is B[0] and B[0].key in ('self._children', 'self._children.values()') \
            and all(e.op == 'rebuild' for e in C):
        return True, 'storage initialised from the freshly built child map'
    if C and C[-1].op == 'rebuild' and C[-1].key == 'from-storage' and p.effs[-1] is C[-1]:
        return True, 'child map re-derived from the storage (order and numbering by construction)'
    if any(e.op == 'rebuild' and e.key != 'empty' for e in C):
        return False, 'child map rebuilt / shifted without a final re-derivation from the storage: order or numbering may differ'
    C = [e for e in C if not (e.op == 'rebuild' and e.key == 'empty')]
    if p.end == 'raise':
        C2 = list(C)
        for e in list(C2):
            if e.op == 'set' and e in C2:
                for d in C2:
                    if d.op == 'del' and d.key == e.key and C2.index(d) > C2.index(e):
                        C2.remove(e)
                        C2.remove(d)
                        break
        C = C2
    b = sorted(map(canon, B), key=str)
    c = sorted(map(canon, C), key=str)
    if b == c:
        return True, 'balanced'
    facts = [_normfact(f).replace(' ', '') for f in p.facts]

    def eqfact(x, y):
        return any(f == '%s==%s' % (x, y) or f == '%s==%s' % (y, x) for f in facts)
    if len(b) == len(c) and all(bo == co and (bk == ck or eqfact(bk, ck)) for (bo, bk), (co, ck) in zip(b, c)):
        return True, 'balanced under a path fact'
    if len(b) == 1 and not c and b[0][0] == 'del' and any(f.startswith(('not(self.ayns.has_child(', 'not(self.has_child(', 'notself.ayns.has_child(', 'notself.has_child(')) for f in facts):
        return True, 'storage deletion with the child map known not to hold the key'
    return False, 'storage effects %s vs child-map effects %s' % (b, c)
