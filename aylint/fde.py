"""E3 - finite-domain evaluator.

A small partial evaluator over the *AST* of repo functions (no repo code is imported or executed by
CPython): given abstract node objects whose merge-control fields range over finite domains
({None, True, False} flags, {None, -1, 0, 1} priorities) it evaluates a restricted statement language
for one concrete valuation and returns the resulting field values / returned token / ordered effect
calls.  The rules call it for *every* valuation of the declared inputs, i.e. they build the complete truth
table of the source fragment.  Anything outside the language raises Unsupported, which the rules turn
into an analysis error (fail closed).
"""
import ast

from .report import AnalysisError
AnalysisErrorType = AnalysisError
from .srcmodel import unparse, fold_const


TOUCHED = set()      # qualnames of the functions evaluated since the last reset - used by the thorough sweep


class Unsupported(AnalysisError):
    pass


class Raised(Exception):
    def __init__(self, exc, args=None, attrs=None):
        self.exc = exc
        self.args_ = args     # evaluated constructor arguments of the exception when they could be computed
        self.attrs = attrs    # attributes of the exception object a stand-in declares (e.g. errno of an OSError)


class _Return(Exception):
    def __init__(self, v):
        self.v = v


_STR_METHODS = frozenset({'startswith', 'endswith', 'lower', 'upper', 'strip', 'lstrip', 'rstrip', 'split', 'rsplit', 'partition', 'rpartition',
                          'replace', 'find', 'rfind', 'isdigit', 'join', 'format', 'removeprefix', 'removesuffix', 'title', 'capitalize'})


_PURE_BUILTINS = {'next': next, 'iter': iter, 'dict': dict, 'list': list, 'tuple': tuple, 'set': set, 'sorted': sorted, 'range': range, 'enumerate': enumerate, 'zip': zip, 'reversed': reversed,
                  'min': min, 'max': max, 'abs': abs, 'sum': sum, 'len': len, 'str': str, 'int': int, 'bool': bool, 'repr': repr, 'frozenset': frozenset}


import posixpath as _pp
import pathlib as _pathlib
import builtins as _builtins_mod
_PURE_EXTERNALS = {'os.path.join': _pp.join, 'os.path.normpath': _pp.normpath, 'os.path.basename': _pp.basename, 'os.path.dirname': _pp.dirname,
                   'os.path.splitext': _pp.splitext, 'os.path.isabs': _pp.isabs, 'os.path.abspath': lambda x: _pp.normpath(_pp.join('/cwd', x)),
                   'os.fspath': str, 'os.path.split': _pp.split}


def _chain(*its):
    if any(type(it).__name__ in ('generator', 'count') for it in its):
        import itertools
        return (x for x in itertools.chain(*its))      # lazy over lazy inputs
    out = []
    for it in its:
        out.extend(it)
    return out


def _islice(it, *a):
    import itertools
    return list(itertools.islice(it, *a))


def _pairwise(it):
    if not isinstance(it, (list, tuple)):
        import itertools
        return (x for x in itertools.pairwise(_guarded_iter(it)))      # lazy over a lazy input
    it = list(it)
    return list(zip(it, it[1:]))


_BUILTIN_VALUES = {}


def _builtin_value(name):
    if name not in _BUILTIN_VALUES:
        fn = _PURE_BUILTINS[name]

        def call(*a, **k):
            if name == 'enumerate' and len(a) == 1 and not k and isinstance(a[0], Obj):
                return Opaque('enumerate(%s)' % a[0].name)       # (same as the direct call enumerate(<node>))
            if not all(_concrete(x) for x in a) or not all(_concrete(x) for x in k.values()):
                raise Unsupported('builtin %s applied to abstract values' % name)
            try:
                r = fn(*a, **k)
            except (Raised, Unsupported):
                raise
            except Exception as ex:  # noqa
                raise Raised(type(ex).__name__)
            return list(r) if name in ('range', 'enumerate', 'zip', 'reversed', 'map', 'filter') else r
        call._fde_ok = True
        _BUILTIN_VALUES[name] = call
    return _BUILTIN_VALUES[name]


def _ior(a, b):
    a |= b          # in place for dicts / sets, like operator.ior
    return a


def _iadd(a, b):
    a += b
    return a


def _opfn(fn):
    fn._fde_ok = True
    return fn


# operator.* functions that are exact on concrete values (the evaluator refuses abstract operands through the TypeError of the stand-in)
_OPERATOR_FNS = {'contains': _opfn(lambda a, b: b in a), 'getitem': _opfn(lambda a, b: a[b]), 'eq': _opfn(lambda a, b: a == b), 'ne': _opfn(lambda a, b: a != b),
                 'not_': _opfn(lambda a: not a), 'truth': _opfn(lambda a: bool(a)), 'is_': _opfn(lambda a, b: a is b), 'is_not': _opfn(lambda a, b: a is not b),
                 'add': _opfn(lambda a, b: a + b), 'sub': _opfn(lambda a, b: a - b), 'or_': _opfn(lambda a, b: a | b), 'and_': _opfn(lambda a, b: a & b),
                 'ior': _opfn(lambda a, b: _ior(a, b)), 'iadd': _opfn(lambda a, b: _iadd(a, b)), 'setitem': _opfn(lambda a, b, c: a.__setitem__(b, c)), 'lt': _opfn(lambda a, b: a < b), 'le': _opfn(lambda a, b: a <= b), 'gt': _opfn(lambda a, b: a > b), 'ge': _opfn(lambda a, b: a >= b)}


# pure stdlib helpers that only rearrange their (concrete) arguments; results are lists (consumers iterate them once)
_PURE_ITER = {'itertools.chain': _chain, 'chain': _chain, 'itertools.islice': _islice, 'islice': _islice, 'itertools.pairwise': _pairwise, 'pairwise': _pairwise,
              'itertools.chain.from_iterable': lambda its: _chain(*its), 'chain.from_iterable': lambda its: _chain(*its)}


def _concrete(v, depth=0):
    """a plain Python value without abstract parts (node objects, opaque values, class / external markers may be *elements*
    of containers - the builtins above only rearrange them - but not the container itself)"""
    if v is None or isinstance(v, (int, float, str, bytes)):
        return True
    if isinstance(v, _pathlib.PurePath):
        return True
    if type(v).__name__ == 'deque':
        return True
    if isinstance(v, (list, set)):
        return True
    if isinstance(v, dict):
        return True
    if type(v).__name__ in ('list_iterator', 'dict_keyiterator', 'dict_valueiterator', 'dict_itemiterator', 'tuple_iterator', 'set_iterator', 'dict_keys', 'dict_values', 'dict_items', 'generator'):
        return True
    if isinstance(v, tuple):
        return not (v and isinstance(v[0], str) and v[0] in ('class', 'ext', 'kind', 'closure', 'unbound', 'classayns', 'super', 'super_ayns', 'dictmethod', 'listmethod', 'strmethod', 'builtinmethod', 'objdictmethod', 'noop', 'dictdisplay'))
    return False


class _Scope(dict):
    """local scope of a closure call: reads fall back to the defining scope (late binding), writes stay local"""

    def __init__(self, parent):
        super().__init__()
        self.parent = parent
        self.nonlocals = set()

    def __setitem__(self, k, v):
        if k in self.nonlocals:
            self.parent[k] = v         # `nonlocal k`: the binding of the enclosing function is the one assigned
        else:
            dict.__setitem__(self, k, v)

    def __missing__(self, k):
        return self.parent[k]

    def __contains__(self, k):
        return dict.__contains__(self, k) or k in self.parent

    def get(self, k, d=None):
        try:
            return self[k]
        except KeyError:
            return d


def _is_generator_fn(fn):
    todo = list(fn.body)
    while todo:
        n = todo.pop()
        if isinstance(n, (ast.FunctionDef, ast.AsyncFunctionDef, ast.Lambda, ast.ClassDef)):
            continue
        if isinstance(n, (ast.Yield, ast.YieldFrom)):
            return True
        todo.extend(ast.iter_child_nodes(n))
    return False


def _load(t):
    import copy
    n = copy.copy(t)
    n.ctx = ast.Load()
    return n


class _Continue(Exception):
    pass


class _Break(Exception):
    pass


_ITER_TYPES = ('list_iterator', 'tuple_iterator', 'dict_keyiterator', 'dict_itemiterator', 'dict_valueiterator', 'set_iterator', 'list_reverseiterator',
               'enumerate', 'zip', 'generator', 'pairwise')


def _guarded_iter(it):
    """iterate a stdlib iterator (tokenizer, regex matches ...): what it raises is raised by the evaluated code"""
    it = iter(it)
    while True:
        try:
            x = next(it)
        except StopIteration:
            return
        except (Raised, Unsupported, AnalysisErrorType):
            raise
        except Exception as ex:  # noqa
            if type(ex).__name__ in ('_Return', '_Break', '_Continue', 'Yielded'):
                raise
            raise Raised(type(ex).__name__)
        yield x


def _lazy_ok(fn):
    """generator bodies the lazy evaluation models: yields at statement level, outside try / with"""
    for n in ast.walk(fn):
        if isinstance(n, (ast.Yield, ast.YieldFrom)):
            par = getattr(n, '_parent', None)
            if not isinstance(par, ast.Expr):
                return False
            q = par
            while q is not fn and q is not None:
                if isinstance(q, (ast.Try, ast.With)):
                    return False
                q = getattr(q, '_parent', None)
    return True


class CMGen:
    """a started-on-demand context manager: the generator of a @contextmanager function of the package"""

    def __init__(self, gen):
        self.gen = gen


class SimpleCM:
    """contextlib.closing(x) / contextlib.nullcontext(x) / contextlib.ExitStack(): entered value and what leaving does"""

    def __init__(self, kind, value=None):
        self.kind, self.value = kind, value
        self.stack = []        # ExitStack: the context managers entered through it, in order

    def __repr__(self):
        return '<%s>' % self.kind


class EnumMember:
    """member of a private Enum class of the package: compared by identity, like the real one"""

    def __init__(self, cls, name, value):
        self.cls, self.name, self.value = cls, name, value

    def __repr__(self):
        return '%s.%s' % (self.cls, self.name)


class ExcValue(tuple):
    """an exception object built by the evaluated code: ('exc', class name), with the constructor arguments on the side"""

    def __new__(cls, name, args=(), attrs=None):
        o = tuple.__new__(cls, ('exc', name))
        o.args_ = tuple(args)
        o.attrs = attrs
        return o


class NodeInt(int):
    """an integer scalar node used as a key / index: it is an int (truth, comparisons, arithmetic as such); `.ayns.native_value`
    is its plain value"""

    def __new__(cls, value, name=None):
        o = int.__new__(cls, value)
        o.name = name or 'key%d' % value
        return o

    def __repr__(self):
        return '<int node %d>' % int(self)


class PathVal(list):
    """a node path as the package's NodePath presents itself to the code that uses it: a list of components that prints as the
    joined path text and is hashable (but never equal to that text)"""

    def __init__(self, components, text):
        super().__init__(components)
        self.text = text

    def __str__(self):
        return self.text

    __repr__ = __str__

    def __hash__(self):
        return hash(tuple(self))


class Yielded(Exception):
    """evaluation reached a `yield` (used to evaluate the set-up half of a context manager)"""


class Opaque:
    def __init__(self, name):
        self.name = name

    def __repr__(self):
        return '?' + self.name


class TypedOpaque(Opaque):
    """an unknown value of a known builtin Python type (isinstance tests against stdlib classes are decided from
    the stdlib's own class relations)"""

    def __init__(self, pytype):
        super().__init__('<%s value>' % pytype.__name__)
        self.pytype = pytype


class Obj:
    """abstract node instance: a class name (for getter / class-attribute resolution) and fields"""

    def __init__(self, name, cls, **fields):
        self.name = name
        self.cls = cls
        self.f = dict(fields)
        self.missing = set()     # attributes that do not exist (hasattr false)

    def __repr__(self):
        return self.name

    # scalar stand-ins that carry a payload (`_fde_payload`) are instances of the built-in type they wrap: they hash and compare by
    # that value (as keys of a dict, members of a set, operands of == / in); every other object by identity
    def __eq__(self, other):
        if '_fde_payload' in self.f:
            po = other.f['_fde_payload'] if isinstance(other, Obj) and '_fde_payload' in other.f else other
            if not isinstance(po, (Obj, Opaque)):
                return self.f['_fde_payload'] == po
        return self is other

    def __ne__(self, other):
        return not self.__eq__(other)

    def __hash__(self):
        if '_fde_payload' in self.f:
            return hash(self.f['_fde_payload'])
        return id(self)


class Ayns:
    def __init__(self, obj):
        self.obj = obj


class ObjDict:
    """the __dict__ of an abstract object"""

    def __init__(self, obj):
        self.obj = obj


class Bound:
    def __init__(self, recv, fi, name, via_ayns):
        self.recv, self.fi, self.name, self.via_ayns = recv, fi, name, via_ayns


class Result:
    def __init__(self):
        self.ret = None
        self.raised = None
        self.raised_args = None
        self.effects = []


class FDE:
    DEFAULT_STUBS = frozenset({'_maybe_promote', '_propagate_implicit_values', '_propagate_priority'})

    def __init__(self, repo, inline=(), stubs=None, stub=None, max_depth=8):
        """Every call that resolves to a repo function is evaluated by inlining its source, except the names in
        `stubs` (default: the structural helpers _maybe_promote / _propagate_*): those are recorded as an
        effect ('call', name, recv, args, kwargs) and return stub(name, recv, args, kwargs) (default: the receiver).
        A call that can be neither inlined nor is stubbed raises Unsupported (no verdict) - never a silent skip."""
        self.repo = repo
        self.stubs = set(self.DEFAULT_STUBS if stubs is None else stubs)
        self.stub = stub
        self.max_depth = max_depth
        self.effects = []
        self.depth = 0
        self.class_objs = {}     # (class name, attribute) -> Obj : class-level objects such as thread-local slots
        self.externals = {}      # dotted name -> python object (stdlib classes used in isinstance tests)
        self.generators = False  # True: a call of a generator function evaluates to the list of the values it yields
        self._yields = []
        self._eager_node = None
        self._gen_once = False
        self._cm_once = False
        self.values = {}         # dotted name -> plain value (constants of external modules)
        self.constructors = {}   # class name -> callable standing in for the construction of a node of that class
        self.free = {}           # free name -> plain value (e.g. a model of __builtins__)
        self.extcalls = {}       # dotted name -> python callable standing in for an external function (e.g. inspect.signature)

    # -- public --------------------------------------------------------------------------
    def call(self, fi, *args, **kwargs):
        """evaluate FuncInfo fi with positional args; returns Result"""
        self.effects = []
        r = Result()
        try:
            r.ret = self._invoke(fi, list(args), dict(kwargs))
        except Raised as e:
            r.raised = e.exc
            r.raised_args = e.args_
        r.effects = list(self.effects)
        return r

    def getter(self, obj, name):
        self.effects = []
        return self._attr(Ayns(obj), name)

    # -- evaluation ----------------------------------------------------------------------
    def _invoke(self, fi, args, kwargs, base_env=None):
        TOUCHED.add(fi.qualname)
        self.depth += 1
        if self.depth > self.max_depth:
            raise Unsupported('inlining depth exceeded at %s' % fi.qualname)
        try:
            a = fi.node.args
            names = [x.arg for x in a.posonlyargs + a.args]
            env = _Scope(base_env) if base_env is not None else {}
            defaults = a.defaults
            for i, n in enumerate(names):
                if i < len(args):
                    env[n] = args[i]
                elif n in kwargs:
                    env[n] = kwargs.pop(n)
                else:
                    di = i - (len(names) - len(defaults))
                    if di < 0:
                        raise Unsupported('missing argument %s for %s' % (n, fi.qualname))
                    env[n] = self._ev(defaults[di], {}, fi)
            for k, d in zip(a.kwonlyargs, a.kw_defaults):
                if k.arg in kwargs:
                    env[k.arg] = kwargs.pop(k.arg)
                elif d is not None:
                    env[k.arg] = self._ev(d, {}, fi)
            if a.vararg is not None:
                env[a.vararg.arg] = tuple(args[len(names):])
            elif len(args) > len(names):
                raise Unsupported('too many positional arguments for %s' % fi.qualname)
            if kwargs:
                if a.kwarg is None:
                    raise Unsupported('unexpected kwargs %s for %s' % (list(kwargs), fi.qualname))
                env[a.kwarg.arg] = kwargs
            elif a.kwarg is not None:
                env[a.kwarg.arg] = {}
            body = fi.node.body if isinstance(fi.node.body, list) else [ast.Return(value=fi.node.body)]
            once, self._gen_once = self._gen_once, False
            gen = (self.generators or once) and isinstance(fi.node.body, list) and _is_generator_fn(fi.node)
            cm_once, self._cm_once = self._cm_once, False
            if cm_once and fi.is_contextmanager and isinstance(fi.node.body, list) and _is_generator_fn(fi.node):
                # a @contextmanager function entered by a with statement: driven by that statement (set-up, body, tear-down)
                return CMGen(self._gen_top(fi.node.body, env, fi))
            if not gen and isinstance(fi.node.body, list) and _is_generator_fn(fi.node) and not fi.is_contextmanager and _lazy_ok(fi.node):
                # a generator function: its body runs lazily, interleaved with its consumer, as in Python
                return self._gen_top(fi.node.body, env, fi)
            if gen:
                self._yields.append([])
            try:
                self._run(body, env, fi)
            except _Return as r:
                if gen:
                    return self._yields[-1]
                return r.v
            finally:
                if gen:
                    out_ = self._yields.pop()
            return out_ if gen else None
        finally:
            self.depth -= 1

    def as_callable(self, v):
        """python callable for a closure value (used by the stand-ins for stdlib higher-order functions)"""
        if isinstance(v, tuple) and v and v[0] == 'closure':
            return lambda *a, **k: self._invoke(v[1], list(a), dict(k), base_env=v[2])
        if isinstance(v, Bound):
            return lambda *a, **k: self._invoke(v.fi, [v.recv] + list(a), dict(k))
        if callable(v) and getattr(v, '_fde_ok', False):
            return v
        if isinstance(v, Obj) and v.cls in self.repo.classes and self.repo.resolve(v.cls, '__call__') is not None:
            call_ = self.repo.resolve(v.cls, '__call__')
            return lambda *a, **k: self._invoke(call_, [v] + list(a), dict(k))
        if isinstance(v, tuple) and v and v[0] in ('unbound', 'ntclass', 'partial'):
            return lambda *a, **k: self._apply(v, list(a), dict(k), ast.Name(id='<callback>', ctx=ast.Load()))
        if isinstance(v, tuple) and len(v) == 2 and v[0] == 'class' and v[1] in ('list', 'tuple', 'set', 'frozenset', 'dict') and v[1] not in self.repo.classes:
            ctor_ = {'list': list, 'tuple': tuple, 'set': set, 'frozenset': frozenset, 'dict': dict}[v[1]]

            def build(*a, **k):
                if k or len(a) > 1 or (a and not (isinstance(a[0], (list, tuple, set, frozenset, dict)) or type(a[0]).__name__ in _ITER_TYPES)):
                    raise Unsupported('%s(...) of abstract values' % v[1])
                return ctor_(*a)       # map(list, rows) and the like: the builtin container constructors only rearrange the elements
            return build
        raise Unsupported('callable %r' % (v,))

    def _run(self, stmts, env, fi):
        for s in stmts:
            if isinstance(s, ast.Expr) and isinstance(s.value, ast.Constant):
                continue
            if isinstance(s, ast.Assign):
                v = self._ev(s.value, env, fi)
                for t in s.targets:
                    self._assign(t, v, env, fi)
            elif isinstance(s, ast.If):
                self._run(s.body if self._truth(self._ev(s.test, env, fi)) else s.orelse, env, fi)
            elif isinstance(s, ast.Return):
                raise _Return(self._ev(s.value, env, fi) if s.value is not None else None)
            elif isinstance(s, ast.Raise):
                name = 'Exception'
                if s.exc is None and getattr(self, '_caught', None):
                    c_ = self._caught[-1]
                    raise Raised(c_.exc, c_.args_, c_.attrs)       # bare raise inside a handler: the exception being handled
                if s.exc is not None:
                    e = s.exc.func if isinstance(s.exc, ast.Call) else s.exc
                    name = unparse(e).split('.')[-1]
                    if name[:1].isupper() and isinstance(s.exc, ast.Call):
                        try:
                            raise Raised(name, [self._ev(a, env, fi) for a in s.exc.args])
                        except Unsupported:
                            pass
                    if not name[:1].isupper():
                        # `raise self._make_error(...)` / `raise err`: the exception object is computed
                        v = self._ev(s.exc, env, fi)
                        if isinstance(v, tuple) and len(v) == 2 and v[0] == 'exc':
                            name = v[1]
                            if isinstance(v, ExcValue):
                                raise Raised(name, list(v.args_))
                        else:
                            raise Unsupported('raise of a computed value: %s' % unparse(s.exc))
                raise Raised(name)
            elif isinstance(s, ast.Expr) and isinstance(s.value, (ast.Yield, ast.YieldFrom)) and self._yields:
                v = self._ev(s.value.value, env, fi) if s.value.value is not None else None
                if isinstance(s.value, ast.YieldFrom):
                    if not isinstance(v, (list, tuple)):
                        raise Unsupported('yield from a non-concrete iterable')
                    self._yields[-1].extend(v)
                else:
                    self._yields[-1].append(v)
            elif isinstance(s, ast.Expr) and isinstance(s.value, (ast.Yield, ast.YieldFrom)):
                raise Yielded()
            elif isinstance(s, ast.Expr):
                self._ev(s.value, env, fi)
            elif isinstance(s, ast.Try):
                # handlers are modelled for exceptions the evaluation itself raises (raise statements, stubs raising Raised);
                # the finally block runs on every way out except when the evaluation stops at a yield
                try:
                    try:
                        self._run(s.body, env, fi)
                    except Raised as r:
                        h = self._handler_for(s.handlers, r.exc, fi)
                        if h is None:
                            raise
                        if h.name:
                            env[h.name] = ExcValue(str(r.exc), r.args_ or (), r.attrs) if r.attrs is not None else Opaque('caught ' + str(r.exc))
                        if not hasattr(self, '_caught'):
                            self._caught = []
                        self._caught.append(r)
                        try:
                            self._run(h.body, env, fi)
                        finally:
                            self._caught.pop()
                    else:
                        self._run(s.orelse, env, fi)
                except Yielded:
                    raise
                except BaseException:
                    self._run(s.finalbody, env, fi)
                    raise
                else:
                    self._run(s.finalbody, env, fi)
            elif isinstance(s, ast.With):
                entered = []
                for it in s.items:
                    self._cm_once = isinstance(it.context_expr, ast.Call)
                    try:
                        v = self._ev(it.context_expr, env, fi)
                    finally:
                        self._cm_once = False
                    self.effects.append(('with_enter', unparse(it.context_expr)))
                    if isinstance(v, (CMGen, SimpleCM)):
                        v = self._cm_enter(v, entered)
                    if it.optional_vars is not None:
                        self._assign(it.optional_vars, v, env, fi)
                try:
                    try:
                        self._run(s.body, env, fi)
                    except Raised as r_:
                        # the exception is thrown into the context managers (innermost first); one that swallows it ends the statement
                        pending = r_
                        flat = []
                        for cm in entered:
                            flat.extend(cm.stack if isinstance(cm, SimpleCM) and cm.kind == 'ExitStack' else [cm])
                        for cm in reversed(flat):
                            if pending is None or isinstance(cm, SimpleCM):
                                self._cm_exit(cm)
                                continue
                            try:
                                cm.gen.throw(pending)
                            except StopIteration:
                                pending = None
                            except Raised as r2:
                                pending = r2
                            else:
                                raise Unsupported('context manager yields twice')
                        entered = []
                        if pending is not None:
                            raise pending
                    except (_Return, _Break, _Continue):
                        for cm in reversed(entered):
                            self._cm_exit(cm)
                        entered = []
                        raise
                    else:
                        for cm in reversed(entered):
                            self._cm_exit(cm)
                        entered = []
                finally:
                    for it in s.items:
                        self.effects.append(('with_exit', unparse(it.context_expr)))
            elif isinstance(s, ast.Pass):
                pass
            elif isinstance(s, ast.Nonlocal) and isinstance(env, _Scope):
                env.nonlocals.update(s.names)
            elif isinstance(s, (ast.ImportFrom, ast.Import)):
                for a in s.names:
                    nm = a.asname or a.name.split('.')[0]
                    if isinstance(s, ast.ImportFrom) and s.module == 'itertools' and a.asname is None:
                        continue      # takewhile / dropwhile / ... have stand-ins (see _call)
                    if nm in self.repo.classes:
                        env[nm] = ('class', nm)
                    else:
                        env[nm] = Opaque('module ' + nm)
            elif isinstance(s, ast.For):
                it = self._marker_iter(self._ev(s.iter, env, fi), unparse(s.iter))
                if isinstance(it, (dict, set, str, bytes)):
                    it = list(it)
                if not isinstance(it, (list, tuple)) and type(it).__name__ not in _ITER_TYPES:
                    raise (Raised('TypeError') if it is None or isinstance(it, (int, float)) else Unsupported('for over non-concrete iterable: %s' % unparse(s.iter)))
                broke = False
                for x in _guarded_iter(it):
                    self._assign(s.target, x, env, fi)
                    try:
                        self._run(s.body, env, fi)
                    except _Continue:
                        continue
                    except _Break:
                        broke = True
                        break
                if not broke:
                    self._run(s.orelse, env, fi)
            elif isinstance(s, ast.While):
                broke = False
                n_iter = 0
                while self._truth(self._ev(s.test, env, fi)):
                    n_iter += 1
                    if n_iter > 200:
                        raise Unsupported('while loop does not terminate within 200 iterations on concrete values')
                    try:
                        self._run(s.body, env, fi)
                    except _Continue:
                        continue
                    except _Break:
                        broke = True
                        break
                if not broke:
                    self._run(s.orelse, env, fi)
            elif isinstance(s, ast.AugAssign):
                cur = self._ev(ast.BinOp(left=_load(s.target), op=s.op, right=s.value), env, fi)
                self._assign(s.target, cur, env, fi)
            elif isinstance(s, ast.Delete):
                for t in s.targets:
                    if isinstance(t, ast.Subscript):
                        d = self._ev(t.value, env, fi)
                        k = self._ev(t.slice, env, fi)
                        if not isinstance(d, dict):
                            raise Unsupported('del on non-dict')
                        del d[k]
                    else:
                        raise Unsupported('del ' + unparse(t))
            elif isinstance(s, ast.Assert):
                if not self._truth(self._ev(s.test, env, fi)):
                    raise Raised('AssertionError')
            elif isinstance(s, ast.Continue):
                raise _Continue()
            elif isinstance(s, ast.Break):
                raise _Break()
            elif isinstance(s, ast.FunctionDef):
                from .srcmodel import FuncInfo
                nested = fi.nested().get(s.name) if fi is not None else None
                if nested is None or nested.node is not s:
                    nested = FuncInfo(s, fi.module, fi.cls, fi.ayns, outer=fi)
                env[s.name] = ('closure', nested, env)
            else:
                raise Unsupported('statement %s in %s' % (type(s).__name__, fi.qualname))

    def _cm_enter(self, cm, entered):
        if isinstance(cm, SimpleCM):
            entered.append(cm)
            return cm if cm.kind == 'ExitStack' else cm.value
        try:
            v = next(cm.gen)
        except StopIteration:
            raise Raised('RuntimeError')
        entered.append(cm)
        return v

    def _cm_exit(self, cm):
        if isinstance(cm, SimpleCM):
            if cm.kind == 'closing':
                self._apply(self._attr(cm.value, 'close'), [], {}, None)
            elif cm.kind == 'ExitStack':
                inner, cm.stack = cm.stack, []
                for c_ in reversed(inner):
                    self._cm_exit(c_)
            elif cm.kind == 'callback':
                fn_, a_, k_ = cm.value
                self._apply(fn_, list(a_), dict(k_), None)
            return
        try:
            next(cm.gen)
        except StopIteration:
            return
        raise Unsupported('context manager yields twice')

    def _gen_top(self, stmts, env, fi):
        try:
            yield from self._run_gen(stmts, env, fi)
        except _Return:
            return

    def _run_gen(self, stmts, env, fi):
        """body of a generator function as a Python generator: yields where the source yields (compound statements recurse,
        simple statements are evaluated by _run)"""
        for s in stmts:
            if isinstance(s, ast.Expr) and isinstance(s.value, ast.Yield):
                yield (self._ev(s.value.value, env, fi) if s.value.value is not None else None)
            elif isinstance(s, ast.Expr) and isinstance(s.value, ast.YieldFrom):
                v = self._ev(s.value.value, env, fi)
                if isinstance(v, (dict, set)):
                    v = list(v)
                if not isinstance(v, (list, tuple)) and type(v).__name__ not in _ITER_TYPES:
                    raise Unsupported('yield from a non-concrete iterable')
                yield from v
            elif not any(isinstance(n, (ast.Yield, ast.YieldFrom)) for n in ast.walk(s)):
                self._run([s], env, fi)
            elif isinstance(s, ast.If):
                yield from self._run_gen(s.body if self._truth(self._ev(s.test, env, fi)) else s.orelse, env, fi)
            elif isinstance(s, ast.For):
                it = self._marker_iter(self._ev(s.iter, env, fi), unparse(s.iter))
                if isinstance(it, (dict, set, str, bytes)):
                    it = list(it)
                if not isinstance(it, (list, tuple)) and type(it).__name__ not in _ITER_TYPES:
                    raise (Raised('TypeError') if it is None or isinstance(it, (int, float)) else Unsupported('for over non-concrete iterable: %s' % unparse(s.iter)))
                broke = False
                for x in it:
                    self._assign(s.target, x, env, fi)
                    try:
                        yield from self._run_gen(s.body, env, fi)
                    except _Continue:
                        continue
                    except _Break:
                        broke = True
                        break
                if not broke:
                    yield from self._run_gen(s.orelse, env, fi)
            elif isinstance(s, ast.While):
                broke = False
                n_iter = 0
                while self._truth(self._ev(s.test, env, fi)):
                    n_iter += 1
                    if n_iter > 200:
                        raise Unsupported('while loop does not terminate within 200 iterations on concrete values')
                    try:
                        yield from self._run_gen(s.body, env, fi)
                    except _Continue:
                        continue
                    except _Break:
                        broke = True
                        break
                if not broke:
                    yield from self._run_gen(s.orelse, env, fi)
            elif isinstance(s, ast.Try):
                # (only reached for context-manager functions, which are driven explicitly: see the with statement)
                try:
                    try:
                        yield from self._run_gen(s.body, env, fi)
                    except Raised as r:
                        h = self._handler_for(s.handlers, r.exc, fi)
                        if h is None:
                            raise
                        if h.name:
                            env[h.name] = Opaque('caught ' + str(r.exc))
                        yield from self._run_gen(h.body, env, fi)
                    else:
                        yield from self._run_gen(s.orelse, env, fi)
                finally:
                    if any(isinstance(n, (ast.Yield, ast.YieldFrom)) for st in s.finalbody for n in ast.walk(st)):
                        raise Unsupported('yield inside a finally block in %s' % fi.qualname)
                    self._run(s.finalbody, env, fi)
            elif isinstance(s, ast.With):
                for it in s.items:
                    v = self._ev(it.context_expr, env, fi)
                    self.effects.append(('with_enter', unparse(it.context_expr)))
                    if it.optional_vars is not None:
                        self._assign(it.optional_vars, v, env, fi)
                try:
                    yield from self._run_gen(s.body, env, fi)
                finally:
                    for it in s.items:
                        self.effects.append(('with_exit', unparse(it.context_expr)))
            else:
                raise Unsupported('yield inside %s in %s' % (type(s).__name__, fi.qualname))

    def _marker_iter(self, it, what):
        """iteration over a marker tuple of the evaluator (a class, a closure, ...): an enum class yields its members in definition
        order; anything else is not an iterable the evaluator models"""
        if type(it).__name__ == 'deque':
            return list(it)
        if isinstance(it, Obj) and it.f.get('_fde_storage') and isinstance(it.f.get('_children'), dict):
            # a container node whose built-in storage the rule declares to be in step with its child map (C17): a list node iterates
            # over its elements in index order, a mapping node over its keys
            ch = it.f['_children']
            if 'list' in self.repo.mro(it.cls):
                return [ch[k] for k in sorted(ch)]
            return list(ch)
        if isinstance(it, tuple) and it and isinstance(it[0], str) and it[0] in ('class', 'ext', 'kind', 'closure', 'unbound', 'classayns', 'super', 'super_ayns', 'partial') and not hasattr(type(it), '_fields'):
            if it[0] == 'class' and len(it) == 2 and it[1] in self.repo.classes:
                ci_ = self.repo.classes[it[1]]
                if any(b.split('.')[-1] in ('Enum', 'IntEnum', 'StrEnum', 'Flag', 'IntFlag') for b in ci_.base_exprs):
                    out = []
                    for st in ci_.node.body:
                        if isinstance(st, ast.Assign) and len(st.targets) == 1 and isinstance(st.targets[0], ast.Name) and not st.targets[0].id.startswith('_'):
                            nm = st.targets[0].id
                            if (ci_.name, nm) not in self.class_objs:
                                ok_, v_ = fold_const(self.repo, st.value, ci_.name)
                                self.class_objs[(ci_.name, nm)] = EnumMember(ci_.name, nm, v_ if ok_ else Opaque('value of %s.%s' % (ci_.name, nm)))
                            out.append(self.class_objs[(ci_.name, nm)])
                    return out
            raise Unsupported('iteration over %r (%s)' % (it, what))
        return it

    def _handler_for(self, handlers, exc_name, fi):
        import builtins
        for h in handlers:
            if h.type is None:
                return h
            types_ = h.type.elts if isinstance(h.type, ast.Tuple) else [h.type]
            for t in types_:
                hn = unparse(t).split('.')[-1]
                if hn == exc_name or hn in ('Exception', 'BaseException'):
                    return h
                a, b = getattr(builtins, str(exc_name), None), getattr(builtins, hn, None)
                if isinstance(a, type) and isinstance(b, type) and issubclass(a, b):
                    return h
                if str(exc_name) in self.repo.classes and hn in self.repo.mro(str(exc_name)):
                    return h
        return None

    def _assign(self, t, v, env, fi):
        if isinstance(t, ast.Name):
            env[t.id] = v
        elif isinstance(t, ast.Attribute):
            o = self._ev(t.value, env, fi)
            if not isinstance(o, Obj):
                raise Unsupported('attribute store on %r' % (o,))
            o.f[t.attr] = v
            o.missing.discard(t.attr)
        elif isinstance(t, ast.Subscript):
            d = self._ev(t.value, env, fi)
            k = self._ev(t.slice, env, fi) if not isinstance(t.slice, ast.Slice) else None
            if isinstance(d, ObjDict) and isinstance(k, str):
                d.obj.f[k] = v          # obj.__dict__[name] = value
                d.obj.missing.discard(k)
                self.effects.append(('setattr', d.obj, k, v))
                return
            if isinstance(d, list) and isinstance(t.slice, ast.Slice):
                lo = self._ev(t.slice.lower, env, fi) if t.slice.lower is not None else None
                hi = self._ev(t.slice.upper, env, fi) if t.slice.upper is not None else None
                if t.slice.step is not None or any(x is not None and not isinstance(x, int) for x in (lo, hi)):
                    raise Unsupported('slice store bounds: ' + unparse(t))
                if isinstance(v, (dict, set)) or type(v).__name__ in _ITER_TYPES:
                    v = list(v)
                if not isinstance(v, (list, tuple)):
                    raise Raised('TypeError')
                d[lo:hi] = list(v)
                return
            if isinstance(d, list) and isinstance(k, int):
                try:
                    d[k] = v
                except IndexError:
                    raise Raised('IndexError')
                return
            if isinstance(d, Obj) and not isinstance(t.slice, ast.Slice) and d.cls in self.repo.classes and self.repo.resolve(d.cls, '__setitem__') is not None:
                self._apply(Bound(d, self.repo.resolve(d.cls, '__setitem__'), '__setitem__', False), [k, v], {}, t)     # node[key] = value
                return
            if not isinstance(d, dict):
                raise Unsupported('subscript store on %r' % (d,))
            d[k] = v
        elif isinstance(t, (ast.Tuple, ast.List)) and type(v).__name__ == 'deque':
            self._assign(t, list(v), env, fi)
        elif isinstance(t, (ast.Tuple, ast.List)) and sum(isinstance(x, ast.Starred) for x in t.elts) == 1 \
                and (isinstance(v, list) or (isinstance(v, tuple) and not (v and isinstance(v[0], str) and v[0] in ('class', 'ext', 'kind', 'closure', 'unbound', 'partial'))) or type(v).__name__ in _ITER_TYPES):
            vs = list(_guarded_iter(v)) if not isinstance(v, (list, tuple)) else list(v)
            k = [i for i, x in enumerate(t.elts) if isinstance(x, ast.Starred)][0]
            after = len(t.elts) - k - 1
            if len(vs) < len(t.elts) - 1:
                raise Raised('ValueError')       # not enough values to unpack
            for a, b in zip(t.elts[:k], vs[:k]):
                self._assign(a, b, env, fi)
            self._assign(t.elts[k].value, vs[k:len(vs) - after], env, fi)
            for a, b in zip(t.elts[k + 1:], vs[len(vs) - after:] if after else []):
                self._assign(a, b, env, fi)
        elif isinstance(t, (ast.Tuple, ast.List)):
            if isinstance(v, (tuple, list)) and len(v) != len(t.elts) and not any(isinstance(x, ast.Starred) for x in t.elts) \
                    and not (isinstance(v, tuple) and v and isinstance(v[0], str) and v[0] in ('class', 'ext', 'kind', 'closure', 'unbound', 'partial')):
                raise Raised('ValueError')       # too many / not enough values to unpack
            if not isinstance(v, (tuple, list)) or len(v) != len(t.elts):
                raise Unsupported('unpack')
            for a, b in zip(t.elts, v):
                self._assign(a, b, env, fi)
        else:
            raise Unsupported('assign target ' + unparse(t))

    def _truth(self, v):
        if isinstance(v, Opaque):
            raise Unsupported('truth of opaque value %r' % v)
        if isinstance(v, Obj) and isinstance(v.f.get('_children'), dict) and v.cls in self.repo.classes and ({'dict', 'list'} & set(self.repo.mro(v.cls))):
            return bool(v.f['_children'])      # a container node with a concrete child map: non-empty <=> true (dict / list truth)
        if isinstance(v, Obj) and v.cls in ('<module>', '<class>', '<function>'):
            return True       # modules, classes and functions are true
        if isinstance(v, Obj):
            raise Unsupported('truth of node object %r' % v)
        return bool(v)

    def _attr(self, base, attr, fi=None):
        if isinstance(base, _pathlib.PurePath) and not attr.startswith('_'):
            # pure paths are plain values: their attributes / methods only compute with the text of the path
            if attr == 'parents':
                return tuple(base.parents)
            v_ = getattr(base, attr, None)
            if v_ is None and not hasattr(base, attr):
                raise Raised('AttributeError')
            if callable(v_):
                def call(*a, **k):
                    if not all(isinstance(x, (str, _pathlib.PurePath)) for x in a) or k:
                        raise Unsupported('path method %s on abstract arguments' % attr)
                    return v_(*a)
                call._fde_ok = True
                return call
            return v_
        if isinstance(base, SimpleCM) and base.kind == 'ExitStack':
            if attr == 'enter_context':
                def enter_context(cm):
                    if not isinstance(cm, (CMGen, SimpleCM)):
                        raise Unsupported('ExitStack.enter_context of %r' % (cm,))
                    return self._cm_enter(cm, base.stack)
                return _opfn(enter_context)
            if attr == 'callback':
                def callback(fn, *a, **k):
                    base.stack.append(SimpleCM('callback', (fn, a, k)))
                    return fn
                return _opfn(callback)
            if attr == 'pop_all':
                def pop_all():
                    moved = SimpleCM('ExitStack', None)
                    moved.stack = list(base.stack)       # the registered exits move to a new stack: this one will not run them
                    del base.stack[:]
                    return moved
                return _opfn(pop_all)
            raise Unsupported('attribute %s of an ExitStack' % attr)
        if isinstance(base, NodeInt):
            if attr == 'ayns':
                return ('nodeint_ayns', base)
            raise Unsupported('attribute %s of an integer scalar node' % attr)
        if isinstance(base, tuple) and len(base) == 2 and base[0] == 'nodeint_ayns':
            if attr in ('native_value', 'value'):
                return int(base[1])
            raise Unsupported('attribute ayns.%s of an integer scalar node' % attr)
        if isinstance(base, EnumMember) and attr in ('name', 'value'):
            return getattr(base, attr)
        if isinstance(base, EnumMember) and base.cls in self.repo.classes:
            t_ = self.repo.resolve(base.cls, attr)
            if t_ is not None and t_.is_property:
                return self._invoke(t_, [base], {})       # a property defined by the Enum class, evaluated for this member
            raise Unsupported('attribute %s of enum member %r' % (attr, base))
        if isinstance(base, ExcValue) and base.attrs is not None:
            if attr in base.attrs:
                return base.attrs[attr]
            if attr == 'args':
                return tuple(base.args_)
            raise Unsupported('attribute %s of a caught %s' % (attr, base[1]))
        if isinstance(base, tuple) and hasattr(type(base), '_fields'):
            if attr in type(base)._fields:
                return getattr(base, attr)      # field of a record (namedtuple) built by the evaluated code
            if attr == '_asdict':
                return _opfn(lambda: dict(zip(type(base)._fields, tuple(base))))       # record -> {field: value}, in field order
            if attr == '_fields':
                return tuple(type(base)._fields)
            if attr == '_replace':
                return _opfn(lambda **kw: base._replace(**kw))
            raise Unsupported('attribute %s of a record' % attr)
        if isinstance(base, tuple) and base and base[0] in ('super', 'super_ayns'):
            _, o, after = base
            if attr == 'ayns' and base[0] == 'super':
                return ('super_ayns', o, after)
            t = self.repo.resolve(o.cls, attr, ayns=base[0] == 'super_ayns', after=after)
            if t is None:
                if attr in self.stubs:
                    return Bound(o, None, attr, base[0] == 'super_ayns')      # method of an external base class, stubbed by name
                if attr in ('__init__', '__setstate__', '__init_subclass__'):
                    return ('noop',)
                raise Unsupported('super().%s not found after %s' % (attr, after))
            return Bound(o, t, attr, base[0] == 'super_ayns')
        if isinstance(base, Ayns):
            o = base.obj
            t = self.repo.resolve(o.cls, attr, ayns=True)
            if t is None:
                raise Unsupported('no ayns member %s on %s' % (attr, o.cls))
            if t.is_property:
                if any(d == 'staticproperty' for d in t.decorators):
                    return self._invoke(t, [], {})
                return self._invoke(t, [o], {})
            return Bound(o, t, attr, True)
        if isinstance(base, Obj):
            if attr == 'ayns':
                return Ayns(base)
            if attr in base.missing:
                raise Raised('AttributeError')
            if attr in base.f:
                return base.f[attr]
            owner, e = self.repo.class_attr(base.cls, attr)
            if e is not None:
                ok, v = fold_const(self.repo, e, owner)
                if ok:
                    return v
                raise Unsupported('class attribute %s.%s is not a literal' % (owner, attr))
            t = self.repo.resolve(base.cls, attr)
            if t is not None and t.is_property and attr not in self.stubs and 'property' in t.decorators:
                return self._invoke(t, [base], {})       # a plain @property: reading the attribute runs the getter
            if t is not None:
                return Bound(base, t, attr, False)
            if attr == '__dict__':
                return ObjDict(base)
            mro = self.repo.mro(base.cls)
            if attr in ('values', 'items', 'keys', 'copy', 'index', 'count') and ('dict' in mro or 'list' in mro):
                return ('builtinmethod', base, attr)
            if attr in self.stubs:
                return Bound(base, None, attr, False)       # method of an external base class, stubbed by name
            raise Unsupported('field %s of %r (%s) not modelled' % (attr, base, base.cls))
        if isinstance(base, ObjDict) and attr in ('update', 'copy', 'get', 'pop', 'setdefault', 'items', 'keys', 'values'):
            return ('objdictmethod', base, attr)
        if isinstance(base, dict) and attr in ('get', 'items', 'keys', 'values', 'pop', 'update', 'setdefault', 'clear', 'copy', 'popitem'):
            return ('dictmethod', base, attr)
        if isinstance(base, (dict, list, tuple, set, str)) and not (isinstance(base, tuple) and base and isinstance(base[0], str) and base[0] in ('class', 'ext', 'kind', 'closure', 'unbound', 'partial')) \
                and attr in ('__contains__', '__getitem__', '__len__'):
            bm_ = getattr(base, attr)
            return _opfn(lambda *a: bm_(*a))        # bound special method of a concrete container, used as a function (filter(d.__contains__, xs))
        import re as _re
        if isinstance(base, (_re.Pattern, _re.Match)) and not attr.startswith('_'):
            return ('pymethod', base, attr)
        if isinstance(base, str) and (attr in _STR_METHODS or (not attr.startswith('_') and hasattr(str, attr))):
            return ('strmethod', base, attr)
        if isinstance(base, bytes) and not attr.startswith('_') and hasattr(bytes, attr):
            return ('strmethod', base, attr)
        if (isinstance(base, (list, set)) or type(base).__name__ == 'deque') and not attr.startswith('_') and hasattr(base, attr):
            return ('listmethod', base, attr)
        if (base is None or isinstance(base, (str, int, float, bytes, list, dict, set))) and not hasattr(base, attr):
            raise Raised('AttributeError')       # a plain Python value simply does not have it
        raise Unsupported('attribute %s of %r' % (attr, base))

    def _ev(self, e, env, fi):
        if isinstance(e, ast.Constant):
            return e.value
        if isinstance(e, ast.Name):
            if e.id in env:
                return env[e.id]
            if e.id in ('True', 'False', 'None'):
                return {'True': True, 'False': False, 'None': None}[e.id]
            if e.id in self.free:
                return self.free[e.id]
            if e.id in self.repo.classes:
                return ('class', e.id)
            if e.id in self.externals:
                return ('ext', self.externals[e.id])
            if fi is not None and e.id in fi.module.globals and e.id not in self.repo.classes:
                g = fi.module.globals[e.id]
                if isinstance(g, ast.Call) and unparse(g.func) == 're.compile' and g.args and all(isinstance(a, ast.Constant) for a in g.args) and not g.keywords:
                    import re as _re
                    key = ('global', fi.module.relpath, e.id)
                    if key not in self.class_objs:
                        self.class_objs[key] = _re.compile(*[a.value for a in g.args])
                    return self.class_objs[key]
                if isinstance(g, ast.Call) and unparse(g.func) in ('operator.methodcaller', 'methodcaller', 'operator.itemgetter', 'itemgetter', 'operator.attrgetter', 'attrgetter') \
                        and fi.module.constant_binding(e.id) is g:
                    return self._call(g, {}, fi)
                if isinstance(g, ast.Call) and unparse(g.func) in ('functools.partial', 'partial') and fi.module.constant_binding(e.id) is g and g.args \
                        and unparse(g.args[0]).startswith('operator.') and all(isinstance(a_, ast.Constant) for a_ in g.args[1:]) and not g.keywords:
                    return self._ev(g, {}, fi)      # NAME = functools.partial(operator.<fn>, <literals>): a pure function value
                if isinstance(g, ast.Lambda) and fi.module.constant_binding(e.id) is g:
                    from .srcmodel import FuncInfo
                    return ('closure', FuncInfo(g, fi.module), {})
                nt_fields = fi.module.namedtuple_fields(e.id)
                if nt_fields is not None:
                    key = ('global', fi.module.relpath, e.id)
                    if key not in self.class_objs:
                        import collections as _c
                        self.class_objs[key] = ('ntclass', _c.namedtuple(e.id.lstrip('_') or 'Record', nt_fields, rename=True))
                    return self.class_objs[key]
                if isinstance(g, (ast.Call, ast.GeneratorExp, ast.ListComp, ast.BinOp)) and fi.module.constant_binding(e.id) is g and e.id.startswith('_') \
                        and any(isinstance(x, ast.Call) and unparse(x.func) in ('dataclasses.fields', 'fields') for x in ast.walk(g)):
                    # a private module constant derived from the fields of a record class: evaluated once, in module scope
                    key = ('global', fi.module.relpath, e.id)
                    if key not in self.class_objs:
                        from .srcmodel import FuncInfo
                        self.class_objs[key] = self._ev(g, {}, fi)
                    return self.class_objs[key]
                if isinstance(g, ast.Call) and isinstance(g.func, ast.Name) and g.func.id in ('frozenset', 'tuple', 'set', 'list', 'dict', 'sorted') and not g.keywords and len(g.args) <= 1 \
                        and fi.module.constant_binding(e.id) is g and all(isinstance(x, (ast.Tuple, ast.List, ast.Set, ast.Dict, ast.Constant, ast.Load, ast.Store)) or x is g or x is g.func for a_ in g.args for x in ast.walk(a_)):
                    key = ('global', fi.module.relpath, e.id)
                    if key not in self.class_objs:
                        self.class_objs[key] = self._ev(g, {}, fi)       # NAME = frozenset((<literals>)) and the like: evaluated once
                    return self.class_objs[key]
                if isinstance(g, ast.Call) and isinstance(g.func, ast.Name) and g.func.id == 'object' and not g.args and not g.keywords and fi.module.constant_binding(e.id) is g:
                    key = ('global', fi.module.relpath, e.id)
                    if key not in self.class_objs:
                        self.class_objs[key] = Opaque('sentinel %s' % e.id)       # a module-level `NAME = object()`: one unique object, compared by identity
                    return self.class_objs[key]
                if isinstance(g, ast.Call) and unparse(g.func) in ('types.MappingProxyType', 'MappingProxyType') and len(g.args) == 1 and not g.keywords and fi.module.constant_binding(e.id) is g:
                    key = ('global', fi.module.relpath, e.id)
                    if key not in self.class_objs:
                        self.class_objs[key] = self._ev(g, {}, fi)      # a read-only view of a dict display: a lookup table
                    return self.class_objs[key]
                if isinstance(g, (ast.Dict, ast.List, ast.Tuple, ast.Constant, ast.Set)):
                    key = ('global', fi.module.relpath, e.id)
                    if key not in self.class_objs:
                        self.class_objs[key] = self._ev(g, {}, fi)
                    return self.class_objs[key]
                if fi.module.constant_binding(e.id) is g and isinstance(g, (ast.BinOp, ast.UnaryOp, ast.Call, ast.Subscript, ast.Compare, ast.BoolOp, ast.IfExp, ast.JoinedStr)) \
                        and all(isinstance(x, (ast.BinOp, ast.UnaryOp, ast.Compare, ast.BoolOp, ast.IfExp, ast.Subscript, ast.Slice, ast.Constant, ast.Tuple, ast.List, ast.Name, ast.operator, ast.unaryop,
                                               ast.cmpop, ast.boolop, ast.expr_context, ast.JoinedStr, ast.FormattedValue))
                                or (isinstance(x, ast.Call) and isinstance(x.func, ast.Name) and x.func.id in ('len', 'min', 'max', 'abs', 'sum', 'int', 'str', 'tuple', 'frozenset', 'sorted') and not x.keywords) for x in ast.walk(g)) \
                        and all(x.id != e.id and (x.id in ('len', 'min', 'max', 'abs', 'sum', 'int', 'str', 'tuple', 'frozenset', 'sorted', 'True', 'False', 'None') or fi.module.constant_binding(x.id) is not None)
                                for x in ast.walk(g) if isinstance(x, ast.Name)):
                    # NAME = <arithmetic over literals, pure builtins and other module constants> (_MIN_LEN = len(_PREFIX) + 2): evaluated once, in module scope
                    key = ('global', fi.module.relpath, e.id)
                    if key not in self.class_objs:
                        self.class_objs[key] = self._ev(g, {}, fi)
                    return self.class_objs[key]
            if e.id in ('list', 'dict', 'tuple', 'str', 'int', 'bytes', 'float', 'bool', 'set', 'bytearray', 'frozenset', 'object', 'complex', 'type'):
                return ('class', e.id)
            if fi is not None and e.id in fi.module.functions and e.id not in fi.module.rebound:
                return ('unbound', fi.module.functions[e.id])       # a module-level function used as a value
            if e.id in _PURE_BUILTINS and (fi is None or (e.id not in fi.module.globals and e.id not in fi.module.imports)):
                return _builtin_value(e.id)                          # enumerate / sorted / len ... handed over as a function
            import builtins as _b
            if isinstance(getattr(_b, e.id, None), type) and issubclass(getattr(_b, e.id), BaseException) and (fi is None or (e.id not in fi.module.globals and e.id not in fi.module.imports)):
                return getattr(_b, e.id)        # a builtin exception class used as a value (type(e) is OSError)
            raise Unsupported('free name %s in %s' % (e.id, fi.qualname if fi else '?'))
        if isinstance(e, ast.Attribute):
            if unparse(e) in self.values:
                return self.values[unparse(e)]      # a constant of an external module (token.OP ...)
            if unparse(e) in self.extcalls and getattr(self.extcalls[unparse(e)], '_fde_ok', False):
                return self.extcalls[unparse(e)]       # an external function used as a value (alias, table entry)
            if unparse(e) in self.externals:
                return ('ext', self.externals[unparse(e)])
            if isinstance(e.value, ast.Name) and e.value.id == 'operator' and e.value.id not in env and e.attr in _OPERATOR_FNS \
                    and (fi is None or fi.module.imports.get('operator') == 'operator' or 'operator' not in fi.module.imports):
                return _OPERATOR_FNS[e.attr]
            if unparse(e).startswith('collections.abc.') and not (isinstance(e.value, ast.Attribute) and isinstance(e.value.value, ast.Name) and e.value.value.id in env):
                import collections.abc as _cabc
                if hasattr(_cabc, e.attr):
                    return ('ext', getattr(_cabc, e.attr))       # (also what desugared match statements test sequences / mappings against)
            if isinstance(e.value, ast.Name) and e.value.id not in env and fi is not None and fi.module.imports.get(e.value.id) == 'collections.abc':
                import collections.abc as _cabc
                if hasattr(_cabc, e.attr):
                    return ('ext', getattr(_cabc, e.attr))       # import collections.abc as <alias>
            if isinstance(e.value, ast.Name) and (e.value.id, e.attr) in self.class_objs:
                return self.class_objs[(e.value.id, e.attr)]
            if isinstance(e.value, ast.Name) and e.value.id not in env and fi is not None and e.value.id in fi.module.imports and e.value.id not in self.repo.classes:
                # <imported module of the package>.<class or function>
                imp_ = fi.module.imports[e.value.id]
                short_ = imp_.split(':')[-1].split('.')[-1] if imp_ else None
                for m_ in self.repo.modules.values():
                    if m_.short == short_ and (imp_.startswith('.') or imp_.startswith('awesomeyaml')):
                        if e.attr in m_.classes and e.attr in self.repo.classes:
                            return ('class', e.attr)
                        if e.attr in m_.functions:
                            return ('unbound', m_.functions[e.attr])
            if isinstance(e.value, ast.Name) and e.value.id not in env and e.value.id in self.repo.classes:
                ci_ = self.repo.classes[e.value.id]
                if e.attr in ci_.attrs and any(b.split('.')[-1] in ('Enum', 'IntEnum', 'StrEnum', 'Flag', 'IntFlag') for b in ci_.base_exprs):
                    if (ci_.name, e.attr) not in self.class_objs:
                        ok_, v_ = fold_const(self.repo, ci_.attrs[e.attr], ci_.name)
                        self.class_objs[(ci_.name, e.attr)] = EnumMember(ci_.name, e.attr, v_ if ok_ else Opaque('value of %s.%s' % (ci_.name, e.attr)))
                    return self.class_objs[(ci_.name, e.attr)]
            ok, v = fold_const(self.repo, e)
            if ok:
                return v
            base = self._ev(e.value, env, fi)
            if isinstance(base, tuple) and base and base[0] == 'class' and e.attr == '_fields' and base[1] in self.repo.classes \
                    and self.repo.classes[base[1]].module.namedtuple_fields(base[1]) is not None:
                return tuple(self.repo.classes[base[1]].module.namedtuple_fields(base[1]))
            if isinstance(base, tuple) and base and base[0] == 'class' and e.attr in ('__name__', '__qualname__'):
                return base[1].split('.')[-1] if e.attr == '__name__' else base[1]
            if isinstance(base, tuple) and base and base[0] == 'class':
                if (base[1], e.attr) in self.class_objs:
                    return self.class_objs[(base[1], e.attr)]
                ci_ = self.repo.classes.get(base[1])
                if ci_ is not None and e.attr in ci_.attrs and any(b.split('.')[-1] in ('Enum', 'IntEnum', 'StrEnum', 'Flag', 'IntFlag') for b in ci_.base_exprs):
                    ok_, v_ = fold_const(self.repo, ci_.attrs[e.attr], base[1])
                    self.class_objs[(base[1], e.attr)] = EnumMember(base[1], e.attr, v_ if ok_ else Opaque('value of %s.%s' % (base[1], e.attr)))
                    return self.class_objs[(base[1], e.attr)]
                if e.attr == 'ayns':
                    return ('classayns', base[1])
                if base[1] in ('str', 'bytes', 'list', 'dict', 'tuple', 'set', 'int') and base[1] not in self.repo.classes and (not e.attr.startswith('_') or e.attr in ('__setitem__', '__delitem__', '__getitem__', '__contains__', '__len__', '__iter__')) and hasattr(getattr(_builtins_mod, base[1]), e.attr):
                    um_ = getattr(getattr(_builtins_mod, base[1]), e.attr)

                    def unbound_builtin(*a, **k):
                        if a and isinstance(a[0], Obj):
                            # list.append(node, x) / dict.__setitem__(node, k, v): the built-in storage of a node object is not modelled -
                            # the operation is recorded (and answered by the stub callback when the rule stubs that name)
                            self.effects.append(('call', '%s.%s' % (base[1], e.attr), a[0], tuple(a[1:]), tuple(sorted(k.items(), key=lambda kv: kv[0]))))
                            if e.attr in self.stubs and self.stub is not None:
                                return self.stub(e.attr, a[0], list(a[1:]), dict(k))
                            return None
                        if not a or not isinstance(a[0], getattr(_builtins_mod, base[1])) or isinstance(a[0], tuple) and a[0] and isinstance(a[0][0], str) and a[0][0] in ('class', 'ext', 'unbound', 'closure', 'partial') \
                                or not all(_concrete(x) for x in a) or not all(_concrete(x) for x in k.values()):
                            raise Unsupported('%s.%s applied to abstract values' % (base[1], e.attr))
                        try:
                            return um_(*a, **k)
                        except Exception as ex:  # noqa
                            raise Raised(type(ex).__name__)
                    unbound_builtin._fde_ok = True
                    return unbound_builtin          # str.strip, dict.get ... used as plain functions
                t = self.repo.resolve(base[1], e.attr)
                if t is not None and t.is_classmethod:
                    return ('partial', ('unbound', t), (('class', base[1]),), {})       # C.factory: the class is the first argument
                if t is not None:
                    return ('unbound', t)
                if base[1] + '.' + e.attr in self.repo.classes:
                    return ('class', base[1] + '.' + e.attr)        # a class nested in a class (EvalContext.PartialChild)
                raise Unsupported('class member %s.%s' % (base[1], e.attr))
            if isinstance(base, tuple) and base and base[0] == 'classayns':
                t = self.repo.resolve(base[1], e.attr, ayns=True)
                if t is None:
                    raise Unsupported('no ayns member %s.%s' % (base[1], e.attr))
                return ('unbound', t)
            return self._attr(base, e.attr, fi)
        if isinstance(e, ast.BoolOp):
            v = None
            for x in e.values:
                v = self._ev(x, env, fi)
                t = self._truth(v)
                if isinstance(e.op, ast.And) and not t:
                    return v
                if isinstance(e.op, ast.Or) and t:
                    return v
            return v
        if isinstance(e, ast.UnaryOp):
            if isinstance(e.op, ast.Not):
                return not self._truth(self._ev(e.operand, env, fi))
            if isinstance(e.op, ast.USub):
                return -self._ev(e.operand, env, fi)
        if isinstance(e, ast.IfExp):
            return self._ev(e.body if self._truth(self._ev(e.test, env, fi)) else e.orelse, env, fi)
        if isinstance(e, ast.Compare):
            left = self._ev(e.left, env, fi)
            for op, c in zip(e.ops, e.comparators):
                right = self._ev(c, env, fi)
                if isinstance(left, Opaque) or isinstance(right, Opaque):
                    if isinstance(op, (ast.Is, ast.IsNot)) and (left is None or right is None or left is right):
                        pass
                    elif isinstance(op, (ast.Is, ast.IsNot)) and any(isinstance(x, Opaque) and x.name.startswith('sentinel ') for x in (left, right)) \
                            and not (isinstance(left, Opaque) and isinstance(right, Opaque) and not (left.name.startswith('sentinel ') and right.name.startswith('sentinel '))):
                        pass      # a module-level sentinel object is identical only to itself: concrete values and node objects are other objects
                    else:
                        raise Unsupported('comparison with opaque value: ' + unparse(e))
                r = self._cmp(op, left, right)
                if not r:
                    return False
                left = right
            return True
        if isinstance(e, ast.Call):
            return self._call(e, env, fi)
        if isinstance(e, ast.Dict):
            if any(k is None for k in e.keys):
                parts = []
                for k, v in zip(e.keys, e.values):
                    if k is None:
                        parts.append(('spread', self._ev(v, env, fi)))
                    else:
                        parts.append(('item', self._ev(k, env, fi), self._ev(v, env, fi)))
                if all(pt[0] == 'item' or isinstance(pt[1], dict) for pt in parts):
                    out_ = {}
                    for pt in parts:
                        if pt[0] == 'spread':
                            out_.update(pt[1])
                        else:
                            out_[pt[1]] = pt[2]
                    return out_
                return ('dictdisplay', tuple(parts))
            return {self._ev(k, env, fi): self._ev(v, env, fi) for k, v in zip(e.keys, e.values)}
        if isinstance(e, ast.Set) and not any(isinstance(x, ast.Starred) for x in e.elts):
            vals_ = [self._ev(x, env, fi) for x in e.elts]
            try:
                return set(vals_)
            except TypeError:
                raise Raised('TypeError')      # unhashable element
        if isinstance(e, (ast.Tuple, ast.List)):
            vals = []
            for x in e.elts:
                if isinstance(x, ast.Starred):
                    v = self._ev(x.value, env, fi)
                    if not isinstance(v, (tuple, list)):
                        raise Unsupported('starred element of non-concrete sequence')
                    vals.extend(v)
                else:
                    vals.append(self._ev(x, env, fi))
            return tuple(vals) if isinstance(e, ast.Tuple) else vals
        if isinstance(e, ast.JoinedStr):
            # evaluated when every interpolated value is a concrete scalar; otherwise the text is opaque (only used in messages)
            parts = []
            try:
                for v in e.values:
                    if isinstance(v, ast.Constant):
                        parts.append(str(v.value))
                    else:
                        x = self._ev(v.value, env, fi)
                        if not (x is None or isinstance(x, (str, int, float, bool))):
                            return Opaque('fstring')
                        if v.conversion == ord('r'):
                            x = repr(x)
                        elif v.conversion == ord('s'):
                            x = str(x)
                        spec = ''
                        if v.format_spec is not None:
                            sp = self._ev(v.format_spec, env, fi)
                            if not isinstance(sp, str):
                                return Opaque('fstring')
                            spec = sp
                        parts.append(format(x, spec))
            except (Unsupported, Raised):
                return Opaque('fstring')
            return ''.join(parts)
        if isinstance(e, ast.Subscript) and isinstance(e.slice, ast.Slice):
            b = self._ev(e.value, env, fi)
            if not isinstance(b, (tuple, list, str)) or (isinstance(b, tuple) and b and isinstance(b[0], str) and b[0] in ('class', 'ext', 'kind', 'closure')):
                raise Unsupported('slice of %r' % (b,))
            lo = self._ev(e.slice.lower, env, fi) if e.slice.lower is not None else None
            hi = self._ev(e.slice.upper, env, fi) if e.slice.upper is not None else None
            st = self._ev(e.slice.step, env, fi) if e.slice.step is not None else None
            if any(x is not None and not isinstance(x, int) for x in (lo, hi, st)):
                raise Unsupported('slice bounds of %s' % unparse(e))
            return b[lo:hi:st]
        if isinstance(e, ast.Subscript):
            b = self._ev(e.value, env, fi)
            k = self._ev(e.slice, env, fi)
            if isinstance(b, (dict, list, tuple)) or (isinstance(b, str) and isinstance(k, int)):
                try:
                    return b[k]
                except KeyError:
                    raise Raised('KeyError')
                except IndexError:
                    raise Raised('IndexError' if isinstance(b, (list, tuple, str)) else 'KeyError')
                except TypeError:
                    raise Unsupported('subscript %r[%r]' % (b, k))
            if isinstance(b, Obj):
                t = self.repo.resolve(b.cls, '__getitem__') if b.cls in self.repo.classes else None
                if t is not None or '__getitem__' in self.stubs:
                    return self._apply(Bound(b, t, '__getitem__', False), [k], {}, e)
            import re as _re
            if isinstance(b, _re.Match) and isinstance(k, (int, str)):
                try:
                    return b[k]         # match[n] is match.group(n)
                except IndexError:
                    raise Raised('IndexError')
            raise Unsupported('subscript of %r' % (b,))
        if isinstance(e, (ast.GeneratorExp, ast.ListComp)) and len(e.generators) == 1 and not e.generators[0].is_async:
            gen = e.generators[0]
            it = self._marker_iter(self._ev(gen.iter, env, fi), unparse(gen.iter))
            if isinstance(it, (dict, set, str, bytes)):
                it = list(it)
            if not isinstance(it, (list, tuple)) and type(it).__name__ not in _ITER_TYPES:
                raise Unsupported('comprehension over non-concrete iterable: ' + unparse(gen.iter))
            if isinstance(e, ast.GeneratorExp) and not isinstance(it, (list, tuple)) and type(it).__name__ in ('generator', 'pairwise', 'zip', 'enumerate'):
                # a generator expression over a lazy source (a tokenizer, another generator) stays lazy: what its consumer does not ask for is
                # never produced - code may rely on that (reading a position after the consumer stopped early)
                def run_(it=it, gen=gen):
                    for x in _guarded_iter(it):
                        env2 = _Scope(env) if isinstance(env, dict) else dict(env)
                        self._assign(gen.target, x, env2, fi)
                        if all(self._truth(self._ev(c, env2, fi)) for c in gen.ifs):
                            yield self._ev(e.elt, env2, fi)
                return run_()
            out = []
            for x in it:
                env2 = dict(env)
                self._assign(gen.target, x, env2, fi)
                if all(self._truth(self._ev(c, env2, fi)) for c in gen.ifs):
                    out.append(self._ev(e.elt, env2, fi))
            return out
        if isinstance(e, (ast.DictComp, ast.SetComp)) and len(e.generators) == 1 and not e.generators[0].is_async:
            gen = e.generators[0]
            it = self._marker_iter(self._ev(gen.iter, env, fi), unparse(gen.iter))
            if isinstance(it, (dict, set, str, bytes)):
                it = list(it)
            if not isinstance(it, (list, tuple)) and type(it).__name__ not in _ITER_TYPES:
                raise Unsupported('comprehension over non-concrete iterable: ' + unparse(gen.iter))
            out = {} if isinstance(e, ast.DictComp) else set()
            for x in it:
                env2 = dict(env)
                self._assign(gen.target, x, env2, fi)
                if all(self._truth(self._ev(c, env2, fi)) for c in gen.ifs):
                    if isinstance(e, ast.DictComp):
                        out[self._ev(e.key, env2, fi)] = self._ev(e.value, env2, fi)
                    else:
                        out.add(self._ev(e.elt, env2, fi))
            return out
        if isinstance(e, ast.BinOp) and isinstance(e.op, ast.Add):
            a, b = self._ev(e.left, env, fi), self._ev(e.right, env, fi)
            if isinstance(a, Opaque) or isinstance(b, Opaque):
                return Opaque('sum')
            try:
                return a + b
            except TypeError:
                if isinstance(a, Obj) or isinstance(b, Obj):
                    if (isinstance(a, Obj) and a.cls in self.repo.classes) or (isinstance(b, Obj) and b.cls in self.repo.classes):
                        raise Unsupported('+ on a node object: ' + unparse(e))
                raise Raised('TypeError')
        if isinstance(e, ast.Lambda):
            from .srcmodel import FuncInfo
            return ('closure', FuncInfo(e, fi.module, fi.cls, fi.ayns, outer=fi), env)
        if isinstance(e, ast.NamedExpr) and isinstance(e.target, ast.Name):
            v = self._ev(e.value, env, fi)
            env[e.target.id] = v
            return v
        if isinstance(e, ast.BinOp) and isinstance(e.op, ast.BitOr):
            a, b = self._ev(e.left, env, fi), self._ev(e.right, env, fi)
            if (isinstance(a, dict) and isinstance(b, dict)) or (isinstance(a, (set, frozenset)) and isinstance(b, (set, frozenset))) or (isinstance(a, int) and isinstance(b, int)):
                return a | b
            raise Unsupported('operator | on abstract values: %s' % unparse(e))
        if isinstance(e, ast.BinOp) and isinstance(e.op, (ast.FloorDiv, ast.Mod, ast.BitAnd, ast.LShift, ast.RShift)):
            a, b = self._ev(e.left, env, fi), self._ev(e.right, env, fi)
            if isinstance(e.op, ast.Mod) and isinstance(a, str) and _concrete(b):
                return a % b
            if isinstance(a, int) and isinstance(b, int):
                try:
                    return {ast.FloorDiv: lambda: a // b, ast.Mod: lambda: a % b, ast.BitAnd: lambda: a & b, ast.LShift: lambda: a << b, ast.RShift: lambda: a >> b}[type(e.op)]()
                except ZeroDivisionError:
                    raise Raised('ZeroDivisionError')
            raise Unsupported('arithmetic on abstract values: %s' % unparse(e))
        if isinstance(e, ast.BinOp) and isinstance(e.op, (ast.Sub, ast.Mult)):
            a, b = self._ev(e.left, env, fi), self._ev(e.right, env, fi)
            if isinstance(e.op, ast.Sub) and isinstance(a, (int, float)) and isinstance(b, (int, float)):
                return a - b
            if isinstance(e.op, ast.Mult) and ((isinstance(a, (list, tuple, str)) and isinstance(b, int)) or (isinstance(a, (int, float)) and isinstance(b, (int, float)))):
                return a * b
            raise Unsupported('arithmetic on abstract values: %s' % unparse(e))
        raise Unsupported('expression %s: %s' % (type(e).__name__, unparse(e)))

    def _cmp(self, op, a, b):
        def isclass(x):
            return isinstance(x, tuple) and len(x) == 2 and x[0] == 'class'
        if isinstance(op, (ast.Is, ast.IsNot)) and isclass(a) and isclass(b):
            return (a == b) if isinstance(op, ast.Is) else (a != b)

        def isext(x):
            return isinstance(x, tuple) and len(x) == 2 and x[0] == 'ext'
        if isinstance(op, (ast.Is, ast.IsNot)) and isext(a) and isext(b):
            same = a[1] is b[1] or (isinstance(a[1], tuple) and a[1] == b[1])      # stand-ins for external singletons are named tuples
            return same if isinstance(op, ast.Is) else not same
        if isinstance(op, ast.Is):
            return a is b
        if isinstance(op, ast.IsNot):
            return a is not b
        if isinstance(op, (ast.Eq, ast.NotEq)) and any(isinstance(x, Obj) and '_fde_payload' in x.f for x in (a, b)):
            # scalar nodes are instances of the built-in type they wrap: they compare by the value they hold (1 == True == 1.0)
            pa, pb = [x.f['_fde_payload'] if isinstance(x, Obj) and '_fde_payload' in x.f else x for x in (a, b)]
            if not any(isinstance(x, (Obj, Opaque)) for x in (pa, pb)):
                return (pa == pb) if isinstance(op, ast.Eq) else (pa != pb)
        if isinstance(op, ast.Eq):
            return a == b
        if isinstance(op, ast.NotEq):
            return a != b
        if isinstance(op, (ast.In, ast.NotIn)) and isclass(b) and isinstance(a, EnumMember):
            return (a.cls == b[1]) == isinstance(op, ast.In)
        if isinstance(op, (ast.In, ast.NotIn)):
            if isinstance(b, Obj) and '_fde_keys' in b.f:
                return (a in b.f['_fde_keys']) == isinstance(op, ast.In)      # the keys of the built-in storage, supplied by the rule
            if isinstance(b, ObjDict):
                if isinstance(a, str) and a in b.obj.f and a not in b.obj.missing:
                    return isinstance(op, ast.In)
                if isinstance(a, str) and a in b.obj.missing:
                    return not isinstance(op, ast.In)
                raise Unsupported('membership of %r in the __dict__ of %s: attribute not modelled' % (a, b.obj.name))
            if isinstance(b, (Obj, Opaque)):
                raise Unsupported('membership test in an abstract value')
            try:
                return (a in b) == isinstance(op, ast.In)
            except TypeError:
                if b is None or isinstance(b, (int, float, bool, list, tuple, dict, set, frozenset, str, bytes)):
                    raise Raised('TypeError')       # `x in None`, unhashable key ...
                raise Unsupported('membership test in %r' % (b,))
        if a is None or b is None:
            raise Raised('TypeError')
        if isinstance(op, ast.Gt):
            return a > b
        if isinstance(op, ast.Lt):
            return a < b
        if isinstance(op, ast.GtE):
            return a >= b
        if isinstance(op, ast.LtE):
            return a <= b
        raise Unsupported('comparison op')

    def _call(self, e, env, fi):
        eager = self._eager_node is e
        if isinstance(e.func, ast.Name) and e.func.id in ('list', 'tuple', 'set', 'frozenset', 'sorted') and e.func.id not in env \
                and len(e.args) == 1 and isinstance(e.args[0], ast.Call) and not e.keywords:
            # list(gen(...)): the generator is run to exhaustion before anything else happens - its body evaluated eagerly is exact
            self._eager_node = e.args[0]
        try:
            return self._call2(e, env, fi, eager)
        finally:
            self._gen_once = False

    def _plain_class(self, n):
        """a private helper class of the package (a record, a small state holder): not a node, not an exception, nothing external"""
        ci = self.repo.classes[n]
        if ci.metaclass is not None or not ci.simple_name.startswith('_') or ci.outer is not None:
            return False
        if self._is_exc_class(n) or self.repo.is_subclass(n, 'ConfigNode'):
            return False
        for b in self.repo.mro(n)[1:]:
            if b not in self.repo.classes and b not in ('object', 'NamedTuple', 'typing.NamedTuple') and not (ci.module.namedtuple_fields(n) is not None and '(' in b):
                return False
        return True

    def _record_fields(self, n):
        """[(field, default expr or None)] of a dataclass / typing.NamedTuple class body, or None"""
        ci = self.repo.classes[n]
        decos = [unparse(d).split('(')[0] for d in ci.node.decorator_list]
        is_dc = any(d in ('dataclass', 'dataclasses.dataclass') for d in decos)
        is_nt = any(b in ('NamedTuple', 'typing.NamedTuple') for b in ci.base_exprs)
        if not (is_dc or is_nt):
            return None, None
        out = []
        for st in ci.node.body:
            if isinstance(st, ast.AnnAssign) and isinstance(st.target, ast.Name) and 'ClassVar' not in unparse(st.annotation):
                out.append((st.target.id, st.value))
        return ('dataclass' if is_dc else 'namedtuple'), out

    def _construct_plain(self, n, args, kwargs, env, fi):
        kind, fields = self._record_fields(n)
        ci = self.repo.classes[n]
        if kind is None and ci.module.namedtuple_fields(n) is not None:
            kind, fields = 'namedtuple', [(f_, None) for f_ in ci.module.namedtuple_fields(n)]        # class X(namedtuple('X', ...))
        mfi = None
        for g in ci.methods.values():
            mfi = g
            break
        if kind is not None:
            vals = {}
            if len(args) > len(fields):
                raise Raised('TypeError')
            for (name, _), a in zip(fields, args):
                vals[name] = a
            for k, v in kwargs.items():
                if k in vals or k not in [f for f, _ in fields]:
                    raise Raised('TypeError')
                vals[k] = v
            for name, d in fields:
                if name in vals:
                    continue
                if d is None:
                    raise Raised('TypeError')
                if isinstance(d, ast.Call) and unparse(d.func) in ('field', 'dataclasses.field'):
                    kw = {k.arg: k.value for k in d.keywords}
                    if 'default_factory' in kw:
                        vals[name] = self._apply(self._ev(kw['default_factory'], {}, fi), [], {}, d) if not (isinstance(kw['default_factory'], ast.Name) and kw['default_factory'].id in ('list', 'dict', 'set')) \
                            else {'list': list, 'dict': dict, 'set': set}[kw['default_factory'].id]()
                    elif 'default' in kw:
                        vals[name] = self._ev(kw['default'], {}, fi)
                    else:
                        raise Raised('TypeError')
                else:
                    vals[name] = self._ev(d, {}, fi)
            if kind == 'namedtuple' and all(m.is_static or m.is_classmethod for m in ci.methods.values()):
                import collections as _c
                key = ('ntclass', n)
                if key not in self.class_objs:
                    self.class_objs[key] = _c.namedtuple(n.lstrip('_') or 'Record', [f for f, _ in fields], rename=True)
                return self.class_objs[key](*[vals[f] for f, _ in fields])
            self._n_plain = getattr(self, '_n_plain', 0) + 1
            o = Obj('%s#%d' % (n, self._n_plain), n, **vals)
            post = self.repo.resolve(n, '__post_init__')
            if post is not None:
                self._invoke(post, [o], {})
            return o
        self._n_plain = getattr(self, '_n_plain', 0) + 1
        o = Obj('%s#%d' % (n, self._n_plain), n)
        init = self.repo.resolve(n, '__init__')
        if init is not None:
            self._invoke(init, [o] + list(args), dict(kwargs))
        elif args or kwargs:
            raise Raised('TypeError')
        return o

    def _is_exc_class(self, n):
        return any(b.endswith('Error') or b in ('Exception',) for b in self.repo.mro(n)[1:] + [n]) and not self.repo.is_subclass(n, 'ConfigNode')

    def _lazy_genexp(self, g, env, fi):
        """a generator expression as a Python generator: elements are evaluated when the consumer asks for them"""
        gen = g.generators[0]
        it = self._marker_iter(self._ev(gen.iter, env, fi), unparse(gen.iter))
        if isinstance(it, (dict, set)):
            it = list(it)
        if not isinstance(it, (list, tuple)) and type(it).__name__ not in _ITER_TYPES:
            raise Unsupported('comprehension over non-concrete iterable: ' + unparse(gen.iter))

        def run():
            for x in it:
                env2 = dict(env)
                self._assign(gen.target, x, env2, fi)
                if all(self._truth(self._ev(c, env2, fi)) for c in gen.ifs):
                    yield self._ev(g.elt, env2, fi)
        return run()

    def _call2(self, e, env, fi, eager):
        f = e.func
        if isinstance(f, ast.Name) and fi is not None and f.id not in env and f.id not in fi.module.functions and f.id not in fi.module.classes:
            imp_ = fi.module.imports.get(f.id)
            if imp_ and ':' in imp_ and imp_.split(':')[1] != f.id and (imp_.startswith('.') or imp_.startswith('awesomeyaml')):
                real_ = imp_.split(':')[1]
                if real_ not in env and real_ not in fi.module.functions and real_ not in fi.module.classes and real_ not in fi.module.imports:
                    # `from .mod import name as alias`: a call of the alias is a call of the name (stand-ins and classes are known by name)
                    e = ast.copy_location(ast.Call(func=ast.copy_location(ast.Name(id=real_, ctx=ast.Load()), f), args=e.args, keywords=e.keywords), e)
                    f = e.func
        args = []
        if isinstance(f, ast.Name) and f.id in ('any', 'all', 'next') and f.id not in env and e.args and isinstance(e.args[0], ast.GeneratorExp) \
                and len(e.args[0].generators) == 1 and not e.keywords:
            # short-circuiting consumers: the elements after the deciding one are never evaluated
            g = self._lazy_genexp(e.args[0], env, fi)
            rest = [self._ev(a, env, fi) for a in e.args[1:]]
            if f.id == 'next':
                for x in g:
                    return x
                if rest:
                    return rest[0]
                raise Raised('StopIteration')
            for x in g:
                t = self._truth(x)
                if f.id == 'any' and t:
                    return True
                if f.id == 'all' and not t:
                    return False
            return f.id == 'all'
        for a in e.args:
            if isinstance(a, ast.Starred):
                v = self._ev(a.value, env, fi)
                if not isinstance(v, (tuple, list)):
                    raise Unsupported('starred argument of non-concrete sequence')
                args.extend(v)
                continue
            args.append(self._ev(a, env, fi))
        kwargs = {}
        for k in e.keywords:
            if k.arg is None:
                v = self._ev(k.value, env, fi)
                if not isinstance(v, dict):
                    raise Unsupported('** of non-dict')
                kwargs.update(v)
            else:
                kwargs[k.arg] = self._ev(k.value, env, fi)
        self._gen_once = eager
        if unparse(f) in ('functools.reduce', 'reduce') and len(args) in (2, 3) and not kwargs and not (isinstance(f, ast.Name) and f.id in env):
            it_ = list(args[1]) if isinstance(args[1], (dict, set)) or type(args[1]).__name__ in _ITER_TYPES else args[1]
            if not isinstance(it_, (list, tuple)):
                raise Unsupported('reduce over a non-concrete iterable')
            it_ = list(it_)
            if len(args) == 3:
                acc = args[2]
            elif it_:
                acc = it_.pop(0)
            else:
                raise Raised('TypeError')
            for x in it_:
                acc = self._apply(args[0], [acc, x], {}, e)
            return acc
        if unparse(f) in ('contextlib.closing', 'contextlib.nullcontext', 'contextlib.ExitStack', 'closing', 'nullcontext', 'ExitStack') and not (isinstance(f, ast.Name) and f.id in env) \
                and not kwargs and (fi is None or isinstance(f, ast.Attribute) or str(fi.module.imports.get(f.id, '')).startswith('contextlib')):
            kind_ = unparse(f).split('.')[-1]
            if kind_ == 'ExitStack' and not args:
                return SimpleCM('ExitStack')
            if kind_ == 'closing' and len(args) == 1:
                return SimpleCM('closing', args[0])
            if kind_ == 'nullcontext' and len(args) <= 1:
                return SimpleCM('nullcontext', args[0] if args else None)
            raise Unsupported('call of %s' % unparse(f))
        if unparse(f) in ('dataclasses.fields', 'fields') and not (isinstance(f, ast.Name) and f.id in env) and len(args) == 1 and not kwargs \
                and isinstance(args[0], tuple) and len(args[0]) == 2 and args[0][0] in ('ntclass', 'class'):
            import collections as _coll
            F_ = _coll.namedtuple('Field', ['name'])
            if args[0][0] == 'ntclass':
                names_ = args[0][1]._fields
            else:
                ci_ = self.repo.classes.get(args[0][1])
                if ci_ is None or not any(unparse(d).split('(')[0] in ('dataclass', 'dataclasses.dataclass') for d in ci_.node.decorator_list):
                    raise Unsupported('dataclasses.fields of %r' % (args[0],))
                names_ = [st.target.id for st in ci_.node.body if isinstance(st, ast.AnnAssign) and isinstance(st.target, ast.Name) and 'ClassVar' not in unparse(st.annotation)]
            return tuple(F_(n_) for n_ in names_)       # the fields of a record class, in declaration order
        if unparse(f) in ('itertools.starmap', 'starmap') and not (isinstance(f, ast.Name) and f.id in env) and len(args) == 2 and not kwargs \
                and (isinstance(args[1], (list, tuple)) or type(args[1]).__name__ in _ITER_TYPES) and (fi is None or isinstance(f, ast.Attribute) or str(fi.module.imports.get(f.id, '')).startswith('itertools')):
            fn_ = args[0]
            lazy_ = not isinstance(args[1], (list, tuple))

            def star_(xs=args[1]):
                for x_ in (_guarded_iter(xs) if lazy_ else xs):
                    if not isinstance(x_, (list, tuple)):
                        raise Unsupported('starmap over non-sequence elements')
                    yield self._apply(fn_, list(x_), {}, e)
            return star_() if lazy_ else list(star_())
        if unparse(f) in ('itertools.pairwise', 'pairwise') and not (isinstance(f, ast.Name) and f.id in env) and len(args) == 1 and not kwargs \
                and (isinstance(args[0], (list, tuple)) or type(args[0]).__name__ in _ITER_TYPES):
            import itertools as _it
            return _it.pairwise(_guarded_iter(args[0]))       # lazy, like the real one
        if unparse(f) in ('types.MappingProxyType', 'MappingProxyType') and not (isinstance(f, ast.Name) and f.id in env) and len(args) == 1 and not kwargs and isinstance(args[0], dict):
            return args[0]       # a read-only view: reads behave like the dict itself (writes through the view do not exist)
        if unparse(f) in ('itertools.count', 'count') and not (isinstance(f, ast.Name) and f.id in env) and len(args) <= 2 and not kwargs and all(isinstance(a_, int) and not isinstance(a_, bool) for a_ in args) \
                and (fi is None or isinstance(f, ast.Attribute) or str(fi.module.imports.get(f.id, '')).startswith('itertools')):
            def count_(start=0, step=1):
                # itertools.count(): unbounded; a loop over it that has not left after 10000 rounds is beyond the evaluator
                for i_ in range(10000):
                    yield start + i_ * step
                raise Unsupported('itertools.count() consumed beyond 10000 items')
            return count_(*args)
        if unparse(f) in ('itertools.repeat', 'repeat') and not (isinstance(f, ast.Name) and f.id in env) and len(args) == 2 and not kwargs and isinstance(args[1], int) \
                and not isinstance(args[1], bool) and (fi is None or isinstance(f, ast.Attribute) or str(fi.module.imports.get(f.id, '')).startswith('itertools')):
            return [args[0]] * max(args[1], 0)       # itertools.repeat(x, n): n times the same object
        if unparse(f) in ('collections.deque', 'deque') and not (isinstance(f, ast.Name) and f.id in env) and len(args) <= 2 \
                and (not args or isinstance(args[0], (list, tuple)) or type(args[0]).__name__ in _ITER_TYPES) and set(kwargs) <= {'maxlen'}:
            items_ = list(_guarded_iter(args[0])) if args else []
            ml_ = kwargs.get('maxlen', args[1] if len(args) > 1 else None)
            if ml_ is not None and not isinstance(ml_, int):
                raise Unsupported('deque with a non-concrete maxlen')
            import collections as _coll
            return _coll.deque(items_, maxlen=ml_)       # a real deque of the (possibly abstract) elements: it only rearranges them
        if unparse(f) in _PURE_ITER and not kwargs and not (isinstance(f, ast.Name) and f.id in env) \
                and all(isinstance(a, (list, tuple, dict, set, int)) or type(a).__name__ in _ITER_TYPES for a in args):
            return _PURE_ITER[unparse(f)](*args)
        if unparse(f) in ('operator.itemgetter', 'itemgetter') and len(args) == 1 and not kwargs and isinstance(args[0], (int, str)):
            k_ = args[0]
            g_ = lambda o: (o[k_] if isinstance(o, (list, tuple, dict, str)) else self._apply_getitem(o, k_, e))  # noqa: E731
            g_._fde_ok = True
            return g_
        if unparse(f) in ('functools.partial', 'partial') and args and not (isinstance(f, ast.Name) and f.id in env):
            return ('partial', args[0], tuple(args[1:]), dict(kwargs))
        if unparse(f) in ('itertools.count', 'count') and not kwargs and all(isinstance(a, int) for a in args) and not (isinstance(f, ast.Name) and f.id in env):
            import itertools
            return itertools.count(*args)
        if unparse(f) in ('operator.methodcaller', 'methodcaller') and args and isinstance(args[0], str) and not (isinstance(f, ast.Name) and f.id in env):
            m_, ma_, mk_ = args[0], list(args[1:]), dict(kwargs)

            def g_(o):
                call = ast.Call(func=ast.Attribute(value=ast.Name(id='$o', ctx=ast.Load()), attr=m_, ctx=ast.Load()),
                                args=[ast.Name(id='$a%d' % i, ctx=ast.Load()) for i in range(len(ma_))],
                                keywords=[ast.keyword(arg=k, value=ast.Name(id='$k_' + k, ctx=ast.Load())) for k in mk_])
                env_ = {'$o': o}
                env_.update({'$a%d' % i: v for i, v in enumerate(ma_)})
                env_.update({'$k_' + k: v for k, v in mk_.items()})
                return self._call(call, env_, fi)
            g_._fde_ok = True
            return g_
        if unparse(f) in ('operator.attrgetter', 'attrgetter') and len(args) == 1 and not kwargs and isinstance(args[0], str) and '.' not in args[0]:
            a_ = args[0]
            g_ = lambda o: self._attr(o, a_, fi)  # noqa: E731
            g_._fde_ok = True
            return g_
        if unparse(f) in ('operator.attrgetter', 'attrgetter') and len(args) > 1 and not kwargs and all(isinstance(a, str) and '.' not in a for a in args):
            names_ = tuple(args)
            g_ = lambda o: tuple(self._attr(o, a_, fi) for a_ in names_)  # noqa: E731      (several names: the tuple of the attributes)
            g_._fde_ok = True
            return g_
        if unparse(f) in ('itertools.takewhile', 'takewhile', 'itertools.dropwhile', 'dropwhile', 'filter', 'map', 'itertools.filterfalse', 'filterfalse') and len(args) == 2 \
                and (isinstance(args[1], (list, tuple, dict)) or type(args[1]).__name__ in _ITER_TYPES or (type(args[1]).__name__ == 'count' and unparse(f).endswith('takewhile'))) \
                and not (isinstance(f, ast.Name) and f.id in env):
            import itertools
            fn = {'takewhile': itertools.takewhile, 'dropwhile': itertools.dropwhile, 'filter': filter, 'map': map, 'filterfalse': itertools.filterfalse}[unparse(f).split('.')[-1]]
            pred = self.as_callable(args[0])
            lazy_in = not isinstance(args[1], (list, tuple, dict))
            if fn is map:
                # over a lazy iterator the result is lazy too: how far the input has been consumed can be observed (reader.pos ...)
                return (pred(x) for x in _guarded_iter(args[1])) if lazy_in else [pred(x) for x in args[1]]
            res_ = fn(lambda x: self._truth(pred(x)), _guarded_iter(args[1]) if lazy_in else args[1])
            return (x for x in res_) if lazy_in else list(res_)
        if isinstance(f, ast.Name):
            n = f.id
            if n == 'hasattr':
                o, a = args
                if isinstance(o, Obj):
                    if a in o.missing:
                        return False
                    return a in o.f or self.repo.class_attr(o.cls, a)[1] is not None or self.repo.resolve(o.cls, a) is not None
                raise Unsupported('hasattr on %r' % (o,))
            if n == 'super' and not args and fi is not None and fi.cls is not None:
                params = fi.params()
                if params and params[0] in env and isinstance(env[params[0]], Obj):
                    return ('super', env[params[0]], fi.cls.name)
                raise Unsupported('super() outside a method on a node object')
            if n == 'super' and len(args) == 2 and isinstance(args[0], tuple) and len(args[0]) == 2 and args[0][0] == 'class' and isinstance(args[1], Obj) and args[0][1] in self.repo.classes:
                return ('super', args[1], args[0][1])       # super(Cls, self): the explicit spelling
            if n == 'setattr' and len(args) == 3:
                o, a, v = args
                if isinstance(o, Obj) and isinstance(a, str):
                    o.f[a] = v
                    o.missing.discard(a)
                    self.effects.append(('setattr', o, a, v))
                    return None
                raise Unsupported('setattr on %r' % (o,))
            if n == 'getattr':
                o, a = args[0], args[1]
                if isinstance(o, Obj) and isinstance(a, str):
                    try:
                        return self._attr(o, a, fi)
                    except (Raised, Unsupported):
                        if len(args) > 2:
                            return args[2]
                        raise
                if isinstance(o, tuple) and hasattr(type(o), '_fields') and isinstance(a, str):
                    if a in type(o)._fields:
                        return getattr(o, a)
                    if len(args) > 2:
                        return args[2]
                    raise Raised('AttributeError')
                if (o is None or isinstance(o, (str, int, float, bytes, list, dict, set))) and isinstance(a, str):
                    if hasattr(o, a) and not callable(getattr(o, a)):
                        return getattr(o, a)
                    if not hasattr(o, a):
                        if len(args) > 2:
                            return args[2]
                        raise Raised('AttributeError')
                if isinstance(o, Ayns) and isinstance(a, str):
                    t_ = self.repo.resolve(o.obj.cls, a, ayns=True)
                    if t_ is None:
                        if len(args) > 2:
                            return args[2]
                        raise Raised('AttributeError')
                    return self._attr(o, a, fi)        # a member of the node's namespace: the bound method / the value of the property
                raise Unsupported('getattr on %r' % (o,))
            if n == 'hash' and len(args) == 1 and n not in env:
                v_ = args[0]
                if isinstance(v_, Obj):
                    if '_fde_payload' in v_.f:
                        return hash(v_.f['_fde_payload'])
                    mro_ = self.repo.mro(v_.cls) if v_.cls in self.repo.classes else []
                    if 'dict' in mro_ or 'list' in mro_ or (v_.cls in self.repo.classes and any(self.repo.resolve(c_, '__eq__') is not None and self.repo.resolve(c_, '__hash__') is None for c_ in [v_.cls])):
                        raise Raised('TypeError')       # unhashable: a list / dict node, or a class that defines __eq__ without __hash__
                    return id(v_)
                if v_ is None or isinstance(v_, (str, int, float, bytes, tuple, frozenset)):
                    try:
                        return hash(v_)
                    except TypeError:
                        raise Raised('TypeError')
                if isinstance(v_, (list, dict, set)):
                    raise Raised('TypeError')
                raise Unsupported('hash(%r)' % (v_,))
            if n == 'callable' and len(args) == 1 and n not in env:
                v_ = args[0]
                if isinstance(v_, Bound) or (isinstance(v_, tuple) and v_ and isinstance(v_[0], str) and v_[0] in ('class', 'closure', 'unbound', 'partial', 'dictmethod', 'listmethod', 'strmethod', 'builtinmethod', 'objdictmethod')):
                    return True
                if v_ is None or (isinstance(v_, (str, int, float, bytes, list, dict, set)) or (isinstance(v_, tuple) and not (v_ and isinstance(v_[0], str) and v_[0] in ('ext', 'kind')))):
                    return False
                raise Unsupported('callable(%r)' % (v_,))
            if n == 'isinstance':
                o, c = args
                cands = list(c) if isinstance(c, (tuple, list)) and c and isinstance(c[0], tuple) else [c]
                if isinstance(o, PathVal) and cands and all(isinstance(x, tuple) and len(x) == 2 and x[0] in ('class', 'ext') for x in cands):
                    mro_ = (self.repo.mro('NodePath') if 'NodePath' in self.repo.classes else ['NodePath']) + ['list', 'object']
                    return any((x[0] == 'class' and x[1] in mro_) or (x[0] == 'ext' and isinstance(x[1], type) and issubclass(list, x[1])) for x in cands)
                if isinstance(o, NodeInt) and cands and all(isinstance(x, tuple) and len(x) == 2 and x[0] in ('class', 'ext') for x in cands):
                    return any((x[0] == 'class' and (x[1] in ('int', 'object', 'ConfigNode', 'ConfigScalar') or self.repo.is_subclass('ConfigScalar', x[1]) if x[1] in self.repo.classes or x[1] in ('int', 'object') else False))
                               or (x[0] == 'ext' and isinstance(x[1], type) and issubclass(int, x[1])) for x in cands)
                if isinstance(o, _pathlib.PurePath) and cands and all(isinstance(x, tuple) and len(x) == 2 and x[0] == 'ext' and isinstance(x[1], type) for x in cands):
                    # a pure path stands for a path object of this platform
                    return any(issubclass(x[1], _pathlib.PurePath) and (isinstance(o, x[1]) or x[1] in (_pathlib.Path, _pathlib.PosixPath)) for x in cands)
                if isinstance(o, TypedOpaque) and all(isinstance(x, tuple) and x and x[0] in ('ext', 'class') for x in cands):
                    return any((x[0] == 'ext' and issubclass(o.pytype, x[1])) or
                               (x[0] == 'class' and x[1] in ('list', 'dict', 'tuple', 'str', 'int') and issubclass(o.pytype, {'list': list, 'dict': dict, 'tuple': tuple, 'str': str, 'int': int}[x[1]]))
                               for x in cands)
                if isinstance(o, Obj) and isinstance(c, tuple) and c[0] == 'class':
                    if c[1] in ('str', 'int', 'float', 'bool', 'bytes') and o.cls in self.repo.classes and \
                            any(getattr(self.repo.classes[k_], 'payload', None) == c[1] for k_ in self.repo.mro(o.cls) if k_ in self.repo.classes):
                        return True       # a scalar node class built as ConfigScalar(<that type>)
                    return self.repo.is_subclass(o.cls, c[1])
                if isinstance(o, Obj) and o.cls in self.repo.classes and cands and all(isinstance(x, tuple) and len(x) == 2 and x[0] == 'class' for x in cands):
                    mro_ = self.repo.mro(o.cls)
                    return any(x[1] in mro_ for x in cands)      # a tuple of classes (repo or built-in ones)
                if isinstance(o, Obj) and o.cls in self.repo.classes and cands and all(isinstance(x, tuple) and len(x) == 2 and ((x[0] == 'ext' and isinstance(x[1], type)) or x[0] == 'class') for x in cands) \
                        and any(x[0] == 'ext' for x in cands) and any(x[0] == 'class' for x in cands):
                    # node classes / built-ins mixed with stdlib types: (dict, type(None)), (ConfigNode, collections.abc.Mapping)
                    mro_ = self.repo.mro(o.cls)
                    bases = [b for b in (dict, list, tuple, str, bytes, int, float, set) if b.__name__ in mro_]
                    return any((x[0] == 'class' and x[1] in mro_) or (x[0] == 'ext' and any(issubclass(b, x[1]) for b in bases)) for x in cands)
                if isinstance(o, Obj) and cands and all(isinstance(x, tuple) and len(x) == 2 and x[0] == 'ext' and isinstance(x[1], type) for x in cands):
                    # a node object against a stdlib ABC: decided by the built-in base of its class (dict / list / tuple / str ...)
                    if o.cls not in self.repo.classes:
                        return any(x[1].__name__ == o.cls.split('.')[-1] for x in cands)      # a stand-in object of an external class, named by the rule
                    mro_ = self.repo.mro(o.cls) if o.cls in self.repo.classes else []
                    bases = [b for b in (dict, list, tuple, str, bytes, int, float, set) if b.__name__ in mro_]
                    return any(issubclass(b, x[1]) for b in bases for x in cands)
                if (o is None or isinstance(o, (int, str, float, bytes, list, dict, tuple, set))) and not (isinstance(o, tuple) and o and isinstance(o[0], str) and o[0] in ('class', 'ext', 'kind')) \
                        and cands and all(isinstance(x, tuple) and len(x) == 2 and x[0] == 'ext' and isinstance(x[1], type) for x in cands):
                    return isinstance(o, tuple(x[1] for x in cands))
                _B = {'int': int, 'str': str, 'bool': bool, 'float': float, 'list': list, 'dict': dict, 'tuple': tuple, 'bytes': bytes, 'set': set, 'bytearray': bytearray, 'frozenset': frozenset, 'object': object, 'complex': complex}
                if (o is None or isinstance(o, (int, str, float, bytes, list, dict, tuple, set))) and not (isinstance(o, tuple) and o and o[0] in ('class', 'ext', 'kind')) \
                        and all(isinstance(x, tuple) and len(x) == 2 and x[0] == 'class' for x in cands):
                    if all(x[1] in _B for x in cands):
                        return isinstance(o, tuple(_B[x[1]] for x in cands))
                    if all(x[1] in self.repo.classes for x in cands):
                        return False      # a plain Python value is not an instance of a node class
                if (o is None or isinstance(o, (int, str, float, bytes, list, dict, tuple, set))) and not (isinstance(o, tuple) and o and o[0] in ('class', 'ext', 'kind')) \
                        and cands and all(isinstance(x, tuple) and len(x) == 2 and ((x[0] == 'class' and x[1] in _B) or (x[0] == 'ext' and isinstance(x[1], type))) for x in cands):
                    return isinstance(o, tuple(_B[x[1]] if x[0] == 'class' else x[1] for x in cands))      # built-in and stdlib types mixed: (str, os.PathLike)
                raise Unsupported('isinstance(%r, %r)' % (o, c))
            if n == 'type' and len(args) == 1 and isinstance(args[0], Obj):
                return ('class', args[0].cls)
            if n == 'type' and len(args) == 1 and isinstance(args[0], PathVal):
                return ('class', 'NodePath')
            if n == 'type' and len(args) == 1 and (args[0] is None or type(args[0]) in (int, str, float, bool, bytes, list, dict, set)
                                                    or (type(args[0]) is tuple and not (args[0] and isinstance(args[0][0], str) and args[0][0] in ('class', 'ext', 'kind', 'closure', 'unbound', 'partial')))):
                return ('class', type(args[0]).__name__) if args[0] is not None else ('ext', type(None))       # exact type of a plain Python value
            if n == 'type' and len(args) == 1 and isinstance(args[0], ExcValue) and args[0].attrs is not None:
                import builtins as _b
                c_ = getattr(_b, args[0][1], None)
                return c_ if isinstance(c_, type) else ('class', args[0][1])
            if n == 'issubclass' and all(isinstance(a, tuple) and a and a[0] == 'class' for a in args):
                return self.repo.is_subclass(args[0][1], args[1][1])
            if n == 'enumerate' and len(args) == 1 and isinstance(args[0], Obj):
                return Opaque('enumerate(%s)' % args[0].name)
            if n in ('bool', 'len', 'any', 'all', 'list', 'tuple'):
                if n == 'bool':
                    if isinstance(args[0], Obj) and isinstance(args[0].f.get('_children'), dict) and args[0].cls in self.repo.classes and ({'dict', 'list'} & set(self.repo.mro(args[0].cls))):
                        return bool(args[0].f['_children'])
                    if isinstance(args[0], Obj):
                        return Opaque('bool(%s)' % args[0].name)
                    return self._truth(args[0])
                if n in ('any', 'all') and (isinstance(args[0], (list, tuple)) or type(args[0]).__name__ in _ITER_TYPES):
                    for a in args[0]:
                        t = self._truth(a)
                        if n == 'any' and t:
                            return True
                        if n == 'all' and not t:
                            return False
                    return n == 'all'
                if n in ('list', 'tuple') and type(args[0]).__name__ in _ITER_TYPES:
                    return list(args[0]) if n == 'list' else tuple(args[0])
                if n in ('list', 'tuple') and len(args) == 1 and isinstance(args[0], Obj):
                    return Opaque('%s(%s)' % (n, args[0].name))      # the built-in content of a node object, as a plain list / tuple
                if n in ('list', 'tuple') and isinstance(args[0], (list, tuple, dict, set, frozenset, str, bytes)) \
                        and not (isinstance(args[0], tuple) and args[0] and isinstance(args[0][0], str) and args[0][0] in ('class', 'ext', 'kind', 'closure', 'unbound', 'partial')):
                    return list(args[0]) if n == 'list' else tuple(args[0])
                if n == 'len' and (isinstance(args[0], (dict, list, tuple, str, bytes, set, frozenset)) or type(args[0]).__name__ == 'deque'):
                    return len(args[0])
                if n == 'len' and isinstance(args[0], Obj) and isinstance(args[0].f.get('_children'), dict) and args[0].cls in self.repo.classes and ({'dict', 'list'} & set(self.repo.mro(args[0].cls))):
                    return len(args[0].f['_children'])      # a container node with a concrete child map (two stores in step)
                raise Unsupported('builtin ' + n)
            import builtins as _b
            if n not in env and isinstance(getattr(_b, n, None), type) and issubclass(getattr(_b, n), BaseException):
                return ExcValue(n, args)
            if n in self.repo.classes and n not in env and self._is_exc_class(n):
                return ExcValue(n, args)
            if n == 'id' and len(args) == 1 and n not in env:
                return id(args[0])
            if n == 'dict' and len(args) == 1 and not kwargs and n not in env and isinstance(args[0], ObjDict):
                o_ = args[0].obj
                return {k: v for k, v in o_.f.items() if k not in o_.missing and not k.startswith('_fde_')}      # dict(obj.__dict__): a plain copy of the state
            if n == 'dict' and len(args) == 1 and not kwargs and n not in env and isinstance(args[0], (Obj, Opaque)) and not isinstance(args[0], TypedOpaque):
                return Opaque('dict(%s)' % args[0].name)
            if n in ('str', 'repr') and len(args) == 1 and n not in env and isinstance(args[0], (Obj, Opaque)):
                return Opaque('%s(%s)' % (n, getattr(args[0], 'name', '?')))       # text of an abstract object: some string
            if n in _PURE_BUILTINS and n not in env and all(_concrete(a) for a in args) and all(_concrete(v) for v in kwargs.values()):
                try:
                    r = _PURE_BUILTINS[n](*args, **kwargs)
                except (Raised, Unsupported, _Return, _Break, _Continue, Yielded):
                    raise       # raised by the evaluated code itself while the builtin consumed a lazy generator
                except Exception as ex:  # noqa
                    raise Raised(type(ex).__name__)
                if n in ('enumerate', 'zip', 'map', 'filter') and any(type(a_).__name__ in ('generator', 'count') for a_ in args):
                    return (x_ for x_ in _guarded_iter(r))      # lazy over a lazy input: how far the input is consumed stays observable
                return list(r) if n in ('range', 'enumerate', 'zip', 'reversed', 'map', 'filter') else r
            if n in env and callable(env[n]) and getattr(env[n], '_fde_ok', False):
                return self._standin(env[n], args, kwargs)
            if n in env and isinstance(env[n], tuple) and len(env[n]) == 2 and env[n][0] == 'ext':
                for k_, v_ in self.externals.items():
                    if v_ is env[n][1] and k_ in self.extcalls:
                        return self._standin(self.extcalls[k_], args, kwargs)       # an alias of an external class the rule supplies a stand-in constructor for
            if n not in env and n in self.free and callable(self.free[n]) and getattr(self.free[n], '_fde_ok', False):
                return self._standin(self.free[n], args, kwargs)
            if n in env and isinstance(env[n], tuple) and env[n] and env[n][0] == 'closure' and n in self.stubs and self.stub is not None:
                self.effects.append(('call', n, None, tuple(args), tuple(sorted(kwargs.items(), key=lambda kv: kv[0]))))
                return self.stub(n, None, args, kwargs)       # a local function the rule replaces by a stand-in
            if n in env and isinstance(env[n], tuple) and env[n] and env[n][0] == 'closure':
                return self._invoke(env[n][1], args, kwargs, base_env=env[n][2])
            if n in env and isinstance(env[n], tuple) and len(env[n]) == 2 and env[n][0] == 'class' and (env[n][1] in self.stubs or n in self.stubs) and env[n][1] not in self.constructors \
                    and self.stub is not None:
                self.effects.append(('call', env[n][1], None, tuple(args), tuple(sorted(kwargs.items(), key=lambda kv: kv[0]))))
                return self.stub(env[n][1], None, args, kwargs)       # a class imported into the function that the rule replaces by a stand-in
            if n in env and isinstance(env[n], tuple) and len(env[n]) == 2 and env[n][0] == 'class' and env[n][1] in self.constructors:
                self.effects.append(('instantiate', env[n][1], tuple(args), tuple(sorted(kwargs.items(), key=lambda kv: kv[0]))))
                return self._construct_standin(env[n][1], args, kwargs)       # a class imported into the function, constructed by the rule's stand-in
            if n in env and isinstance(env[n], tuple) and len(env[n]) == 2 and env[n][0] == 'class' and env[n][1] in ('list', 'tuple', 'dict') and len(args) == 1 and not kwargs and isinstance(args[0], Obj):
                return Opaque('%s(%s)' % (env[n][1], args[0].name))       # `kind = list if ... else tuple; kind(node)`: as the direct call
            if n in env and isinstance(env[n], tuple) and len(env[n]) == 2 and env[n][0] == 'class' and env[n][1] in self.repo.classes and env[n][1] not in self.stubs and self._plain_class(env[n][1]):
                return self._construct_plain(env[n][1], args, kwargs, env, fi)
            if n in env and isinstance(env[n], tuple) and len(env[n]) == 2 and env[n][0] == 'class':
                self.effects.append(('instantiate', env[n][1], tuple(args), tuple(sorted(kwargs.items(), key=lambda kv: kv[0]))))
                if args and not kwargs:
                    # a class held in a local and called with arguments: named like the same call through an attribute (base = self._dyn_base; base(self))
                    return Opaque('%s(%s)' % (env[n][1], ', '.join(getattr(a, 'name', repr(a)) for a in args)))
                return Opaque('instance of ' + env[n][1])
            targets = self.repo.resolve_call(e, fi) if fi is not None else []
            if targets and n not in self.stubs:
                return self._invoke(targets[0], args, kwargs)
            if targets and n in self.stubs:
                self.effects.append(('call', n, None, tuple(args), tuple(sorted(kwargs.items(), key=lambda kv: kv[0]))))
                return self.stub(n, None, *self._both_views(targets[0], args, kwargs)) if self.stub is not None else None
            if n not in env and fi is not None and n not in self.repo.classes and (fi.module.namedtuple_fields(n) is not None or isinstance(fi.module.constant_binding(n), ast.Lambda)
                                                                                  or (isinstance(fi.module.constant_binding(n), ast.Call) and unparse(fi.module.constant_binding(n).func).split('.')[-1] in ('methodcaller', 'itemgetter', 'attrgetter'))):
                return self._apply(self._ev(f, env, fi), args, kwargs, e)
            if n in env and isinstance(env[n], tuple) and env[n] and env[n][0] in ('unbound', 'ntclass', 'partial'):
                return self._apply(env[n], args, kwargs, e)
            if n in env and isinstance(env[n], Bound):
                return self._apply(env[n], args, kwargs, e)
            if n in env and isinstance(env[n], Obj) and env[n].cls in self.repo.classes and self.repo.resolve(env[n].cls, '__call__') is not None:
                return self._invoke(self.repo.resolve(env[n].cls, '__call__'), [env[n]] + args, kwargs)
            if n in self.repo.classes and n not in env and n not in self.stubs and n not in self.constructors and len(args) == 1 and not kwargs \
                    and any(b.split('.')[-1] in ('Enum', 'IntEnum', 'StrEnum') for b in self.repo.classes[n].base_exprs) \
                    and (args[0] is None or isinstance(args[0], (str, int, float, bool, bytes))):
                # EnumClass(value): the member holding that value (ValueError when there is none)
                ci_ = self.repo.classes[n]
                for nm_, init_ in ci_.attrs.items():
                    if nm_.startswith('_') or not isinstance(init_, ast.expr):
                        continue
                    ok_, v_ = fold_const(self.repo, init_, n)
                    if not ok_:
                        raise Unsupported('value of enum member %s.%s' % (n, nm_))
                    if (n, nm_) not in self.class_objs:
                        self.class_objs[(n, nm_)] = EnumMember(n, nm_, v_)
                    if type(v_) is type(args[0]) and v_ == args[0]:
                        return self.class_objs[(n, nm_)]
                raise Raised('ValueError')
            if n in self.repo.classes and n not in env and n in self.stubs and n not in self.constructors and self.stub is not None:
                self.effects.append(('call', n, None, tuple(args), tuple(sorted(kwargs.items(), key=lambda kv: kv[0]))))
                return self.stub(n, None, args, kwargs)       # a class of the package the rule replaces by a stand-in
            if n in self.repo.classes and n not in env and n in self.constructors:
                self.effects.append(('instantiate', n, tuple(args), tuple(sorted(kwargs.items(), key=lambda kv: kv[0]))))
                return self._construct_standin(n, args, kwargs)       # a rule supplies the object this construction yields
            if n in self.repo.classes and n not in env and n not in self.stubs and self._plain_class(n):
                return self._construct_plain(n, args, kwargs, env, fi)
            if n in self.repo.classes and n not in env:
                # construction of a node class: recorded; wrapping an existing node object goes through the metaclass
                self.effects.append(('instantiate', n, tuple(args), tuple(sorted(kwargs.items(), key=lambda kv: kv[0]))))
                if n == 'ConfigNode' and args and isinstance(args[0], Obj) and 'ConfigNodeMeta.__call__' in self.repo.functions:
                    return self._invoke(self.repo.functions['ConfigNodeMeta.__call__'], [('class', n)] + args, kwargs)
                return Opaque('instance of ' + n)
            if n in self.extcalls and n not in env:
                return self._standin(self.extcalls[n], args, kwargs)       # a builtin the rule supplies a stand-in for (open, ...)
            raise Unsupported('call of %s (unresolved)' % n)
        if isinstance(f, ast.Attribute) and unparse(f) in self.extcalls:
            ts_ = self.repo.resolve_call(e, fi) if fi is not None and kwargs else []
            if len(ts_) == 1:
                # a function of the package the rule replaces by a stand-in: the stand-in sees the positional form
                a_, k_ = self._both_views(ts_[0], args, kwargs)
                names_ = [x.arg for x in ts_[0].node.args.posonlyargs + ts_[0].node.args.args]
                return self._standin(self.extcalls[unparse(f)], a_, {k: v for k, v in k_.items() if k not in names_[:len(a_)]})
            return self._standin(self.extcalls[unparse(f)], args, kwargs)
        if isinstance(f, ast.Attribute) and unparse(f) in _PURE_EXTERNALS and all(isinstance(a, (str, int)) for a in args) and not kwargs:
            return _PURE_EXTERNALS[unparse(f)](*args)

        if isinstance(f, ast.Attribute) and isinstance(f.value, ast.Name) and f.value.id not in env and fi is not None and f.value.id in fi.module.imports \
                and f.attr in self.repo.classes and self._is_exc_class(f.attr) and self.repo.classes[f.attr].module.short == fi.module.imports[f.value.id].split(':')[-1].split('.')[-1]:
            return ExcValue(f.attr, args)       # errors.SomeError(...) through the imported module
        if isinstance(f, ast.Attribute):
            target = self._ev(f, env, fi)
            if isinstance(target, tuple) and len(target) == 2 and target[0] == 'class':
                self.effects.append(('instantiate', target[1], tuple(args), tuple(sorted(kwargs.items(), key=lambda kv: kv[0]))))
                return Opaque('%s(%s)' % (target[1], ', '.join(getattr(a, 'name', repr(a)) for a in args)))
            if isinstance(target, tuple) and target and target[0] == 'builtinmethod' and target[1].f.get('_fde_storage') and isinstance(target[1].f.get('_children'), dict) \
                    and target[2] in ('items', 'keys', 'values') and not args and 'dict' in self.repo.mro(target[1].cls):
                ch_ = target[1].f['_children']
                return list(ch_.items()) if target[2] == 'items' else (list(ch_) if target[2] == 'keys' else list(ch_.values()))
            if isinstance(target, tuple) and target and target[0] == 'builtinmethod':
                return Opaque('%s.%s()' % (target[1].name, target[2]))
            if isinstance(target, tuple) and target and target[0] == 'objdictmethod':
                if target[2] == 'update' and args and isinstance(args[0], ObjDict):
                    self.effects.append(('call', '__dict__.update', target[1].obj, (args[0].obj,), ()))
                    src_, dst_ = args[0].obj, target[1].obj
                    for k_, v_ in list(src_.f.items()):
                        if not k_.startswith('_fde_') and k_ not in src_.missing:
                            dst_.f[k_] = v_
                            dst_.missing.discard(k_)
                    return None
                if target[2] in ('get', 'pop') and 1 <= len(args) <= 2 and not kwargs and isinstance(args[0], str):
                    o_ = target[1].obj
                    if args[0] in o_.f and args[0] not in o_.missing:
                        v_ = o_.f[args[0]]
                        if target[2] == 'pop':
                            del o_.f[args[0]]
                            o_.missing.add(args[0])
                        return v_
                    if args[0] in o_.missing or not self.repo.class_attr(o_.cls, args[0])[1]:
                        if target[2] == 'pop' and len(args) == 1:
                            raise Raised('KeyError')
                        return args[1] if len(args) > 1 else None       # obj.__dict__.get(name): an attribute this object was never given
                    raise Unsupported('__dict__.%s(%r) of %s' % (target[2], args[0], o_.name))
                if target[2] == 'copy' and not args and not kwargs:
                    o_ = target[1].obj
                    return {k: v for k, v in o_.f.items() if k not in o_.missing and not k.startswith('_fde_')}     # a plain dict: the state of the object
                if target[2] in ('items', 'keys', 'values') and not args and not kwargs:
                    o_ = target[1].obj
                    st_ = {k: v for k, v in o_.f.items() if k not in o_.missing and not k.startswith('_fde_')}
                    return list(getattr(st_, target[2])())      # a snapshot of the state of the object
                if target[2] == 'setdefault' and len(args) == 2 and not kwargs and isinstance(args[0], str):
                    o_ = target[1].obj
                    if args[0] in o_.f and args[0] not in o_.missing:
                        return o_.f[args[0]]
                    if args[0] not in o_.missing and self.repo.class_attr(o_.cls, args[0])[1]:
                        raise Unsupported('__dict__.setdefault(%r) of %s' % (args[0], o_.name))
                    o_.f[args[0]] = args[1]
                    o_.missing.discard(args[0])
                    self.effects.append(('setattr', o_, args[0], args[1]))
                    return args[1]
                if target[2] == 'update' and len(args) == 1 and isinstance(args[0], dict) and not kwargs and all(isinstance(k, str) for k in args[0]):
                    o_ = target[1].obj
                    for k, v in args[0].items():
                        o_.f[k] = v
                        o_.missing.discard(k)
                        self.effects.append(('setattr', o_, k, v))
                    return None
                raise Unsupported('__dict__.%s' % target[2])
            if isinstance(target, Bound) and target.fi is not None and target.fi.is_classmethod:
                if target.name not in self.stubs:
                    return self._invoke(target.fi, [('class', target.recv.cls)] + args, kwargs)
            if isinstance(target, Bound):
                name = target.name
                q = target.fi.qualname if target.fi is not None else name
                if name not in self.stubs and q not in self.stubs:
                    if target.fi.is_static:
                        return self._invoke(target.fi, args, kwargs)      # self.helper(...) on a @staticmethod: no receiver
                    return self._invoke(target.fi, [target.recv] + args, kwargs)
                self.effects.append(('call', name, target.recv, tuple(args), tuple(sorted(kwargs.items(), key=lambda kv: kv[0]))))
                if self.stub is not None:
                    return self.stub(name, target.recv, *self._both_views(target.fi, args, kwargs, 0 if target.fi is not None and target.fi.is_static else 1))
                return target.recv
            if isinstance(target, tuple) and target and target[0] == 'partial':
                return self._apply(target, args, kwargs, e)
            if isinstance(target, tuple) and target and target[0] == 'unbound':
                t = target[1]
                if t.name not in self.stubs and t.qualname not in self.stubs:
                    return self._invoke(t, args, kwargs)
                if t.is_static or t.cls is None:
                    # Class.static_method(args) / module.function(args): there is no receiver among the arguments
                    self.effects.append(('call', t.name, None, tuple(args), tuple(sorted(kwargs.items()))))
                    return self.stub(t.name, None, *self._both_views(t, args, kwargs)) if self.stub is not None else None
                self.effects.append(('call', t.name, args[0] if args else None, tuple(args[1:]), tuple(sorted(kwargs.items()))))
                if self.stub is not None:
                    a2_, k2_ = self._both_views(t, args, kwargs)       # Class.method(obj, name=..., value=...): both views, receiver first
                    return self.stub(t.name, a2_[0] if a2_ else None, a2_[1:], k2_)
                return args[0] if args else None
            if isinstance(target, tuple) and target and target[0] == 'dictmethod':
                _, d, m = target
                if m == 'get':
                    return d.get(*args)
                if m == 'pop':
                    try:
                        return d.pop(*args)
                    except KeyError:
                        raise Raised('KeyError')
                if m == 'setdefault':
                    return d.setdefault(*args)
                if m == 'update':
                    for a in args:
                        d.update(a)
                    d.update(kwargs)
                    return None
                if m == 'items':
                    return list(d.items())
                if m == 'keys':
                    return list(d.keys())
                if m == 'values':
                    return list(d.values())
                if m == 'clear':
                    d.clear()
                    return None
                if m == 'copy':
                    return dict(d)
                if m == 'popitem':
                    try:
                        return d.popitem()
                    except KeyError:
                        raise Raised('KeyError')
            if isinstance(target, tuple) and target and target[0] == 'noop':
                return None
            import types as _types
            if isinstance(target, (_types.FunctionType, _types.LambdaType)) and getattr(target, '_fde_ok', False):
                return self._standin(target, args, kwargs)
            if isinstance(target, tuple) and target and target[0] == 'pymethod':
                # stdlib regular-expression objects: evaluated by the stdlib itself on concrete strings
                if not all(a is None or isinstance(a, (str, int)) for a in args):
                    raise Unsupported('regex method on abstract arguments')
                r_ = self._standin(getattr(target[1], target[2]), args, kwargs)
                return list(r_) if target[2] in ('finditer',) else r_
            if isinstance(target, tuple) and target and target[0] == 'strmethod' and isinstance(target[1], bytes):
                if all(isinstance(a, (bytes, int)) or (isinstance(a, (list, tuple)) and all(isinstance(x, bytes) for x in a)) for a in args) and not kwargs:
                    try:
                        return getattr(target[1], target[2])(*args)
                    except (ValueError, TypeError) as ex:
                        raise Raised(type(ex).__name__)
                raise Unsupported('bytes.%s on abstract arguments' % target[2])
            if isinstance(target, tuple) and target and target[0] == 'strmethod':
                if all(isinstance(a, (str, int, tuple)) or (isinstance(a, list) and all(isinstance(x, str) for x in a)) for a in args):
                    return getattr(target[1], target[2])(*args, **kwargs)
                if target[2] in ('format', 'join', 'replace', 'ljust', 'rjust', 'center'):
                    return Opaque('text built from abstract parts')       # some string: its content is not known
                raise Unsupported('str.%s on abstract arguments' % target[2])
            if isinstance(target, tuple) and target and target[0] == 'listmethod':
                try:
                    return getattr(target[1], target[2])(*args, **kwargs)
                except (ValueError, IndexError, KeyError, TypeError) as ex:
                    raise Raised(type(ex).__name__)
            raise Unsupported('call of %s' % unparse(f))
        if isinstance(f, (ast.Subscript, ast.Call, ast.IfExp)):
            return self._apply(self._ev(f, env, fi), args, kwargs, e)      # table[key](...), factory(...)(...)
        raise Unsupported('call of %s' % unparse(f))

    def _construct_standin(self, cname, args, kwargs):
        """Cls(...) answered by the rule's stand-in constructor: keyword arguments that name leading parameters of Cls.__init__ are
        handed over by position (Cls(a, parent=b) and Cls(a, b) are the same construction)"""
        init = self.repo.resolve(cname, '__init__') if cname in self.repo.classes else None
        if init is not None and kwargs and not any(str(k).startswith('**') for k in kwargs):
            a = init.node.args
            names = [x.arg for x in a.posonlyargs + a.args][1:]
            args, kwargs = list(args), dict(kwargs)
            for i in range(len(args), len(names)):
                if names[i] in kwargs:
                    args.append(kwargs.pop(names[i]))
                else:
                    break
        return self.constructors[cname](*args, **kwargs)

    def _both_views(self, t, args, kwargs, skip=0):
        """arguments of a call handed to a rule's stand-in, in both views: by position (keyword arguments naming leading parameters
        moved to their places) and by name (positional arguments also under their parameter names) - f(a, y=2) and f(a, 2) are one call"""
        if t is None or getattr(t, 'node', None) is None or not hasattr(t.node, 'args') or any(str(k).startswith('**') for k in kwargs):
            return list(args), dict(kwargs)
        a = t.node.args
        names = [x.arg for x in a.posonlyargs + a.args][skip:]
        po = len(a.posonlyargs) - skip
        args, kwargs = list(args), dict(kwargs)
        for i in range(len(args), len(names)):
            if names[i] in kwargs and i >= po:
                args.append(kwargs[names[i]])
            else:
                break
        for i, v in enumerate(args[:len(names)]):
            if i >= po:
                kwargs.setdefault(names[i], v)
        return args, kwargs

    def _standin(self, fn, args, kwargs):
        """call of a Python stand-in (stdlib function on concrete values): what it raises is what the real call would raise"""
        try:
            return fn(*args, **kwargs)
        except (Raised, Unsupported, _Return, _Break, _Continue, Yielded, AnalysisErrorType):
            raise
        except Exception as ex:  # noqa
            raise Raised(type(ex).__name__)

    def _apply_getitem(self, o, k, e):
        if isinstance(o, Obj):
            t = self.repo.resolve(o.cls, '__getitem__') if o.cls in self.repo.classes else None
            if t is not None or '__getitem__' in self.stubs:
                return self._apply(Bound(o, t, '__getitem__', False), [k], {}, e)
        raise Unsupported('subscript of %r' % (o,))

    def _apply(self, target, args, kwargs, e):
        """call of a function *value* (taken from a dispatch table, a local, a record class)"""
        if isinstance(target, tuple) and target and target[0] == 'partial':
            return self._apply(target[1], list(target[2]) + list(args), dict(target[3], **kwargs), e)
        if isinstance(target, tuple) and target and target[0] == 'closure':
            return self._invoke(target[1], args, kwargs, base_env=target[2])
        if isinstance(target, tuple) and len(target) == 2 and target[0] == 'class' and target[1] in self.repo.classes:
            # a class of the package held in a value (chosen by a helper / a table) and then called: as the call by name
            n_ = target[1]
            if n_ in self.constructors:
                self.effects.append(('instantiate', n_, tuple(args), tuple(sorted(kwargs.items(), key=lambda kv: kv[0]))))
                return self._construct_standin(n_, args, kwargs)
            if n_ in self.stubs and self.stub is not None:
                self.effects.append(('call', n_, None, tuple(args), tuple(sorted(kwargs.items(), key=lambda kv: kv[0]))))
                return self.stub(n_, None, args, kwargs)
            if self._plain_class(n_):
                return self._construct_plain(n_, args, kwargs, {}, None)
            self.effects.append(('instantiate', n_, tuple(args), tuple(sorted(kwargs.items(), key=lambda kv: kv[0]))))
            return Opaque('instance of ' + n_)
        if isinstance(target, tuple) and target and target[0] == 'ntclass':
            try:
                return target[1](*args, **kwargs)
            except TypeError:
                raise Raised('TypeError')
        if isinstance(target, tuple) and target and target[0] == 'unbound':
            t = target[1]
            if t.name not in self.stubs and t.qualname not in self.stubs:
                return self._invoke(t, args, kwargs)
            if t.is_classmethod and args and isinstance(args[0], tuple) and len(args[0]) == 2 and args[0][0] == 'class':
                args = list(args[1:])       # a stand-in for a class method sees the call's own arguments (not the class)
            self.effects.append(('call', t.name, None, tuple(args), tuple(sorted(kwargs.items(), key=lambda kv: kv[0]))))
            return self.stub(t.name, None, *self._both_views(t, args, kwargs, 1 if (t.cls is not None and not t.is_static) else 0)) if self.stub is not None else None
        if isinstance(target, Bound) and (target.fi is not None or target.name in self.stubs):
            if target.name in self.stubs or target.fi.qualname in self.stubs:
                self.effects.append(('call', target.name, target.recv, tuple(args), tuple(sorted(kwargs.items(), key=lambda kv: kv[0]))))
                return self.stub(target.name, target.recv, *self._both_views(target.fi, args, kwargs, 0 if target.fi is not None and target.fi.is_static else 1)) if self.stub is not None else target.recv
            if target.fi.is_static:
                return self._invoke(target.fi, args, kwargs)
            if target.fi.is_classmethod:
                return self._invoke(target.fi, [('class', target.recv.cls)] + args, kwargs)
            return self._invoke(target.fi, [target.recv] + args, kwargs)
        if callable(target) and getattr(target, '_fde_ok', False):
            return self._standin(target, args, kwargs)
        if isinstance(target, tuple) and len(target) == 3 and target[0] == 'listmethod' and (isinstance(target[1], (list, set)) or type(target[1]).__name__ == 'deque'):
            try:
                return getattr(target[1], target[2])(*args, **kwargs)       # a bound method of a concrete list / set held as a value (cleanup = stack.pop; cleanup())
            except (ValueError, IndexError, KeyError, TypeError) as ex:
                raise Raised(type(ex).__name__)
        if isinstance(target, Obj) and target.cls in self.repo.classes and self.repo.resolve(target.cls, '__call__') is not None:
            return self._invoke(self.repo.resolve(target.cls, '__call__'), [target] + list(args), dict(kwargs))
        raise Unsupported('call of the value %r (%s)' % (target, unparse(e.func) if isinstance(e, ast.Call) else unparse(e)))
