"""E6 - inventory of writes to process-shared state (C20.R2, C12.R1).

Process-shared roots
  * class attributes:  <KnownClass>.<attr>, cls.<attr> (inside classmethods / metaclass methods), type(self).<attr>
  * module globals:    names declared `global` in a function, module-level names mutated through a method
                       call / subscript store from inside a function
  * interpreter state: sys.modules, sys.path, os.environ, builtins
A *write* is an assignment / augmented assignment / deletion whose target is rooted in a shared root, or a
call of a mutating method (update, append, add, setdefault, pop, clear, extend, insert, remove, popitem,
__setitem__, __delitem__) on an expression rooted in one - including a local alias bound from a shared
root or from a function that returns one (one-level summary, e.g. get_default_eval_symbols()).
Reads are not reported.  Thread-local slots are handled by the caller (C20.R1): `<slot>.value = ...` is a
write to per-thread state and is classified 'threadlocal'.
"""
import ast

from .srcmodel import unparse, norm, walk_no_nested, calls_in

MUTATORS = {'update', 'append', 'add', 'setdefault', 'pop', 'clear', 'extend', 'insert', 'remove', 'popitem', '__setitem__', '__delitem__', 'discard', 'sort', 'reverse'}
COPIERS = {'copy.copy', 'copy.deepcopy', 'dict', 'list', 'set', 'tuple', 'sorted', 'frozenset'}
INTERP = ('sys.modules', 'sys.path', 'os.environ', 'builtins.__dict__', '__builtins__')


class Write:
    def __init__(self, fi, node, kind, root, target, value=None):
        self.fi, self.node, self.kind, self.root, self.target, self.value = fi, node, kind, root, target, value

    def text(self):
        return norm(self.node)[:160]


def _module_level_mutables(module):
    """module-level names bound to objects (anything but constants): stores / mutations through them from
    inside a function change process-shared state"""
    out = set()
    for name, e in module.globals.items():
        if isinstance(e, ast.Constant) and e.value is not None:
            continue
        if isinstance(e, (ast.Lambda,)):
            continue
        out.add(name)
    return out


def _returns_shared(repo, fi):
    """does fi return a process-shared object itself (not a copy)?"""
    for r in walk_no_nested(fi.node):
        if isinstance(r, ast.Return) and r.value is not None:
            k = _root_kind(repo, fi, r.value, {}, set())
            if k:
                return k
    return None


def _root_kind(repo, fi, e, aliases, mod_mut, depth=0):
    """classify the root of an expression: ('class', 'X.attr') / ('global', name) / ('interp', text) / None"""
    if isinstance(e, ast.Subscript):
        return _root_kind(repo, fi, e.value, aliases, mod_mut, depth)
    if isinstance(e, ast.Attribute):
        s = norm(e)
        for p in INTERP:
            if s == p or s.startswith(p + '.'):
                return ('interp', p)
        base = e.value
        if isinstance(base, ast.Name):
            if base.id in repo.classes and not isinstance(getattr(repo.classes[base.id], 'node', None), type(None)):
                return ('class', '%s.%s' % (base.id, e.attr))
            if base.id == 'cls':
                return ('class', '%s.%s' % (fi.cls.name if fi.cls else 'cls', e.attr))
            if base.id in aliases:
                return aliases[base.id]
        if isinstance(base, ast.Call) and norm(base.func) == 'type' and base.args and norm(base.args[0]) == 'self':
            return ('class', 'type(self).%s' % e.attr)
        inner = _root_kind(repo, fi, base, aliases, mod_mut, depth)
        if inner and inner[0] in ('class', 'interp', 'global'):
            return inner
        return None
    if isinstance(e, ast.Name):
        if e.id in aliases:
            return aliases[e.id]
        if e.id in mod_mut and e.id not in _locals(fi):
            return ('global', e.id)
        if e.id == '__builtins__':
            return ('interp', '__builtins__')
        return None
    if isinstance(e, ast.Call) and depth < 2:
        f = norm(e.func)
        if f in COPIERS:
            return None
        for t in repo.resolve_call(e, fi):
            k = _returns_shared(repo, t)
            if k:
                return k
        if isinstance(e.func, ast.Attribute) and e.func.attr.startswith('get_default'):
            for t in repo.cha(e.func.attr, ayns=False):
                k = _returns_shared(repo, t)
                if k:
                    return k
    return None


def _locals(fi):
    out = set(fi.params())
    for n in walk_no_nested(fi.node):
        if isinstance(n, ast.Assign):
            for t in n.targets:
                for x in (t.elts if isinstance(t, (ast.Tuple, ast.List)) else [t]):
                    if isinstance(x, ast.Name):
                        out.add(x.id)
                    elif isinstance(x, ast.Starred) and isinstance(x.value, ast.Name):
                        out.add(x.value.id)
        elif isinstance(n, (ast.For, ast.With)):
            for x in ast.walk(n.target if isinstance(n, ast.For) else ast.Tuple(elts=[i.optional_vars for i in n.items if i.optional_vars is not None], ctx=ast.Store())):
                if isinstance(x, ast.Name):
                    out.add(x.id)
    globs = set()
    for n in walk_no_nested(fi.node):
        if isinstance(n, ast.Global):
            globs |= set(n.names)
    return out - globs


def shared_writes(repo, functions=None):
    out = []
    for fi in (functions if functions is not None else repo.all_functions()):
        mod_mut = _module_level_mutables(fi.module)
        globs = set()
        for n in walk_no_nested(fi.node):
            if isinstance(n, ast.Global):
                globs |= set(n.names)
        aliases = {}
        maybe = {}
        for g_ in globs:
            aliases[g_] = ('global', g_)
        # local aliases of shared objects: a name is an alias when *every* definition is shared-rooted;
        # with mixed definitions (e.g. `gbls` = cached module dict or a fresh dict) it is a maybe-alias
        defs = {}
        for n in walk_no_nested(fi.node):
            if isinstance(n, ast.Assign) and len(n.targets) == 1 and isinstance(n.targets[0], ast.Name) and n.targets[0].id not in globs:
                defs.setdefault(n.targets[0].id, []).append(n.value)
        for name, vals in defs.items():
            ks = [_root_kind(repo, fi, v, aliases, mod_mut) if not isinstance(v, ast.Subscript) else None for v in vals]
            if all(ks):
                aliases[name] = ks[0]
            elif any(ks):
                maybe[name] = [k for k in ks if k][0]
        for n in walk_no_nested(fi.node):
            targets = []
            value = None
            if isinstance(n, ast.Assign):
                targets, value = n.targets, n.value
            elif isinstance(n, ast.AugAssign):
                targets, value = [n.target], n.value
            elif isinstance(n, ast.AnnAssign) and n.value is not None:
                targets, value = [n.target], n.value
            elif isinstance(n, ast.Delete):
                targets = n.targets
            for t in targets:
                for tt in (t.elts if isinstance(t, (ast.Tuple, ast.List)) else [t]):
                    if isinstance(tt, ast.Name):
                        if tt.id in globs:
                            out.append(Write(fi, n, 'rebind', ('global', tt.id), norm(tt), value))
                        continue
                    k = _root_kind(repo, fi, tt, aliases, mod_mut)
                    if k:
                        out.append(Write(fi, n, 'store', k, norm(tt), value))
                    else:
                        k = _root_kind(repo, fi, tt, maybe, set())
                        if k:
                            out.append(Write(fi, n, 'maybe-store', k, norm(tt), value))
            if isinstance(n, (ast.Expr, ast.Assign, ast.Return, ast.AugAssign, ast.If, ast.With, ast.For, ast.While)):
                pass
        for c in calls_in(fi.node):
            if isinstance(c.func, ast.Attribute) and c.func.attr in MUTATORS:
                if c.args and norm(c.args[0]) == 'self' and isinstance(c.func.value, (ast.Attribute, ast.Name)) and norm(c.func.value).split('.')[0] in repo.classes:
                    continue    # explicit-base method call K.m(self, ...) / K.ayns.m(self, ...): mutates self, not the class
                if isinstance(c.func.value, ast.Name) and c.func.value.id in ('dict', 'list', 'set'):
                    continue
                k = _root_kind(repo, fi, c.func.value, aliases, mod_mut)
                if k:
                    out.append(Write(fi, c, 'mutate', k, norm(c.func.value), c.args[0] if c.args else None))
                else:
                    k = _root_kind(repo, fi, c.func.value, maybe, set())
                    if k:
                        out.append(Write(fi, c, 'maybe-mutate', k, norm(c.func.value), c.args[0] if c.args else None))
            if isinstance(c.func, ast.Name) and c.func.id in ('setattr', 'delattr') and c.args:
                a0 = c.args[0]
                if isinstance(a0, ast.Name) and (a0.id in repo.classes or a0.id == 'cls'):
                    out.append(Write(fi, c, 'setattr', ('class', a0.id), norm(a0), c.args[2] if len(c.args) > 2 else None))
    return out


MUTATORS = {'clear', 'update', 'pop', 'popitem', 'setdefault', 'append', 'extend', 'insert', 'remove', 'add', 'discard', 'sort', 'reverse', '__setitem__', '__delitem__'}


def class_mutables_via_self(repo):
    """per-instance state that lives in a class-level mutable object: class attribute initialised with a mutable display /
    constructor ({} [] set() dict() list() ...), never assigned on the instance (self.<attr> = ...) anywhere in the class family, and
    mutated through self.<attr> (item store / delete / mutating method).  Such an object is shared by all instances (and threads)."""
    out = []
    for cname, ci in repo.classes.items():
        for attr, init in ci.attrs.items():
            mutable = isinstance(init, (ast.Dict, ast.List, ast.Set)) or (isinstance(init, ast.Call) and unparse(init.func) in ('dict', 'list', 'set', 'collections.OrderedDict', 'OrderedDict', 'collections.defaultdict', 'defaultdict'))
            if not mutable:
                continue
            family = [c for c in repo.classes if cname in repo.mro(c)]
            methods = [m for c in family for m in list(repo.classes[c].methods.values()) + list(repo.classes[c].ayns.values())]
            assigned = False
            muts = []
            for fi in methods:
                for n in ast.walk(fi.node):
                    if isinstance(n, ast.Attribute) and isinstance(n.value, ast.Name) and n.value.id == 'self' and n.attr == attr:
                        par = getattr(n, '_parent', None)
                        if isinstance(n.ctx, ast.Store) and isinstance(par, (ast.Assign, ast.AnnAssign, ast.AugAssign)):
                            assigned = True
                        elif isinstance(par, ast.Subscript) and par.value is n and isinstance(par.ctx, (ast.Store, ast.Del)):
                            muts.append((fi, par))
                        elif isinstance(par, ast.Attribute) and par.value is n and par.attr in MUTATORS and isinstance(getattr(par, '_parent', None), ast.Call) and par._parent.func is par:
                            muts.append((fi, par._parent))
                        elif isinstance(par, ast.Assign) and par.value is n and len(par.targets) == 1 and isinstance(par.targets[0], ast.Name):
                            # <local> = self.<attr>: a local name for the same object (bound once in this function)
                            al = par.targets[0].id
                            stores = [m for m in ast.walk(fi.node) if isinstance(m, ast.Name) and m.id == al and isinstance(m.ctx, (ast.Store, ast.Del))]
                            if len(stores) == 1 and al not in [a.arg for a in ast.walk(fi.node.args) if isinstance(a, ast.arg)]:
                                for m in ast.walk(fi.node):
                                    if isinstance(m, ast.Name) and m.id == al and isinstance(m.ctx, ast.Load):
                                        mp = getattr(m, '_parent', None)
                                        if isinstance(mp, ast.Subscript) and mp.value is m and isinstance(mp.ctx, (ast.Store, ast.Del)):
                                            muts.append((fi, mp))
                                        elif isinstance(mp, ast.Attribute) and mp.value is m and mp.attr in MUTATORS and isinstance(getattr(mp, '_parent', None), ast.Call) and mp._parent.func is mp:
                                            muts.append((fi, mp._parent))
            if muts and not assigned:
                out.append((cname, attr, muts))
    return out


LOOKUPS_NONE_FOR_MISSING = {'get_node', 'remove_node', 'get_child', 'remove_child', '_remove_node'}


def lookup_truthiness(repo):
    """results of the tree lookups that answer None for "no such node" (get_node(..., incomplete=None), remove_node, get_child ...) that
    are tested by truth value: a node that exists but is falsy - an empty list or mapping, 0, '', null, false - is then taken for
    missing. Yields (function, test node, local name, lookup)."""
    def src(v):
        if isinstance(v, ast.Call) and isinstance(v.func, ast.Attribute) and v.func.attr in LOOKUPS_NONE_FOR_MISSING:
            return v.func.attr
        if isinstance(v, ast.IfExp):
            a, b = src(v.body), src(v.orelse)
            none = lambda x: isinstance(x, ast.Constant) and x.value is None
            if (a and (b or none(v.orelse))) or (b and none(v.body)):
                return a or b
        if isinstance(v, ast.NamedExpr):
            return src(v.value)
        return None
    for fi in repo.all_functions():
        names = {}
        stores = {}
        for n in ast.walk(fi.node):
            if isinstance(n, ast.Name) and isinstance(n.ctx, ast.Store):
                stores[n.id] = stores.get(n.id, 0) + 1
            if isinstance(n, ast.Assign) and len(n.targets) == 1 and isinstance(n.targets[0], ast.Name) and src(n.value):
                names[n.targets[0].id] = src(n.value)
            if isinstance(n, ast.NamedExpr) and isinstance(n.target, ast.Name) and src(n.value):
                names[n.target.id] = src(n.value)
        names = {k: v for k, v in names.items() if stores.get(k) == 1 and k not in fi.params()}
        if not names:
            continue
        for n in ast.walk(fi.node):
            tests = []
            if isinstance(n, (ast.If, ast.While, ast.IfExp, ast.Assert)):
                tests.append(n.test)
            if isinstance(n, ast.BoolOp):
                tests += n.values[:-1] if not isinstance(getattr(n, '_parent', None), (ast.If, ast.While, ast.IfExp, ast.Assert, ast.UnaryOp, ast.BoolOp)) else n.values
            if isinstance(n, ast.UnaryOp) and isinstance(n.op, ast.Not):
                tests.append(n.operand)
            for t in tests:
                if isinstance(t, ast.Name) and t.id in names:
                    yield fi, t, t.id, names[t.id]
