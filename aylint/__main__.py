"""aylint - static checks of the awesomeyaml properties C01..C20.

  python -m aylint check <ID> [--tier quick|thorough] [--repo /repo] [--no-selftest]
  python -m aylint replay <replay.json>
  python -m aylint all [--tier ...]

exit 0: every rule instance discharged (known findings printed as KNOWN-FINDING lines)
exit 1: at least one unlisted violation (VIOLATION property=<id> replay=<path>)
exit 2: ANALYSIS-ERROR (anchor vanished, unknown shape, instance floor not met, self-test failed)
"""
import importlib
import json
import os
import sys
import traceback

sys.path.insert(0, os.path.dirname(os.path.dirname(os.path.abspath(__file__))))

from aylint.report import Run, AnalysisError          # noqa: E402
from aylint.srcmodel import Repo                      # noqa: E402
from aylint.mutate import NotApplicable               # noqa: E402
from aylint.rules import common                       # noqa: E402

ALL = ['C%02d' % i for i in range(1, 21)]


def load_rules(prop):
    return importlib.import_module('aylint.rules.' + prop.lower())


def run_rules(mod, repo, run, tier):
    common.reset_caches()
    from aylint import tracer as _tr, fde as _fde
    _tr.TOUCHED.clear()
    _fde.TOUCHED.clear()
    common.TIER[0] = tier
    mod.check(repo, run, tier)


_ST = {}


def _one_mutant(i):
    mod, repo, tier, root, base = _ST['mod'], _ST['repo'], _ST['tier'], _ST['root'], _ST['base']
    mu = _ST['mutants'][i]
    try:
        ov = mu.build(repo)
    except NotApplicable as e:
        return (mu.name, 'n/a', 'skipped: %s' % str(e)[:80], True)
    except SyntaxError as e:
        return (mu.name, 'compiles', 'mutant does not parse: %s' % e, False)
    sub = Run(mod.PROP, tier, root, quiet=True)
    try:
        common.reset_caches()
        r2 = repo.with_overrides(ov)
        mod.check(r2, sub, tier)
        fired = sorted({v['rule'] for v in sub.violations})
        err = None
    except AnalysisError as e:
        fired, err = sorted({v['rule'] for v in sub.violations}), str(e)
    except Exception as e:  # noqa
        fired, err = [], 'internal %s: %s' % (type(e).__name__, e)
    if mu.neutral:
        extra = [v for v in sub.violations if v['key'] not in base]
        ok = err is None and not extra
        got = 'silent' if ok else ('analysis error: %s' % err if err else 'fired %s' % sorted({v['rule'] for v in extra}))
        return (mu.name, 'silent (behaviour-preserving edit)', got[:200], ok)
    ok = any(r in fired for r in mu.expect_rules)
    got = ('fired %s' % fired) + ('' if err is None else ' then analysis error: %s' % err)
    return (mu.name, 'fires one of %s' % list(mu.expect_rules), got[:200], ok)


def selftest(mod, repo, run, tier):
    """in-memory mutants of the current tree: the expected rule must fire / a neutral edit must stay silent.
    Mutants are evaluated in forked worker processes (the parsed tree is inherited, nothing is written)."""
    if not hasattr(mod, 'mutants'):
        return []
    import multiprocessing
    muts = mod.mutants(repo)
    _ST.update(mod=mod, repo=repo, tier=tier, root=run.repo_root, base={v['key'] for v in run.violations}, mutants=muts)
    jobs = int(os.environ.get('AYLINT_JOBS', '0') or 0) or min(16, os.cpu_count() or 1)
    if jobs > 1 and len(muts) > 2:
        ctx = multiprocessing.get_context('fork')
        with ctx.Pool(min(jobs, len(muts))) as pool:
            res = pool.map(_one_mutant, range(len(muts)))
    else:
        res = [_one_mutant(i) for i in range(len(muts))]
    common.reset_caches()
    run.selftest.extend(res)
    return [r[0] for r in res if not r[3]]


def check(prop, tier, root, do_selftest=True):
    run = Run(prop, tier, root)
    seed = int(os.environ.get('VERIF_SEED', '0') or 0)
    try:
        mod = load_rules(prop)
        run.decided = list(mod.DECIDED)
        run.undecided = list(mod.UNDECIDED)
        run.assumptions = list(getattr(mod, 'ASSUMPTIONS', []))
        run.trusted += list(getattr(mod, 'TRUSTED', []))
        repo = Repo.load(root)
        run_rules(mod, repo, run, tier)
        failures = []
        if do_selftest:
            failures = selftest(mod, repo, run, tier) or []
        if tier == 'thorough' and do_selftest:
            from aylint import automutate
            run.sweep = automutate.sweep(mod, repo, run)
        rc = run.finish(seed)
        if rc == 0 and failures:
            for name, exp, got, ok in run.selftest:
                if not ok:
                    print('ANALYSIS-ERROR property=%s self-test %s: expected %s, got %s' % (prop, name, exp, got))
            return 2
        return rc
    except AnalysisError as e:
        if run.violations:
            # a genuine deviation was already identified before the analysis gave up elsewhere
            rc = run.finish(seed)
            print('ANALYSIS-ERROR property=%s (after reporting the findings above) %s' % (prop, e))
            return rc if rc else 2
        print('ANALYSIS-ERROR property=%s %s' % (prop, e))
        _write_error_evidence(run, seed, str(e))
        return 2
    except Exception as e:  # never let a traceback look like a violation
        print('ANALYSIS-ERROR property=%s internal error %s: %s' % (prop, type(e).__name__, e))
        traceback.print_exc()
        _write_error_evidence(run, seed, 'internal error %s: %s' % (type(e).__name__, e))
        return 2


def _write_error_evidence(run, seed, msg):
    try:
        run.violations = []
        run.assumptions = list(run.assumptions) + ['ANALYSIS-ERROR: ' + msg]
        run.finish(seed)
    except Exception:
        pass


def replay(path):
    with open(path) as f:
        v = json.load(f)
    prop = v['property']
    root = v.get('repo_root', '/repo')
    run = Run(prop, v.get('tier', 'quick'), root, quiet=True)
    mod = load_rules(prop)
    repo = Repo.load(root)
    try:
        run_rules(mod, repo, run, v.get('tier', 'quick'))
    except AnalysisError as e:
        print('ANALYSIS-ERROR', e)
        return 2
    hit = [x for x in run.violations if x['key'] == v['key']]
    if hit:
        x = hit[0]
        print('REPRODUCED property=%s rule=%s %s:%s %s' % (prop, x['rule'], x['file'], x['line'], x['qualname']))
        print('  ' + x['message'])
        print('  construct: ' + x['construct'])
        return 1
    print('NOT-REPRODUCED property=%s rule=%s (the construct no longer violates the rule on %s)' % (prop, v['rule'], root))
    return 0


def main(argv):
    if len(argv) < 2:
        print(__doc__)
        return 2
    cmd = argv[1]
    args = argv[2:]

    def opt(name, default):
        if name in args:
            i = args.index(name)
            val = args[i + 1]
            del args[i:i + 2]
            return val
        return default
    tier = opt('--tier', os.environ.get('VERIF_TIER', 'quick') or 'quick')
    root = opt('--repo', os.environ.get('AYLINT_REPO', '/repo'))
    nost = '--no-selftest' in args
    if nost:
        args.remove('--no-selftest')
    if cmd == 'check':
        return check(args[0], tier, root, not nost)
    if cmd == 'replay':
        return replay(args[0])
    if cmd == 'all':
        worst = 0
        for p in ALL:
            try:
                load_rules(p)
            except ImportError:
                continue
            worst = max(worst, check(p, tier, root, not nost))
        return worst
    print(__doc__)
    return 2


if __name__ == '__main__':
    sys.exit(main(sys.argv))
