"""E7 - findings, known-findings file, evidence, exit codes."""
import hashlib
import json
import os
import time

VERIF = os.path.dirname(os.path.dirname(os.path.abspath(__file__)))
KNOWN_FILE = os.path.join(VERIF, 'known_findings.json')
EVIDENCE_DIR = os.environ.get('AYLINT_EVIDENCE_DIR') or os.path.join(VERIF, 'evidence')
REPLAY_DIR = os.environ.get('AYLINT_REPLAY_DIR') or os.path.join(VERIF, 'replay')


class AnalysisError(Exception):
    """the analysis cannot give a verdict (anchor vanished, shape not recognised, floor not met,
    self-test failed). Exit code 2, never a VIOLATION."""


def load_known():
    if not os.path.exists(KNOWN_FILE):
        return []
    with open(KNOWN_FILE) as f:
        return json.load(f)['findings']


def finding_key(prop, rule, file, qualname, construct):
    return '|'.join([prop, rule, file, qualname, ' '.join(str(construct).split())])


class Run:
    """collects the obligations (rule instances) of one property check"""

    def __init__(self, prop, tier='quick', repo_root='/repo', quiet=False):
        self.prop = prop
        self.tier = tier
        self.repo_root = repo_root
        self.t0 = time.time()
        self.obligations = []       # dict(rule, where, qualname, instance, verdict, detail)
        self.violations = []
        self.infos = []
        self.rule_counts = {}
        self.floors = {}
        self.tables = {}            # rule -> table size / description
        self.selftest = []          # (name, expected, got, ok)
        self.assumptions = []
        self.decided = []
        self.undecided = []
        self.trusted = ['CPython ast module', 'aylint engine (srcmodel, cfg, fde, effects, pathbase, escape)']
        self.quiet = quiet
        self.current_rule = None
        self.sweep = None

    # -- recording ---------------------------------------------------------------------
    def ok(self, rule, fn_or_where, instance, detail=''):
        self._add(rule, fn_or_where, instance, 'ok', detail)

    def info(self, rule, fn_or_where, instance, detail=''):
        self._add(rule, fn_or_where, instance, 'info', detail)
        self.infos.append((rule, instance, detail))

    def violation(self, rule, fn_or_where, construct, message, node=None, witness=None):
        """a recognised construct with a specific semantic deviation"""
        file, line, qual = self._loc(fn_or_where, node)
        key = finding_key(self.prop, rule, file, qual, construct)
        v = dict(rule=rule, file=file, line=line, qualname=qual, construct=' '.join(str(construct).split()),
                 message=message, key=key, witness=witness)
        self.violations.append(v)
        self._add(rule, fn_or_where, construct, 'violation', message, node=node)

    def _loc(self, fn_or_where, node=None):
        if hasattr(fn_or_where, 'qualname'):
            f = fn_or_where
            line = getattr(node, 'lineno', None) or f.line
            return f.file, line, f.qualname
        if isinstance(fn_or_where, tuple):
            return fn_or_where
        return str(fn_or_where), 0, ''

    def _add(self, rule, fn_or_where, instance, verdict, detail, node=None):
        file, line, qual = self._loc(fn_or_where, node)
        self.obligations.append(dict(rule=rule, where='%s:%s' % (file, line), qualname=qual,
                                     instance=' '.join(str(instance).split())[:300], verdict=verdict,
                                     detail=' '.join(str(detail).split())[:400]))
        self.rule_counts[rule] = self.rule_counts.get(rule, 0) + 1

    def floor(self, rule, n, what=''):
        """a rule must have matched at least n real constructs, else the analysis is broken"""
        self.floors[rule] = n
        got = self.rule_counts.get(rule, 0)
        if got < n:
            raise AnalysisError('%s %s: instance floor not met (%d < %d) %s - the rule would pass vacuously' % (self.prop, rule, got, n, what))

    def table(self, rule, size, desc):
        self.tables[rule] = dict(rows=size, desc=desc)

    # -- finishing ---------------------------------------------------------------------
    def finish(self, seed=0):
        """print verdict lines, write evidence, return exit code"""
        known = [k for k in load_known() if k.get('property') == self.prop]
        listed = {k['key']: k for k in known if k.get('status') == 'known'}
        new, kn = [], []
        for v in self.violations:
            (kn if v['key'] in listed else new).append(v)
        lines = []
        seen_known = set()
        for v in kn:
            if v['key'] in seen_known:
                continue
            seen_known.add(v['key'])
            k = listed[v['key']]
            lines.append('KNOWN-FINDING: property=%s %s %s:%s %s [%s] - %s' % (
                self.prop, v['rule'], v['file'], v['qualname'], v['construct'][:120], k.get('id', ''), k.get('fails', '')))
        os.makedirs(REPLAY_DIR, exist_ok=True)
        seen_new = set()
        for v in new:
            if v['key'] in seen_new:
                continue
            seen_new.add(v['key'])
            h = hashlib.sha1(v['key'].encode()).hexdigest()[:12]
            path = os.path.join(REPLAY_DIR, '%s-%s.json' % (self.prop, h))
            with open(path, 'w') as f:
                json.dump(dict(property=self.prop, tier=self.tier, repo_root=self.repo_root, **v), f, indent=1)
            lines.append('VIOLATION property=%s replay=%s' % (self.prop, path))
            lines.append('  %s:%s in %s' % (v['file'], v['line'], v['qualname']))
            lines.append('  rule %s: %s' % (v['rule'], v['message']))
            lines.append('  construct: %s' % v['construct'][:300])
            if v.get('witness'):
                lines.append('  witness: %s' % str(v['witness'])[:400])
        n_ok = sum(1 for o in self.obligations if o['verdict'] == 'ok')
        n_all = sum(1 for o in self.obligations if o['verdict'] in ('ok', 'violation'))
        wall = time.time() - self.t0
        distinct = len({(o['rule'], o['qualname'], o['instance']) for o in self.obligations if o['verdict'] in ('ok', 'violation')})
        explanation = ('Static analysis (ast only; the repo is parsed, never imported or run). '
                       'DECIDED clauses: ' + ' '.join(self.decided) + ' UNDECIDED (static n/a): ' + ' '.join(self.undecided))
        samples = ['%s %s %s :: %s -> %s%s' % (o['where'], o['qualname'], o['rule'], o['instance'][:160], o['verdict'],
                                                 (' (' + o['detail'][:120] + ')') if o['detail'] else '')
                   for o in self.obligations[:400]]
        ev = dict(
            property_id=self.prop, tier=self.tier, seed=int(seed), level='other',
            coverage=dict(
                explanation=explanation,
                obligations=n_all, discharged=n_ok,
                evaluations=max(len(self.obligations), 1),
                distinct_nontrivial=distinct,
                rule='one obligation per (rule, construct) instance found in the parsed sources of %s; an instance is '
                     'non-trivial when it matched a real construct (call site, assignment, loop, table row set); distinct by '
                     '(rule, qualified name, normalised construct text)' % self.repo_root,
                samples=samples,
                exhaustive=True,
                per_rule_instances=self.rule_counts, floors=self.floors, tables=self.tables,
                selftest=[dict(name=a, expected=b, got=c, ok=d) for a, b, c, d in self.selftest],
                infos=['%s %s %s' % i for i in self.infos][:100],
                known_findings=sorted(seen_known), new_violations=sorted(seen_new),
                mutation_sweep=self.sweep,
                checker_cmd='/venv/bin/python -m aylint check %s --tier %s' % (self.prop, self.tier),
                trusted_base=self.trusted,
            ),
            assumptions=self.assumptions,
            wall_s=round(wall, 3),
            violations=len(seen_new),
        )
        os.makedirs(EVIDENCE_DIR, exist_ok=True)
        with open(os.path.join(EVIDENCE_DIR, '%s.json' % self.prop), 'w') as f:
            json.dump(ev, f, indent=1, sort_keys=True)
        if not self.quiet and self.sweep:
            st = self.sweep['stats']
            print('%s [thorough] mutation sweep over %d functions: %d mutants, killed=%d no-verdict=%d survived=%d' % (
                self.prop, self.sweep['functions'], self.sweep['mutants'], st.get('killed', 0), st.get('no-verdict', 0), st.get('survived', 0)))
        if not self.quiet:
            skipped = sum(1 for s in self.selftest if str(s[2]).startswith('skipped'))
            print('%s [%s] rules=%d obligations=%d discharged=%d known=%d new=%d selftest=%d/%d%s wall=%.2fs' % (
                self.prop, self.tier, len(self.rule_counts), n_all, n_ok, len(seen_known), len(seen_new),
                sum(1 for s in self.selftest if s[3]) - skipped, len(self.selftest), ' (%d not applicable to this tree)' % skipped if skipped else '', wall))
            for l in lines:
                print(l)
        return 1 if seen_new else 0
