"""In-memory mutants of the *current* tree, used only to validate the checker itself (DESIGN section 8):
every rule must fire on a variant of today's sources with one instance broken and stay silent on
behaviour-preserving edits.  Nothing is written to disk; a Repo is re-parsed from the modified text.
"""
import ast

from .srcmodel import unparse


class NotApplicable(Exception):
    """the mutation operator does not apply to the current tree (counted as skipped)"""


def _func_span(fi):
    n = fi.node
    start = n.lineno
    if getattr(n, 'decorator_list', None):
        start = min(start, min(d.lineno for d in n.decorator_list))
    return start, n.end_lineno


def in_func(repo, qualname, old, new, count=1):
    """replace `old` by `new` inside the source of function `qualname`; returns {relpath: text}"""
    if not repo.has_func(qualname):
        raise NotApplicable('no function ' + qualname)
    fi = repo.func(qualname)
    m = fi.module
    a, b = _func_span(fi)
    lines = m.lines
    seg = '\n'.join(lines[a - 1:b]) + '\n'
    if seg.count(old) < 1 or (count is not None and seg.count(old) != count):
        raise NotApplicable('%r occurs %d times in %s (wanted %s)' % (old, seg.count(old), qualname, count))
    seg2 = seg.replace(old, new)
    if seg2.endswith('\n'):
        seg2 = seg2[:-1]
    text = '\n'.join(lines[:a - 1] + seg2.split('\n') + lines[b:])
    ast.parse(text)
    return {m.relpath: text}


def rename_local(repo, qualname, old, new):
    """rename a local variable (whole-word occurrences of `old`) inside the source of function `qualname`"""
    import re
    if not repo.has_func(qualname):
        raise NotApplicable('no function ' + qualname)
    fi = repo.func(qualname)
    m = fi.module
    a, b = _func_span(fi)
    lines = m.lines
    seg = '\n'.join(lines[a - 1:b])
    seg2 = re.sub(r'(?<![\w.])%s\b' % re.escape(old), new, seg)
    if seg2 == seg:
        raise NotApplicable('%r does not occur in %s' % (old, qualname))
    text = '\n'.join(lines[:a - 1] + seg2.split('\n') + lines[b:])
    ast.parse(text)
    return {m.relpath: text}


def in_module(repo, short, old, new, count=1):
    m = repo.module(short)
    if m.text.count(old) < 1 or (count is not None and m.text.count(old) != count):
        raise NotApplicable('%r occurs %d times in %s (wanted %s)' % (old, m.text.count(old), short, count))
    text = m.text.replace(old, new)
    ast.parse(text)
    return {m.relpath: text}


def delete_stmt(repo, qualname, pred):
    """replace the first statement of function `qualname` (searched recursively) for which
    pred(unparsed text) holds by `pass`"""
    if not repo.has_func(qualname):
        raise NotApplicable('no function ' + qualname)
    fi = repo.func(qualname)
    m = fi.module
    for n in ast.walk(fi.node):
        if isinstance(n, ast.stmt) and n is not fi.node and pred(unparse(n)):
            lines = list(m.lines)
            indent = lines[n.lineno - 1][:n.col_offset]
            lines[n.lineno - 1:n.end_lineno] = [indent + 'pass']
            text = '\n'.join(lines)
            ast.parse(text)
            return {m.relpath: text}
    raise NotApplicable('no matching statement in ' + qualname)


def merge(*ovs):
    out = {}
    for o in ovs:
        for k, v in o.items():
            if k in out:
                raise NotApplicable('two edits to one file are not composed')
            out[k] = v
    return out


class Mutant:
    def __init__(self, name, build, expect_rules=(), neutral=False, note=''):
        self.name = name
        self.build = build            # repo -> overrides
        self.expect_rules = tuple(expect_rules)   # rule ids that must report (any of)
        self.neutral = neutral        # behaviour-preserving edit: no rule may fire, no analysis error
        self.note = note
