"""E8 - path-sensitive abstract interpreter ("tracer").

Enumerates the structural paths of a function (if/else: both arms unless the test folds to a constant;
loops: zero or one iteration; try: normal, or exception at a call-bearing statement into each handler;
conditional expressions fork like if) and interprets every path over *canonical symbolic values*:

  * a value is an expression AST in which every local name has been replaced by the value it was bound to
    (so renaming locals, splitting/merging assignments and introducing temporaries do not change it);
  * calls that resolve to repo functions on `self` / super() / an explicit base class, to module-level
    functions of the package and to local closures are **inlined** (bounded depth, recursion guarded) - so
    extracting or inlining helpers does not change the trace; everything else is recorded as a call event;
  * branch decisions are recorded as facts (condition text after substitution, polarity, decomposed into
    conjunct atoms), so inverting if/else arms or replacing early returns by else branches is invisible.

A path is a list of events (call / with-enter / with-exit / store / return / raise / yield) plus its facts.
Rules are predicates over these traces ("on every path a gate event precedes every sink event",
"the returned value is the result of that call", "between with-enter and with-exit", ...).
No repo code is imported or executed; values are symbolic.
"""
import ast
import copy

from .report import AnalysisError
from .srcmodel import unparse, norm
from . import cfg as cfgmod

NOCONST = object()
TOUCHED = set()      # qualnames of the functions interpreted (traced or inlined) since the last reset - used by the thorough sweep


def clone(node):
    """structural copy of an AST (fields only - the source trees carry _parent back links that copy.deepcopy
    would follow through the whole module)"""
    if isinstance(node, ast.AST):
        new = type(node)()
        for f in node._fields:
            if hasattr(node, f):
                setattr(new, f, clone(getattr(node, f)))
        for a in ('lineno', 'col_offset', 'end_lineno', 'end_col_offset'):
            if hasattr(node, a):
                setattr(new, a, getattr(node, a))
        return new
    if isinstance(node, list):
        return [clone(x) for x in node]
    return node


SIZE_LIMIT = 160


class Val:
    __slots__ = ('ast', 'tags', 'const', 'elems', 'closure', '_text', 'size', 'fields', 'items', 'partial', 'obj', 'bound', 'recv', 'decided')

    def __init__(self, node, tags=frozenset(), const=NOCONST, elems=None, closure=None, parts=None, site=None):
        """parts: the component values the node was built from (their sizes bound the size of this value; a value
        that grows beyond SIZE_LIMIT nodes is abbreviated to an opaque symbol named after its source position, so
        that repeated substitution cannot blow up)"""
        if parts is None:
            size = sum(1 for _ in ast.walk(node)) if not isinstance(node, (ast.Name, ast.Constant)) else 1
        else:
            size = 1 + sum(x.size for x in parts if x is not None)
        if size > SIZE_LIMIT:
            import zlib
            node = ast.Name(id='$big_%08x' % zlib.crc32(norm(node).encode()), ctx=ast.Load())
            size = 1
        self.ast = node
        self.size = size
        self.tags = frozenset(tags)
        self.const = const
        self.elems = elems
        self.closure = closure
        self._text = None
        self.fields = None      # record (namedtuple) value: field names, positions as in elems
        self.items = None       # dict display: [(key Val, value Val)]
        self.partial = None     # functools.partial(f, *a, **k): ([a...], {k...}) bound ahead of the call's own arguments
        self.obj = None         # (class name, object number): an instance of a private helper class created on this path (attributes: Path.heap)
        self.bound = False      # a method value whose receiver is partial[0][0]
        self.recv = None        # value of `x` for an attribute value `x.attr`
        self.decided = None     # True / False when this very value object is the result of a test the path has decided

    @property
    def text(self):
        if self._text is None:
            self._text = norm(self.ast)
        return self._text

    def with_tags(self, tags):
        v = Val(self.ast, self.tags | frozenset(tags), self.const, self.elems, self.closure, parts=[self])
        v.fields, v.items, v.partial, v.obj, v.bound = self.fields, self.items, self.partial, self.obj, self.bound
        return v

    def __repr__(self):
        return 'Val(%s)' % self.text


def const_val(x):
    return Val(ast.Constant(value=x), const=x)


class EnumConst:
    """member of a private Enum class of the package, as a constant: two of them are the same object iff class and name agree"""
    __slots__ = ('cls', 'name')

    def __init__(self, cls, name):
        self.cls, self.name = cls, name

    def __eq__(self, other):
        return isinstance(other, EnumConst) and (self.cls, self.name) == (other.cls, other.name)

    def __hash__(self):
        return hash((self.cls, self.name))

    def __repr__(self):
        return '%s.%s' % (self.cls, self.name)


def _known(p, t, source=None):
    """truth of a test the path has already decided: the very same (side-effect free) expression was branched on before.
    `source` is the test as written: when it calls nothing itself (it only names values computed before), the calls that appear in
    the substituted text are those earlier values, not new calls"""
    if t is not None and getattr(t, 'decided', None) is not None:
        return t.decided
    if t is not None and source is not None and 'mutated' not in t.tags and not any(isinstance(n, (ast.Call, ast.Await, ast.Yield, ast.YieldFrom, ast.NamedExpr, ast.Attribute, ast.Subscript)) for n in ast.walk(source)):
        for ft, pol in reversed(p.facts):
            if ft == t.text:
                return pol
        return None
    if t is None or any(isinstance(n, (ast.Call, ast.Await, ast.Yield, ast.YieldFrom, ast.NamedExpr)) and not (isinstance(n, ast.Call) and isinstance(n.func, ast.Name) and n.func.id in ('isinstance', 'issubclass', 'callable', 'type', 'id')) for n in ast.walk(t.ast)):
        return None
    if 'mutated' in t.tags:
        return None
    txt = t.text
    for ft, pol in reversed(p.facts):
        if ft == txt:
            return pol
    return None


class Event:
    __slots__ = ('kind', 'callee', 'attr', 'recv', 'args', 'kw', 'node', 'fn', 'facts', 'value', 'target', 'depth', 'result', 'in_loop', 'heap')

    def __init__(self, kind, **kw):
        self.kind = kind
        self.callee = self.attr = self.recv = self.node = self.fn = self.value = self.target = self.result = None
        self.args = []
        self.kw = {}
        self.facts = ()
        self.depth = 0
        self.in_loop = False
        self.heap = None     # attributes of the local objects among the arguments, as they were when the call was made
        for k, v in kw.items():
            setattr(self, k, v)

    def __repr__(self):
        if self.kind == 'call':
            return 'call %s(%s)' % (self.callee, ', '.join(a.text for a in self.args))
        if self.kind in ('return', 'raise', 'yield'):
            return '%s %s' % (self.kind, self.value.text if self.value is not None else '')
        if self.kind == 'store':
            return 'store %s = %s' % (self.target, self.value.text if self.value is not None else '')
        return '%s %s' % (self.kind, self.callee or '')


class Path:
    def __init__(self):
        self.env = {}
        self.events = []
        self.facts = []      # (text, polarity)
        self.status = None   # None running / 'return' / 'raise' / 'break' / 'continue'
        self.ret = None
        self.loop = 0
        self.heap = {}       # object number -> {attribute: Val}; None = the object escaped to code that was not interpreted

    budget = None   # shared mutable [remaining forks]; set by the Tracer

    def fork(self):
        if Path.budget is not None:
            Path.budget[0] -= 1
            if Path.budget[0] < 0:
                raise AnalysisError('tracer: fork budget exhausted (function too large for path enumeration)')
        p = Path()
        p.env = dict(self.env)
        p.events = list(self.events)
        p.facts = list(self.facts)
        p.status = self.status
        p.ret = self.ret
        p.loop = self.loop
        p.heap = {k: (dict(v) if v is not None else None) for k, v in self.heap.items()}
        return p

    def has_fact(self, text, polarity):
        return (text, polarity) in self.facts

    def calls(self, pred=None):
        return [e for e in self.events if e.kind == 'call' and (pred is None or pred(e))]


class Tracer:
    def __init__(self, repo, no_inline=(), inline_extra=(), max_paths=6000, max_depth=4, follow_exceptions=True, mark_carried=False):
        self.repo = repo
        self.mark_carried = mark_carried
        self.no_inline = set(no_inline)
        self.inline_extra = set(inline_extra)
        self.max_paths = max_paths
        self.max_depth = max_depth
        self.follow_exceptions = follow_exceptions
        self._stack = []
        self._root_cls = None
        self._ovr = {}
        self.iter_hook = None          # callable(loop statement, path) at the end of every interpreted while-iteration that goes round again
        self._consumers = []           # for statements whose iterable (a generator function) is being interpreted
        self._pending_consumer = None
        self._eager = set()            # call nodes whose value is consumed at once by an enclosing call

    # ------------------------------------------------------------------------------------------
    def trace(self, fi, args=None, upto=None):
        """all paths of function fi; parameters are bound to symbolic values named after themselves
        (upto: a top-level statement of the body - the trace stops after it)"""
        p = Path()
        a = fi.node.args
        names = [x.arg for x in a.posonlyargs + a.args] + [x.arg for x in a.kwonlyargs]
        for i, n in enumerate(names):
            p.env[n] = (args or {}).get(n) or Val(ast.Name(id=n, ctx=ast.Load()), tags={'param:%s' % n})
        if a.vararg:
            p.env[a.vararg.arg] = Val(ast.Name(id=a.vararg.arg, ctx=ast.Load()), tags={'vararg'})
        if a.kwarg:
            p.env[a.kwarg.arg] = Val(ast.Name(id=a.kwarg.arg, ctx=ast.Load()), tags={'kwarg'})
        self._stack = [fi.qualname]
        TOUCHED.add(fi.qualname)
        self._root_cls = fi.cls.name if fi.cls is not None else None
        Path.budget = [self.max_paths * 4]
        body = fi.node.body
        if upto is not None:
            if not any(st is upto for st in body):
                raise AnalysisError('tracer: statement to stop at is not a top-level statement of %s' % fi.qualname)
            body = body[:[i for i, st in enumerate(body) if st is upto][0] + 1]
        try:
            paths = self._block(body, [p], fi, 0)
        finally:
            Path.budget = None
        for q in paths:
            if q.status is None:
                q.status = 'return' if upto is None else 'cut'
                q.ret = const_val(None)
                q.events.append(Event('return', value=q.ret, fn=fi.qualname, facts=tuple(q.facts)))
        return paths

    # ------------------------------------------------------------------------------------------
    def _block(self, stmts, paths, fi, depth):
        for s in stmts:
            nxt = []
            for p in paths:
                if p.status is not None:
                    nxt.append(p)
                else:
                    nxt.extend(self._stmt(s, p, fi, depth))
            paths = nxt
            if len(paths) > self.max_paths:
                raise AnalysisError('tracer: path explosion in %s (> %d paths)' % (fi.qualname, self.max_paths))
        return paths

    def _stmt(self, s, p, fi, depth):
        if isinstance(s, _Deferred):
            if s.fact is not None:
                # the name bound by `if (x := <pure test>)` holds the value of the test: true on this branch / false on the other
                v_ = Val(self._sub(s.fact[1], p))
                v_.decided = s.fact[2]       # (this very value object exists on this branch only)
                p.env[s.fact[0]] = v_
                if (v_.text, s.fact[2]) not in p.facts:
                    p.facts.append((v_.text, s.fact[2]))
                return [p]
            return self._branch(s.test, s.body, s.orelse, p, fi, depth)
        if isinstance(s, ast.Expr):
            if isinstance(s.value, ast.Constant):
                return [p]
            if isinstance(s.value, ast.Yield) and self._consumers and self._consumers[-1]['gen'] is fi and '$consumer_env' in p.env:
                # the generator is being consumed by a for statement of its caller: the loop body runs here, in the caller's scope
                c = self._consumers[-1]
                res = []
                for q, v in (self._expr(s.value.value, p, fi, depth) if s.value.value is not None else [(p, const_val(None))]):
                    if q.status is not None:
                        res.append(q)
                        continue
                    gen_env = q.env
                    q.env = dict(gen_env['$consumer_env'].elems_env)
                    self._bind(c['stmt'].target, v, q, c['fi'], c['stmt'])
                    self._consumers.pop()
                    try:
                        body = self._block(c['stmt'].body, [q], c['fi'], c['depth'])
                    finally:
                        self._consumers.append(c)
                    for r in body:
                        g2 = dict(gen_env)
                        g2['$consumer_env'] = _EnvBox(r.env)
                        r.env = g2
                        if r.status == 'continue':
                            r.status = None
                        elif r.status == 'break':
                            r.status = 'genbreak'
                        elif r.status == 'return':
                            r.status = 'genreturn'
                        res.append(r)
                return res
            if isinstance(s.value, (ast.Yield, ast.YieldFrom)):
                outs = self._expr(s.value.value, p, fi, depth) if s.value.value is not None else [(p, const_val(None))]
                for q, v in outs:
                    q.events.append(Event('yield', value=v, node=s, fn=fi.qualname, facts=tuple(q.facts)))
                return [q for q, _ in outs]
            return [q for q, _ in self._expr(s.value, p, fi, depth)]
        if isinstance(s, ast.Assign):
            outs = []
            for q, v in self._expr(s.value, p, fi, depth):
                if q.status != 'raise':     # an inlined callee raised: nothing is bound, the exception propagates
                    for t in s.targets:
                        self._bind(t, v, q, fi, s)
                outs.append(q)
            return outs
        if isinstance(s, ast.AnnAssign):
            if s.value is None:
                return [p]
            outs = []
            for q, v in self._expr(s.value, p, fi, depth):
                if q.status != 'raise':
                    self._bind(s.target, v, q, fi, s)
                outs.append(q)
            return outs
        if isinstance(s, ast.AugAssign):
            outs = []
            cur = ast.BinOp(left=clone(s.target), op=s.op, right=s.value)
            for q, v in self._expr(cur, p, fi, depth):
                if q.status != 'raise':
                    self._bind(s.target, v, q, fi, s)
                outs.append(q)
            return outs
        if isinstance(s, ast.Return):
            outs = []
            for q, v in (self._expr(s.value, p, fi, depth) if s.value is not None else [(p, const_val(None))]):
                if q.status == 'raise':
                    outs.append(q)
                    continue
                q.status = 'return'
                q.ret = v
                q.events.append(Event('return', value=v, node=s, fn=fi.qualname, facts=tuple(q.facts), depth=depth))
                outs.append(q)
            return outs
        if isinstance(s, ast.Raise):
            outs = []
            for q, v in (self._expr(s.exc, p, fi, depth) if s.exc is not None else [(p, Val(ast.Name(id='<reraise>', ctx=ast.Load())))]):
                q.status = 'raise'
                q.ret = v
                cause = None
                if s.cause is not None:
                    cause = self._sub(s.cause, q) if not isinstance(s.cause, ast.Name) or s.cause.id not in q.env else q.env[s.cause.id].ast
                q.events.append(Event('raise', value=v, node=s, fn=fi.qualname, facts=tuple(q.facts), depth=depth, target=norm(cause) if cause is not None else None))
                outs.append(q)
            return outs
        if isinstance(s, ast.If):
            return self._branch(s.test, s.body, s.orelse, p, fi, depth)
        if isinstance(s, (ast.For, ast.AsyncFor)):
            outs = []
            # a loop whose body only appends to local accumulators is a comprehension in disguise: it is summarised by
            # its one-iteration form alone (the empty case adds no events and would only lose the elements' provenance)
            pure_acc = not s.orelse and all(isinstance(st, ast.Expr) and ((isinstance(st.value, ast.Call) and isinstance(st.value.func, ast.Attribute)
                                                                          and st.value.func.attr in ('append', 'add') and isinstance(st.value.func.value, ast.Name))
                                                                         or (isinstance(st.value, ast.Yield) and not self._consumers)) for st in s.body)
            consumed = isinstance(s.iter, ast.Call) and not isinstance(s, ast.AsyncFor)
            if consumed:
                self._pending_consumer = {'stmt': s, 'fi': fi, 'depth': depth, 'used': False}
            try:
                if isinstance(s.iter, ast.Name) and s.iter.id not in p.env and isinstance(fi.module.frozen_display(s.iter.id), (ast.Tuple, ast.List)) \
                        and any(isinstance(x, (ast.Name, ast.Lambda, ast.Tuple)) for x in fi.module.frozen_display(s.iter.id).elts):
                    iters = [(p, self._module_table(fi.module, s.iter.id))]       # a module-level table of handlers: unrolled below
                else:
                    iters = self._expr(s.iter, p, fi, depth)
                consumed = consumed and self._pending_consumer is not None and self._pending_consumer['used']
            finally:
                self._pending_consumer = None
            if consumed:
                # the iterable was a generator function of the package: its body has been interpreted with the loop body
                # run at every yield (see the yield hook above)
                for q, _ in iters:
                    if q.status == 'genbreak':
                        q.status = None
                        outs.append(q)
                    elif q.status == 'genreturn':
                        q.status = 'return'
                        outs.append(q)
                    elif q.status is None:
                        outs.extend(self._block(s.orelse, [q], fi, depth))
                    else:
                        outs.append(q)
                return outs
            for q, it in iters:
                if it.elems is not None and 1 <= len(it.elems) <= 6 and isinstance(it.ast, (ast.Tuple, ast.List)) and 'maybe-empty' not in it.tags \
                        and not any(isinstance(x.ast, ast.Starred) for x in it.elems):
                    # a literal sequence (`for cache in (self._a, self._b): ...`, `for test, handler in ((A, f), (B, g)): ...`):
                    # unrolled exactly, so that the loop is the same as its statements written out
                    cur = [q]
                    for el in it.elems:
                        nxt = []
                        for r in cur:
                            self._bind(s.target, el, r, fi, s)
                            for r2 in self._block(s.body, [r], fi, depth):
                                if r2.status == 'break':
                                    r2.status = None
                                    outs.append(r2)
                                elif r2.status in (None, 'continue'):
                                    r2.status = None
                                    nxt.append(r2)
                                else:
                                    outs.append(r2)
                        cur = nxt
                    outs.extend(self._block(s.orelse, cur, fi, depth))
                    continue
                # (the loop reads its iterable whether or not there are elements: recorded as an event of its own)
                q.events.append(Event('iter', callee=it.text, value=it, node=s, fn=fi.qualname, facts=tuple(q.facts), depth=depth))
                if not pure_acc:
                    zero = q.fork()
                    outs.extend(self._block(s.orelse, [zero], fi, depth))
                one = q.fork()
                one.loop += 1
                if self.mark_carried:
                    # loop-carried locals (assigned in the body, live at entry) are wrapped, so that a rule can tell
                    # `acc = f(acc, x)` (uses the carried value) from `acc = f(init, x)` after a single iteration
                    for nm in {n.id for st in s.body for n in ast.walk(st) if isinstance(n, ast.Name) and isinstance(n.ctx, ast.Store)}:
                        if nm in one.env:
                            cur = one.env[nm]
                            one.env[nm] = Val(ast.Call(func=ast.Name(id='carried', ctx=ast.Load()), args=[cur.ast], keywords=[]), tags=cur.tags)
                each = Val(ast.Call(func=ast.Name(id='each', ctx=ast.Load()), args=[it.ast], keywords=[]), tags=it.tags)
                self._bind(s.target, each, one, fi, s)
                env_before = dict(one.env) if pure_acc else None
                for r in self._block(s.body, [one], fi, depth):
                    r.loop -= 1
                    if pure_acc:
                        for nm, v_ in list(r.env.items()):
                            if nm.startswith('$'):
                                continue
                            if env_before.get(nm) is not v_ and isinstance(v_.ast, (ast.List, ast.Set)):
                                r.env[nm] = Val(v_.ast, tags=frozenset(v_.tags) | {'maybe-empty'}, elems=v_.elems)
                    if r.status in ('break',):
                        r.status = None
                        outs.append(r)
                    elif r.status == 'continue' or r.status is None:
                        r.status = None
                        outs.extend(self._block(s.orelse, [r], fi, depth))
                    else:
                        outs.append(r)
            return outs
        if isinstance(s, ast.While):
            outs = []
            const_true = isinstance(s.test, ast.Constant) and bool(s.test.value)
            for q, t in self._expr(s.test, p, fi, depth):
                if not const_true:
                    zero = q.fork()
                    self._add_fact(zero, t, False)
                    outs.extend(self._block(s.orelse, [zero], fi, depth))
                one = q.fork()
                one.loop += 1
                if self.mark_carried:
                    for nm in {n.id for st in s.body for n in ast.walk(st) if isinstance(n, ast.Name) and isinstance(n.ctx, ast.Store)}:
                        if nm in one.env:
                            cur = one.env[nm]
                            one.env[nm] = Val(ast.Call(func=ast.Name(id='carried', ctx=ast.Load()), args=[cur.ast], keywords=[]), tags=cur.tags)
                if not const_true:
                    self._add_fact(one, t, True)
                if not const_true:
                    pure_test = all(isinstance(c_.func, ast.Name) and c_.func.id in ('isinstance', 'len', 'hasattr', 'callable', 'id', 'type') for c_ in ast.walk(s.test) if isinstance(c_, ast.Call))
                    for r in self._block(s.body, [one], fi, depth):
                        r.loop -= 1
                        if self.iter_hook is not None and r.status in (None, 'continue'):
                            self.iter_hook(s, r)
                        if pure_test and r.status in (None, 'continue'):
                            # the loop is left after this iteration: its test is false on the values the iteration produced
                            n_ev = len(r.events)
                            try:
                                again = self._expr(s.test, r, fi, depth)
                            except AnalysisError:
                                again = []
                            if len(again) == 1 and again[0][0] is r:
                                del r.events[n_ev:]
                                self._add_fact(r, again[0][1], False)
                        if r.status in ('break', 'continue') or r.status is None:
                            r.status = None
                            outs.append(r)
                        else:
                            outs.append(r)
                else:
                    # `while True`: the loop is left by break / return / raise only.  Two iterations are unrolled; a path that is
                    # still inside the loop after the second one is cut (it is a prefix of longer executions, not an exit)
                    cur = [one]
                    for _round in (1, 2):
                        nxt = []
                        for r in self._block(s.body, cur, fi, depth):
                            if r.status == 'break':
                                r.loop -= 1
                                r.status = None
                                outs.append(r)
                            elif r.status in (None, 'continue'):
                                r.status = None
                                nxt.append(r)
                            else:
                                r.loop -= 1
                                outs.append(r)
                        cur = nxt
                        if len(cur) > self.max_paths:
                            raise AnalysisError('tracer: path explosion in a `while True` loop of %s' % fi.qualname)
            return outs
        if isinstance(s, (ast.With, ast.AsyncWith)):
            cur = [p]
            entered = []
            for it in s.items:
                nxt = []
                for q in cur:
                    for r, v in self._expr(it.context_expr, q, fi, depth):
                        r.events.append(Event('with_enter', callee=v.text, value=v, node=it.context_expr, fn=fi.qualname, facts=tuple(r.facts), depth=depth))
                        if it.optional_vars is not None:
                            self._bind(it.optional_vars, Val(ast.Call(func=ast.Name(id='entered', ctx=ast.Load()), args=[v.ast], keywords=[]), tags=v.tags), r, fi, s)
                        nxt.append(r)
                cur = nxt
            outs = self._block(s.body, cur, fi, depth)
            for r in outs:
                for it in reversed(s.items):
                    r.events.append(Event('with_exit', callee=norm(it.context_expr), node=it.context_expr, fn=fi.qualname, depth=depth))
            return outs
        if isinstance(s, ast.Try) or type(s).__name__ == 'TryStar':
            return self._try(s, p, fi, depth)
        if isinstance(s, ast.Assert):
            outs = []
            for q, t in self._expr(s.test, p, fi, depth):
                self._add_fact(q, t, True)
                outs.append(q)
            return outs
        if isinstance(s, (ast.FunctionDef, ast.AsyncFunctionDef)):
            nested = fi.nested().get(s.name)
            if nested is None:
                from .srcmodel import FuncInfo
                nested = FuncInfo(s, fi.module, fi.cls, fi.ayns, outer=fi)
            p.env[s.name] = Val(ast.Name(id=s.name, ctx=ast.Load()), closure=(nested, dict(p.env)))
            return [p]
        if isinstance(s, ast.Delete):
            for t in s.targets:
                for q, v in self._expr(t, p, fi, depth, store=True):
                    q.events.append(Event('store', target='del ' + v.text, value=None, node=s, fn=fi.qualname, facts=tuple(q.facts), depth=depth))
            return [p]
        if isinstance(s, ast.Break):
            p.status = 'break'
            return [p]
        if isinstance(s, ast.Continue):
            p.status = 'continue'
            return [p]
        if isinstance(s, (ast.Pass, ast.Import, ast.ImportFrom, ast.Global, ast.Nonlocal, ast.ClassDef)):
            return [p]
        raise AnalysisError('tracer: statement %s not supported (%s)' % (type(s).__name__, fi.qualname))

    def _try(self, s, p, fi, depth):
        # normal completion of the body (+ else), exceptional exits at every call-bearing statement -> handlers
        exc_points = []
        cur = [p]
        for st in s.body:
            nxt = []
            for q in cur:
                if q.status is not None:
                    nxt.append(q)
                    continue
                if self.follow_exceptions and (_has_call(st) or _may_raise_lookup(st, s.handlers) or (getattr(fi, 'is_contextmanager', False) and not isinstance(st, _Deferred) and any(isinstance(y_, ast.Yield) for y_ in ast.walk(st)))) \
                        and (s.handlers or s.finalbody):
                    # the exception is raised by a call of this statement: its calls are recorded (the statement's own
                    # bindings do not happen), then control moves to the handlers
                    before = q.fork()
                    try:
                        partial = self._stmt(st, q.fork(), fi, depth)
                    except AnalysisError:
                        partial = [before.fork()]
                    seen_ev = set()
                    for r in partial:
                        k = tuple(id(e_.node) for e_ in r.events[len(before.events):])
                        if k in seen_ev:
                            continue
                        seen_ev.add(k)
                        r.env = dict(before.env)
                        r.status = None
                        r.ret = None
                        # facts established while the statement ran are kept: the events recorded with them stay interpretable
                        r.events.append(Event('exc', node=st, fn=fi.qualname, depth=depth))
                        exc_points.append(r)
                nxt.extend(self._stmt(st, q, fi, depth))
            cur = nxt
        outs = []
        raised_inside = [q for q in cur if q.status == 'raise']
        normal = [q for q in cur if q.status != 'raise']
        outs.extend(self._block(s.orelse, [q for q in normal if q.status is None], fi, depth))
        outs.extend(q for q in normal if q.status is not None)
        handled = []
        for q in exc_points + raised_inside:
            for h in s.handlers:
                r = q.fork()
                r.status = None
                r.facts.append(('exception:%s' % (norm(h.type) if h.type is not None else 'BaseException'), True))
                if h.name:
                    r.env[h.name] = Val(ast.Name(id='caught_exception', ctx=ast.Load()), tags={'exception'})
                handled.extend(self._block(h.body, [r], fi, depth))
        if not s.handlers:
            handled.extend(raised_inside)
            for q in exc_points:        # try / finally: the exception passes through the finally block
                q.status = 'raise'
                q.ret = Val(ast.Name(id='<exception>', ctx=ast.Load()))
                q.facts.append(('exception:propagates', True))
                handled.append(q)
        outs.extend(handled)
        if s.finalbody:
            fin = []
            for q in outs:
                st = q.status, q.ret
                q.status = None
                for r in self._block(s.finalbody, [q], fi, depth):
                    if r.status is None:
                        r.status, r.ret = st
                    fin.append(r)
            outs = fin
        if len(outs) > self.max_paths:
            raise AnalysisError('tracer: path explosion in %s' % fi.qualname)
        return outs

    def _branch(self, test, body, orelse, p, fi, depth):
        # short-circuit operators in a branch condition are desugared into nested branches, so that every path
        # carries atomic facts:  if A and B: X else: Y  ==  if A: (if B: X else: Y) else: Y
        if isinstance(test, ast.UnaryOp) and isinstance(test.op, ast.Not):
            return self._branch(test.operand, orelse, body, p, fi, depth)
        if isinstance(test, ast.Compare) and len(test.ops) == 1 and isinstance(test.ops[0], (ast.Is, ast.IsNot)) and isinstance(test.comparators[0], ast.Constant) \
                and test.comparators[0].value in (True, False) and isinstance(test.comparators[0].value, bool):
            # `B is True` / `B is False` for an expression B that is a bool by construction (a comparison, a negation, isinstance / hasattr
            # / callable, or a local bound to one): the test is B itself (what desugared `case True, False:` patterns produce)
            left = self._sub(test.left, p) if isinstance(test.left, ast.Name) and test.left.id in p.env else test.left
            is_bool = isinstance(left, ast.Compare) or (isinstance(left, ast.UnaryOp) and isinstance(left.op, ast.Not)) or \
                (isinstance(left, ast.Call) and isinstance(left.func, ast.Name) and left.func.id in ('isinstance', 'hasattr', 'callable', 'issubclass', 'bool'))
            if is_bool:
                positive = (test.comparators[0].value is True) == isinstance(test.ops[0], ast.Is)
                return self._branch(test.left, body, orelse, p, fi, depth) if positive else self._branch(test.left, orelse, body, p, fi, depth)
        if isinstance(test, ast.NamedExpr) and isinstance(test.target, ast.Name) and isinstance(test.value, (ast.BoolOp, ast.UnaryOp, ast.Compare)) \
                and not any(isinstance(n, (ast.Call, ast.NamedExpr, ast.Await, ast.Yield, ast.YieldFrom)) and not (isinstance(n, ast.Call) and isinstance(n.func, ast.Name) and n.func.id in ('isinstance', 'issubclass', 'callable')) for n in ast.walk(test.value)):
            # if (x := A and B): ...   - the test is decided atom by atom, and x is bound to the (pure) test on both branches
            t_ = _Deferred(None, None, None, fact=(test.target.id, test.value, True))
            f_ = _Deferred(None, None, None, fact=(test.target.id, test.value, False))
            return self._branch(test.value, [t_] + list(body), [f_] + list(orelse), p, fi, depth)
        if isinstance(test, ast.BoolOp) and len(test.values) >= 2:
            first, rest = test.values[0], test.values[1:]
            rest_test = rest[0] if len(rest) == 1 else ast.BoolOp(op=test.op, values=rest)
            inner = _Deferred(rest_test, body, orelse)
            if isinstance(test.op, ast.And):
                return self._branch(first, [inner], orelse, p, fi, depth)
            return self._branch(first, body, [inner], p, fi, depth)
        outs = []
        for q, t in self._expr(test, p, fi, depth):
            c = _truth(t)
            if c is None:
                c = _known(q, t, test)
            if c is True:
                outs.extend(self._block(body, [q], fi, depth))
            elif c is False:
                outs.extend(self._block(orelse, [q], fi, depth))
            else:
                a = q.fork()
                self._add_fact(a, t, True)
                outs.extend(self._block(body, [a], fi, depth))
                b = q
                self._add_fact(b, t, False)
                outs.extend(self._block(orelse, [b], fi, depth))
        return outs

    def _add_fact(self, p, tval, polarity):
        p.facts.append((tval.text, polarity))
        for a, pol in cfgmod.cond_facts(tval.ast, polarity):
            if (a, pol) not in p.facts:
                p.facts.append((a, pol))
        # negative comparisons are also recorded in their positive form with the polarity flipped
        # (`x is not None` true  ==  `x is None` false), so that rules can match one spelling
        n = tval.ast
        while isinstance(n, ast.UnaryOp) and isinstance(n.op, ast.Not):
            n, polarity = n.operand, not polarity
        if isinstance(n, ast.Compare) and len(n.ops) == 1 and type(n.ops[0]) in _POSITIVE:
            pos = ast.Compare(left=n.left, ops=[_POSITIVE[type(n.ops[0])]()], comparators=n.comparators)
            f = (norm(pos), not polarity)
            if f not in p.facts:
                p.facts.append(f)

    def trace_closure(self, val, fi=None, heap=None):
        """paths of a local function / lambda / private module function held in a value (its free variables keep
        the values they had where the closure was created; parameters are symbolic)"""
        if val.closure is None:
            raise AnalysisError('tracer: value %s is not a known function' % val.text[:60])
        t, cenv = val.closure
        p = Path()
        p.env = dict(cenv or {})
        if heap:
            p.heap = {k_: dict(v_) for k_, v_ in heap.items() if v_ is not None}      # attributes of the local objects the function value refers to
        a = t.node.args
        for x in a.posonlyargs + a.args + a.kwonlyargs:
            p.env[x.arg] = Val(ast.Name(id=x.arg, ctx=ast.Load()), tags={'param:%s' % x.arg})
        pre = list(val.partial[0]) if val.partial is not None else []
        if val.bound and pre:
            p.env[t.params()[0]] = pre[0]      # the receiver of a bound method value / callable object
            pre = pre[1:]
        if val.partial is not None:
            for n_, v_ in zip(callback_params(t), pre):
                p.env[n_] = v_
            for k_, v_ in val.partial[1].items():
                p.env[k_] = v_
        if a.vararg:
            p.env[a.vararg.arg] = Val(ast.Name(id=a.vararg.arg, ctx=ast.Load()), tags={'vararg'})
        if a.kwarg:
            p.env[a.kwarg.arg] = Val(ast.Name(id=a.kwarg.arg, ctx=ast.Load()), tags={'kwarg'})
        self._stack = [t.qualname]
        Path.budget = [self.max_paths * 4]
        body = t.node.body if isinstance(t.node.body, list) else [ast.Return(value=t.node.body)]
        try:
            paths = self._block(body, [p], t, 0)
        finally:
            Path.budget = None
        for q in paths:
            if q.status is None:
                q.status = 'return'
                q.ret = const_val(None)
                q.events.append(Event('return', value=q.ret, fn=t.qualname, facts=tuple(q.facts)))
        if val.partial is not None and (pre or val.partial[1]):
            return _PartialView(t, len(pre), val.partial[1]), paths
        return t, paths

    # ------------------------------------------------------------------------------------------
    def _record_fields(self, call, fi):
        """the field expressions, in declaration order, of `Record(...)` when Record is a class-based NamedTuple of the module whose fields
        all have literal defaults or are given - else None"""
        if not (isinstance(call, ast.Call) and isinstance(call.func, ast.Name) and not any(isinstance(a, ast.Starred) for a in call.args) and all(k.arg for k in call.keywords)):
            return None
        ci = fi.module.classes.get(call.func.id) if hasattr(fi.module, 'classes') else None
        node = getattr(ci, 'node', None)
        if node is None or not any(unparse(b) in ('NamedTuple', 'typing.NamedTuple') for b in node.bases) or any(isinstance(x, (ast.FunctionDef, ast.AsyncFunctionDef)) and x.name in ('__new__', '__init__') for x in node.body):
            return None
        fields = [(st.target.id, st.value) for st in node.body if isinstance(st, ast.AnnAssign) and isinstance(st.target, ast.Name)]
        given = dict(zip([f for f, _ in fields], call.args))
        for k in call.keywords:
            if k.arg in given or k.arg not in [f for f, _ in fields]:
                return None
            given[k.arg] = k.value
        out = []
        for f, d in fields:
            if f in given:
                out.append(given[f])
            elif isinstance(d, ast.Constant):
                out.append(d)
            else:
                return None
        return out

    def _bind(self, target, v, p, fi, stmt):
        if isinstance(target, ast.Name):
            p.env[target.id] = v
        elif isinstance(target, (ast.Tuple, ast.List)):
            n_t = len(target.elts)
            star = next((i for i, e in enumerate(target.elts) if isinstance(e, ast.Starred)), None)
            for i, e in enumerate(target.elts):
                if isinstance(e, ast.Starred):
                    after = n_t - i - 1
                    sl = ast.Slice(lower=ast.Constant(value=i), upper=(ast.UnaryOp(op=ast.USub(), operand=ast.Constant(value=after)) if after else None))
                    self._bind(e.value, Val(ast.Subscript(value=v.ast, slice=sl, ctx=ast.Load()), tags=v.tags), p, fi, stmt)
                elif star is not None and i > star:
                    # a target after the starred one counts from the end: *_, parent, last = chain  ->  chain[-2], chain[-1]
                    k = i - n_t
                    if v.elems is not None and not any(isinstance(x.ast, ast.Starred) for x in v.elems) and len(v.elems) >= n_t - 1:
                        self._bind(e, v.elems[k], p, fi, stmt)
                    else:
                        self._bind(e, Val(ast.Subscript(value=v.ast, slice=ast.UnaryOp(op=ast.USub(), operand=ast.Constant(value=-k)), ctx=ast.Load()), tags=v.tags), p, fi, stmt)
                elif v.elems is not None and i < len(v.elems):
                    self._bind(e, v.elems[i], p, fi, stmt)
                else:
                    self._bind(e, Val(ast.Subscript(value=v.ast, slice=ast.Constant(value=i), ctx=ast.Load()), tags=v.tags), p, fi, stmt)
        elif isinstance(target, (ast.Attribute, ast.Subscript)):
            tv = self._sub(target, p)
            p.events.append(Event('store', target=norm(tv), value=v, node=stmt, fn=fi.qualname, facts=tuple(p.facts)))
            if isinstance(target, ast.Attribute) and isinstance(target.value, ast.Name):
                ov = p.env.get(target.value.id)
                if ov is not None and ov.obj is not None and p.heap.get(ov.obj[1]) is not None:
                    p.heap[ov.obj[1]][target.attr] = v
        elif isinstance(target, ast.Starred):
            self._bind(target.value, v, p, fi, stmt)

    def _sub(self, e, p):
        """substitute local names of path p into expression e (AST -> AST)"""
        env = p.env

        class S(ast.NodeTransformer):
            def visit_Name(self, n):
                v = env.get(n.id)
                if v is not None and isinstance(n.ctx, (ast.Load, ast.Store, ast.Del)):
                    return clone(v.ast)
                return n

            def visit_Lambda(self, n):
                return n

            def visit_ListComp(self, n):
                return self._comp(n)

            visit_GeneratorExp = visit_SetComp = visit_DictComp = visit_ListComp

            def _comp(self, n):
                bound = set()
                for g in n.generators:
                    for x in ast.walk(g.target):
                        if isinstance(x, ast.Name):
                            bound.add(x.id)
                saved = {k: env.pop(k) for k in list(env) if k in bound}
                try:
                    return _canon_comp(self.generic_visit(n), bound)
                finally:
                    env.update(saved)
        return S().visit(clone(e))

    # ------------------------------------------------------------------------------------------
    def _expr(self, e, p, fi, depth, store=False):
        """evaluate expression on path p -> list of (path, Val) (forks on IfExp and inlined calls)"""
        if e is None:
            return [(p, const_val(None))]
        if isinstance(e, ast.Constant):
            return [(p, const_val(e.value))]
        if isinstance(e, ast.Name):
            v = p.env.get(e.id)
            if v is None:
                if e.id in ('True', 'False', 'None'):
                    return [(p, const_val({'True': True, 'False': False, 'None': None}[e.id]))]
                if e.id in fi.module.functions and e.id.startswith('_'):
                    # a private module-level function used as a value (callback): can be inlined when it is called
                    return [(p, Val(ast.Name(id=e.id, ctx=ast.Load()), closure=(fi.module.functions[e.id], None)))]
                v = Val(ast.Name(id=e.id, ctx=ast.Load()), tags={'free:%s' % e.id})
                g = fi.module.constant_binding(e.id)
                if isinstance(g, ast.Constant) and (g.value is None or isinstance(g.value, (str, int, bool))):
                    v.const = g.value       # a module constant: keeps its name as text, compares by value
                elif isinstance(g, ast.Lambda):
                    from .srcmodel import FuncInfo
                    v.closure = (FuncInfo(g, fi.module), {})
            return [(p, v)]
        if isinstance(e, ast.IfExp) and isinstance(e.test, ast.UnaryOp) and isinstance(e.test.op, ast.Not):
            return self._expr(ast.copy_location(ast.IfExp(test=e.test.operand, body=e.orelse, orelse=e.body), e), p, fi, depth)
        if isinstance(e, ast.IfExp) and isinstance(e.test, ast.BoolOp) and len(e.test.values) >= 2:
            # (a and b) ? x : y  ==  a ? (b ? x : y) : y   - every path carries atomic facts
            first, rest = e.test.values[0], e.test.values[1:]
            rest_test = rest[0] if len(rest) == 1 else ast.BoolOp(op=e.test.op, values=rest)
            if isinstance(e.test.op, ast.And):
                inner = ast.copy_location(ast.IfExp(test=rest_test, body=e.body, orelse=e.orelse), e)
                return self._expr(ast.copy_location(ast.IfExp(test=first, body=inner, orelse=e.orelse), e), p, fi, depth)
            inner = ast.copy_location(ast.IfExp(test=rest_test, body=e.body, orelse=e.orelse), e)
            return self._expr(ast.copy_location(ast.IfExp(test=first, body=e.body, orelse=inner), e), p, fi, depth)
        if isinstance(e, ast.IfExp):
            outs = []
            for q, t in self._expr(e.test, p, fi, depth):
                c = _truth(t)
                if c is None:
                    c = _known(q, t, e.test)
                if c is True:
                    outs.extend(self._expr(e.body, q, fi, depth))
                elif c is False:
                    outs.extend(self._expr(e.orelse, q, fi, depth))
                else:
                    a = q.fork()
                    self._add_fact(a, t, True)
                    outs.extend(self._expr(e.body, a, fi, depth))
                    self._add_fact(q, t, False)
                    outs.extend(self._expr(e.orelse, q, fi, depth))
            return outs
        if isinstance(e, ast.Call):
            return self._call(e, p, fi, depth)
        if isinstance(e, ast.Attribute):
            outs = []
            for q, b in self._expr(e.value, p, fi, depth):
                if not store and b.obj is not None:
                    hv = q.heap.get(b.obj[1])
                    if hv is not None and e.attr in hv:
                        outs.append((q, hv[e.attr]))          # attribute of an object created on this path
                        continue
                    tm = self.repo.resolve(b.obj[0], e.attr) if b.obj[0] in self.repo.classes else None
                    if tm is not None and not tm.is_property and not tm.is_static and not tm.is_classmethod:
                        mv = Val(ast.Attribute(value=b.ast, attr=e.attr, ctx=ast.Load()), tags=b.tags, closure=(tm, None))
                        mv.partial = ([b], {})
                        mv.bound = True
                        outs.append((q, mv))
                        continue
                if not store and b.fields is not None and b.elems is not None and e.attr in b.fields:
                    outs.append((q, b.elems[b.fields.index(e.attr)]))       # field of a record (namedtuple) built on this path
                    continue
                v = Val(ast.Attribute(value=b.ast, attr=e.attr, ctx=ast.Load()), tags=b.tags)
                v.recv = b
                if isinstance(b.ast, ast.Name) and b.ast.id in self.repo.classes and b.ast.id not in q.env:
                    ci_ = self.repo.classes[b.ast.id]
                    if e.attr in ci_.attrs and any(x.split('.')[-1] in ('Enum', 'IntEnum', 'StrEnum', 'Flag', 'IntFlag') for x in ci_.base_exprs):
                        v.const = EnumConst(ci_.name, e.attr)
                if not store and isinstance(b.ast, ast.Name) and b.ast.id == 'self' and fi.cls is not None:
                    # a bound method of the same class used as a value (callback): can be inlined / traced when it is called
                    t = self.repo.resolve(fi.cls.name, e.attr)
                    if t is not None and not t.is_property and (e.attr in self.inline_extra or not self._overridden_below(fi.cls.name, e.attr, False, t)):
                        v.closure = (t, None)
                outs.append((q, v))
            return outs
        if isinstance(e, ast.Subscript):
            outs = []
            table = None
            if not store and isinstance(e.value, ast.Name) and e.value.id not in p.env and isinstance(fi.module.frozen_display(e.value.id), ast.Dict):
                table = self._module_table(fi.module, e.value.id)
            for q, b in (self._expr(e.value, p, fi, depth) if table is None else [(p, table)]):
                for r, i in self._expr(e.slice, q, fi, depth):
                    if b.items and not store and (table is not None or any(_holds_function(v_) for _, v_ in b.items)):
                        # a lookup table: a module-level display nobody mutates, or a local display of handlers
                        # (a plain local dict may have been filled by item stores since it was written down: not read through)
                        outs.extend(self._select(b, i, r, e, fi, depth))
                        continue
                    if b.elems is not None and i.const is not NOCONST and isinstance(i.const, int) and -len(b.elems) <= i.const < len(b.elems):
                        outs.append((r, b.elems[i.const]))
                    else:
                        res = Val(ast.Subscript(value=b.ast, slice=i.ast, ctx=ast.Load()), tags=b.tags | i.tags)
                        if not store and isinstance(b.ast, (ast.Attribute, ast.Call)):
                            r.events.append(Event('subscr', callee=b.text, value=i, node=e, fn=fi.qualname, facts=tuple(r.facts), depth=depth, result=res, in_loop=r.loop > 0))
                        outs.append((r, res))
            return outs
        if isinstance(e, ast.Slice):
            parts = []
            cur = [(p, [])]
            for sub in (e.lower, e.upper, e.step):
                nxt = []
                for q, acc in cur:
                    if sub is None:
                        nxt.append((q, acc + [None]))
                    else:
                        for r, v in self._expr(sub, q, fi, depth):
                            nxt.append((r, acc + [v]))
                cur = nxt
            return [(q, Val(ast.Slice(lower=a[0].ast if a[0] else None, upper=a[1].ast if a[1] else None, step=a[2].ast if a[2] else None),
                            tags=frozenset().union(*[x.tags for x in a if x]))) for q, a in cur]
        if isinstance(e, (ast.Tuple, ast.List, ast.Set)):
            cur = [(p, [])]
            for el in e.elts:
                nxt = []
                for q, acc in cur:
                    inner = el.value if isinstance(el, ast.Starred) else el
                    rec = self._record_fields(self._sub(inner, q) if isinstance(inner, ast.Name) and inner.id in q.env else inner, fi) if isinstance(el, ast.Starred) else None
                    if rec is not None:
                        # *Record(a, f=b): a private NamedTuple built in place and spread - its fields, in declaration order
                        parts = [(q, acc)]
                        for fx in rec:
                            parts = [(r, a2 + [v]) for q2, a2 in parts for r, v in self._expr(fx, q2, fi, depth)]
                        nxt.extend(parts)
                        continue
                    for r, v in self._expr(inner, q, fi, depth):
                        if isinstance(el, ast.Starred) and v.elems is not None and isinstance(v.ast, (ast.Tuple, ast.List)) and not any(isinstance(x.ast, ast.Starred) for x in v.elems):
                            nxt.append((r, acc + list(v.elems)))       # *(a, b): spliced
                            continue
                        if isinstance(el, ast.Starred):
                            v = Val(ast.Starred(value=v.ast, ctx=ast.Load()), tags=v.tags)
                        nxt.append((r, acc + [v]))
                cur = nxt
            outs = []
            for q, acc in cur:
                node = type(e)(elts=[v.ast for v in acc], ctx=ast.Load()) if not isinstance(e, ast.Set) else ast.Set(elts=[v.ast for v in acc])
                outs.append((q, Val(node, tags=frozenset().union(*[v.tags for v in acc]) if acc else frozenset(), elems=list(acc) if not isinstance(e, ast.Set) else None)))
            return outs
        if isinstance(e, ast.Dict):
            cur = [(p, [], [])]
            for k, v in zip(e.keys, e.values):
                nxt = []
                for q, ks, vs in cur:
                    for r, kv in (self._expr(k, q, fi, depth) if k is not None else [(q, None)]):
                        for t, vv in self._expr(v, r, fi, depth):
                            nxt.append((t, ks + [kv], vs + [vv]))
                cur = nxt
            outs = []
            for q, ks, vs in cur:
                dv = Val(ast.Dict(keys=[k.ast if k is not None else None for k in ks], values=[v.ast for v in vs]),
                         tags=frozenset().union(*([v.tags for v in vs] + [k.tags for k in ks if k is not None])) if vs else frozenset())
                if all(k is not None for k in ks):
                    dv.items = list(zip(ks, vs))
                outs.append((q, dv))
            return outs
        if isinstance(e, (ast.BoolOp,)):
            cur = [(p, [])]
            for v in e.values:
                nxt = []
                for q, acc in cur:
                    for r, x in self._expr(v, q, fi, depth):
                        nxt.append((r, acc + [x]))
                cur = nxt
            outs = []
            for q, acc in cur:
                consts = [_truth(x) for x in acc]
                node = ast.BoolOp(op=e.op, values=[x.ast for x in acc])
                val = Val(node, tags=frozenset().union(*[x.tags for x in acc]))
                if isinstance(e.op, ast.And):
                    if any(c is False for c in consts):
                        val.const = False if all(x.const is not NOCONST for x in acc[:consts.index(False) + 1]) else NOCONST
                    elif all(c is True for c in consts):
                        val.const = acc[-1].const
                else:
                    if consts and consts[0] is True:
                        val.const = acc[0].const
                    elif all(c is False for c in consts):
                        val.const = acc[-1].const
                outs.append((q, val))
            return outs
        if isinstance(e, ast.UnaryOp):
            outs = []
            for q, v in self._expr(e.operand, p, fi, depth):
                val = Val(ast.UnaryOp(op=e.op, operand=v.ast), tags=v.tags)
                if isinstance(e.op, ast.Not) and _truth(v) is not None:
                    val.const = not _truth(v)
                outs.append((q, val))
            return outs
        if isinstance(e, ast.BinOp):
            outs = []
            for q, a in self._expr(e.left, p, fi, depth):
                for r, b in self._expr(e.right, q, fi, depth):
                    outs.append((r, Val(ast.BinOp(left=a.ast, op=e.op, right=b.ast), tags=a.tags | b.tags)))
            return outs
        if isinstance(e, ast.Compare):
            cur = [(p, [])]
            for sub in [e.left] + list(e.comparators):
                nxt = []
                for q, acc in cur:
                    for r, v in self._expr(sub, q, fi, depth):
                        nxt.append((r, acc + [v]))
                cur = nxt
            outs = []
            for q, acc in cur:
                val = Val(ast.Compare(left=acc[0].ast, ops=e.ops, comparators=[x.ast for x in acc[1:]]), tags=frozenset().union(*[x.tags for x in acc]))
                if len(acc) == 2 and isinstance(e.ops[0], (ast.Is, ast.IsNot)) and ((acc[0].const is None and _never_none(acc[1])) or (acc[1].const is None and _never_none(acc[0]))):
                    val.const = isinstance(e.ops[0], ast.IsNot)      # arithmetic / comparison results, displays, f-strings are never None
                elif len(acc) == 2 and isinstance(e.ops[0], (ast.Is, ast.IsNot, ast.Eq, ast.NotEq)) and isinstance(acc[0].const, EnumConst) and isinstance(acc[1].const, EnumConst):
                    val.const = (acc[0].const == acc[1].const) == isinstance(e.ops[0], (ast.Is, ast.Eq))
                elif len(acc) == 2 and isinstance(e.ops[0], (ast.Is, ast.IsNot)) and acc[0].const is not NOCONST and acc[1].const is not NOCONST \
                        and (acc[0].const is None or acc[1].const is None or isinstance(acc[0].const, bool)):
                    same = acc[0].const is acc[1].const
                    val.const = same if isinstance(e.ops[0], ast.Is) else not same
                outs.append((q, val))
            return outs
        if isinstance(e, ast.Lambda):
            from .srcmodel import FuncInfo
            lam = FuncInfo(e, fi.module, fi.cls, fi.ayns, outer=fi)
            return [(p, Val(self._sub(e, p), closure=(lam, dict(p.env))))]
        if isinstance(e, (ast.ListComp, ast.GeneratorExp, ast.SetComp, ast.DictComp)):
            return self._comp(e, p, fi, depth)
        if isinstance(e, (ast.JoinedStr, ast.FormattedValue)):
            return [(p, Val(self._sub(e, p)))]
        if isinstance(e, ast.Starred):
            return [(q, Val(ast.Starred(value=v.ast, ctx=ast.Load()), tags=v.tags)) for q, v in self._expr(e.value, p, fi, depth)]
        if isinstance(e, ast.NamedExpr):
            outs = []
            for q, v in self._expr(e.value, p, fi, depth):
                q.env[e.target.id] = v
                outs.append((q, v))
            return outs
        if isinstance(e, (ast.Yield, ast.YieldFrom, ast.Await)):
            return self._expr(e.value, p, fi, depth) if e.value is not None else [(p, const_val(None))]
        raise AnalysisError('tracer: expression %s not supported (%s)' % (type(e).__name__, fi.qualname))

    def _plain_class(self, name, fi):
        """ClassInfo of a private helper class of the package that `name` denotes in fi's module (a record / small state holder:
        not a node, not an exception, no metaclass, no external base) - or None"""
        ci = fi.module.classes.get(name)
        if ci is None:
            imp = fi.module.imports.get(name)
            if imp and ':' in imp and imp.split(':')[1] in self.repo.classes:
                ci = self.repo.classes[imp.split(':')[1]]
        if ci is None or ci.outer is not None or ci.metaclass is not None or not ci.simple_name.startswith('_'):
            return None
        mro = self.repo.mro(ci.name)
        if any(b not in self.repo.classes and b != 'object' for b in mro[1:]):
            return None
        if 'ConfigNode' in mro or any(b.endswith(('Error', 'Exception')) for b in mro):
            return None
        if any(m in ('__getattr__', '__getattribute__', '__setattr__', '__new__') for b in mro if b in self.repo.classes for m in self.repo.classes[b].methods):
            return None
        return ci

    def _construct_local(self, e, name, p, fi, depth, args, kw):
        """`_Helper(...)`: a fresh object of a private helper class; its attributes live in the path's heap, its methods are inlined"""
        ci = self._plain_class(name, fi)
        if ci is None or any(isinstance(a.ast, ast.Starred) for a in args) or any(k.startswith('**') for k in kw):
            return None
        decos = [unparse(d) for d in ci.node.decorator_list]
        is_dc = any(d.split('(')[0] in ('dataclass', 'dataclasses.dataclass') for d in decos)
        if ci.node.decorator_list and not is_dc:
            return None
        self._n_obj = getattr(self, '_n_obj', 0) + 1
        oid = self._n_obj
        ov = Val(ast.Call(func=ast.Name(id=name, ctx=ast.Load()), args=[a.ast for a in args], keywords=[ast.keyword(arg=k, value=v.ast) for k, v in kw.items()]),
                 tags=frozenset().union(*([a.tags for a in args] + [v.tags for v in kw.values()])) if (args or kw) else frozenset(), parts=list(args) + list(kw.values()))
        ov.obj = (ci.name, oid)
        p.heap[oid] = {}
        if is_dc:
            if '__init__' in ci.methods:
                return None
            fields = [(st.target.id, st.value) for st in ci.node.body if isinstance(st, ast.AnnAssign) and isinstance(st.target, ast.Name) and 'ClassVar' not in unparse(st.annotation)]
            if len(args) > len(fields) or any(k not in [f_ for f_, _ in fields] for k in kw):
                return None
            for i, (fname, dflt) in enumerate(fields):
                if i < len(args):
                    p.heap[oid][fname] = args[i]
                elif fname in kw:
                    p.heap[oid][fname] = kw[fname]
                elif isinstance(dflt, ast.Constant):
                    p.heap[oid][fname] = const_val(dflt.value)
                elif isinstance(dflt, ast.Call) and unparse(dflt.func) in ('field', 'dataclasses.field'):
                    dk = {k.arg: k.value for k in dflt.keywords}
                    fac = dk.get('default_factory')
                    if isinstance(fac, ast.Name) and fac.id in ('list', 'dict', 'set'):
                        node = {'list': ast.List(elts=[], ctx=ast.Load()), 'dict': ast.Dict(keys=[], values=[]), 'set': ast.Call(func=ast.Name(id='set', ctx=ast.Load()), args=[], keywords=[])}[fac.id]
                        p.heap[oid][fname] = Val(node, elems=[] if fac.id == 'list' else None)
                    elif isinstance(dk.get('default'), ast.Constant):
                        p.heap[oid][fname] = const_val(dk['default'].value)
                    else:
                        return None
                else:
                    return None
            post = self.repo.resolve(ci.name, '__post_init__')
            if post is None:
                self._callable_object(ov, ci)
                return [(p, ov)]
            init, iargs, ikw = post, [], {}
        else:
            init, iargs, ikw = self.repo.resolve(ci.name, '__init__'), list(args), dict(kw)
            if init is None:
                self._callable_object(ov, ci)
                return [(p, ov)] if not args and not kw else None
        if depth >= self.max_depth + 2 or init.qualname in self._stack:
            return None
        self._callable_object(ov, ci)
        outs = []
        for r, _ in self._inline(e, p, fi, depth, init, 1, None, [ov] + iargs, ikw, None):
            outs.append((r, ov))
        return outs

    def _callable_object(self, ov, ci):
        """an instance of a helper class with __call__ is a function value: calling it runs __call__ with the instance as receiver"""
        call = self.repo.resolve(ci.name, '__call__')
        if call is not None:
            ov.closure = (call, None)
            ov.partial = ([ov], {})
            ov.bound = True

    def _module_table(self, module, name):
        """value of a module-level dict display that is bound once (a dispatch table): keys and values evaluated in module scope"""
        key = (module.relpath, name)
        cache = self.__dict__.setdefault('_tables', {})
        if key not in cache:
            from .srcmodel import FuncInfo
            g = module.frozen_display(name)
            mfi = FuncInfo(ast.Lambda(args=ast.arguments(posonlyargs=[], args=[], kwonlyargs=[], kw_defaults=[], defaults=[]), body=ast.Constant(value=None)), module)
            scratch = Path()
            saved = Path.budget
            Path.budget = None
            try:
                res = self._expr(g, scratch, mfi, self.max_depth + 10)      # depth beyond the bound: nothing is inlined while the table is read
            finally:
                Path.budget = saved
            if len(res) != 1 or scratch.events:
                raise AnalysisError('tracer: module-level table %s of %s is not a plain display' % (name, module.relpath))
            tv = res[0][1]

            def bind(v):
                if v.closure is None and isinstance(v.ast, ast.Name) and v.ast.id in module.functions:
                    v.closure = (module.functions[v.ast.id], None)
                for x in (v.elems or []):
                    bind(x)
            for k, v in (tv.items or []):
                bind(v)
            bind(tv)
            if tv.items is not None:
                tv.ast = ast.Name(id=name, ctx=ast.Load())
                tv._text = None
            cache[key] = tv
        return cache[key]

    def _select(self, table, idx, p, e, fi, depth):
        """table[idx] for a dict display: the entry whose key is the index (same text or same constant); when the index is
        symbolic, one fork per entry with the fact that the index equals that key"""
        for k, v in table.items:
            if k.text == idx.text or (k.const is not NOCONST and idx.const is not NOCONST and type(k.const) is type(idx.const) and k.const == idx.const):
                return [(p, v)]
        if idx.const is not NOCONST or any(k.const is NOCONST for k, _ in table.items):
            res = Val(ast.Subscript(value=table.ast, slice=idx.ast, ctx=ast.Load()), tags=table.tags | idx.tags)
            return [(p, res)]
        outs = []
        entries = list(table.items)
        for n_, (k, v) in enumerate(entries):
            q = p.fork() if n_ < len(entries) - 1 else p
            if isinstance(k.const, bool):
                self._add_fact(q, idx, k.const)
            else:
                self._add_fact(q, Val(ast.Compare(left=idx.ast, ops=[ast.Eq()], comparators=[k.ast]), tags=idx.tags), True)
            outs.append((q, v))
        return outs

    def _comp(self, e, p, fi, depth):
        """comprehension: bind targets to each(<iter>), evaluate filters and element once (calls are recorded as
        in-loop events, every fork of an inlined callee is followed); the value is the comprehension with outer locals
        substituted and bound names canonicalised"""
        saved = {}
        bound = []
        states = [p]
        for g in e.generators:
            nxt = []
            for q in states:
                for q2, it in self._expr(g.iter, q, fi, depth):
                    if q2.status == 'raise':
                        nxt.append(q2)
                        continue
                    each = Val(ast.Call(func=ast.Name(id='each', ctx=ast.Load()), args=[it.ast], keywords=[]), tags=it.tags)
                    for x in ast.walk(g.target):
                        if isinstance(x, ast.Name):
                            if x.id in q2.env and x.id not in saved:
                                saved[x.id] = q2.env[x.id]
                            if x.id not in bound:
                                bound.append(x.id)
                    self._bind(g.target, each, q2, fi, e)
                    q2.loop += 1
                    cur = [q2]
                    for c in g.ifs:
                        c_next = []
                        for q3 in cur:
                            for q4, cv in self._expr(c, q3, fi, depth):
                                if q4.status == 'raise' or '$filtered' in q4.env:
                                    c_next.append(q4)
                                    continue
                                tv = _truth(cv)
                                if tv is not True and len(e.generators) == 1:
                                    # the element does not pass the filter: (in the one-element view of the iteration) nothing is collected
                                    qf = q4.fork()
                                    self._add_fact(qf, cv, False)
                                    qf.env['$filtered'] = const_val(True)
                                    c_next.append(qf)
                                if tv is not False:
                                    q4.facts.append(('comprehension-filter: ' + cv.text, True))
                                    if tv is None and len(e.generators) == 1:
                                        self._add_fact(q4, cv, True)
                                    c_next.append(q4)
                        cur = c_next
                    nxt.extend(cur)
            states = nxt
        elts = [e.key, e.value] if isinstance(e, ast.DictComp) else [e.elt]
        results = [(q, []) for q in states]
        for el in elts:
            nxt = []
            for q, vals in results:
                if q.status == 'raise' or '$filtered' in q.env:
                    nxt.append((q, vals))
                    continue
                for q2, v in self._expr(el, q, fi, depth):
                    nxt.append((q2, vals + [v]))
            results = nxt
        outs = []
        for q, vals in results:
            if q.status != 'raise':
                q.loop -= len(e.generators)
            for n in bound:
                q.env.pop(n, None)
            q.env.update(saved)
            filtered = q.env.pop('$filtered', None) is not None
            node = self._sub(e, q)
            tags = frozenset().union(*[v.tags for v in vals]) if vals else frozenset()
            has_filter = any(g.ifs for g in e.generators) and len(e.generators) == 1
            if filtered and isinstance(e, ast.ListComp):
                outs.append((q, Val(ast.List(elts=[], ctx=ast.Load()), tags=tags | {'comprehension', 'filtered-out'}, elems=[])))
            elif filtered:
                outs.append((q, Val(node, tags=tags | {'comprehension', 'filtered-out'}, elems=None)))
            else:
                outs.append((q, Val(node, tags=tags | {'comprehension'} | ({'nonempty'} if has_filter and isinstance(e, (ast.ListComp, ast.SetComp, ast.DictComp)) else frozenset()), elems=None)))
        if len(outs) > self.max_paths:
            raise AnalysisError('tracer: path explosion in a comprehension of %s' % fi.qualname)
        return outs

    # ------------------------------------------------------------------------------------------
    def _resolve(self, call, fi, fval, argvals=None, path=None):
        """FuncInfo to inline for this call or None"""
        f = call.func
        if fval is not None and fval.closure is not None:
            return fval.closure[0], (1 if fval.bound else 0), fval.closure[1]
        if isinstance(f, ast.Name):
            if f.id in fi.module.functions and (f.id.startswith('_') or f.id in self.inline_extra):
                return fi.module.functions[f.id], 0, None
            imp = fi.module.imports.get(f.id)
            if imp and ':' in imp and (f.id in self.inline_extra or (imp.split(':')[1].startswith('_') and not imp.split(':')[1].startswith('__') and (imp.startswith('.') or imp.startswith('awesomeyaml')))):
                # (a private helper of a sibling module of the package is part of the function that calls it, like a local one)
                modpart, name = imp.split(':')
                for m in self.repo.modules.values():
                    if modpart.lstrip('.') and m.name.endswith(modpart.lstrip('.')) and name in m.functions:
                        return m.functions[name], 0, None
            return None
        if isinstance(f, ast.Attribute):
            recv = f.value
            via = isinstance(recv, ast.Attribute) and recv.attr == 'ayns'
            if via:
                recv = recv.value
            r = unparse(recv)
            cls = fi.cls.name if fi.cls is not None else None
            if r not in ('self', 'cls', 'super()') and r not in self.repo.classes and fval is not None and isinstance(fval.ast, ast.Attribute):
                # the receiver is a local / parameter that holds the traced function's own `self` (helper taking the node)
                rv = fval.ast.value
                if isinstance(rv, ast.Attribute) and rv.attr == 'ayns':
                    rv = rv.value
                if isinstance(rv, ast.Name) and rv.id == 'self' and self._root_cls is not None:
                    r = 'self'
                    cls = self._root_cls
                elif path is not None and f.attr.startswith('_') and not f.attr.startswith('__'):
                    # a private method called on a value that the path has established to be an instance of a repo class
                    # (`while isinstance(x, C): x = x._helper()`): the class's own implementation, unless a subclass overrides it
                    rt = norm(rv)
                    if isinstance(rv, ast.Call) and isinstance(rv.func, ast.Name) and rv.func.id == 'carried' and len(rv.args) == 1:
                        rt = norm(rv.args[0])       # the loop test was evaluated on the value at loop entry
                    for t_, pol in path.facts:
                        if pol and t_.startswith('isinstance(%s, ' % rt) and t_.endswith(')'):
                            cname = t_[len('isinstance(%s, ' % rt):-1]
                            if cname in self.repo.classes:
                                tm = self.repo.resolve(cname, f.attr, ayns=via)
                                if tm is not None and not self._overridden_below(cname, f.attr, via, tm) and not tm.is_static and not tm.is_classmethod:
                                    return tm, 0, None
            if r in ('self', 'cls') and cls:
                t = self.repo.resolve(cls, f.attr, ayns=via)
                if t is not None and f.attr not in self.inline_extra and t.qualname not in self.inline_extra and self._overridden_below(cls, f.attr, via, t):
                    return None       # dynamic dispatch: a subclass may run its own version - not this function's code
                return (t, 0, None) if t else None
            if r == 'super()' and cls:
                t = self.repo.resolve(cls, f.attr, ayns=via, after=cls)
                return (t, 0, None) if t else None
            if r in self.repo.classes:
                t = self.repo.resolve(r, f.attr, ayns=via)
                if t is not None:
                    explicit_self = (bool(call.args) and unparse(call.args[0]) == 'self') or (bool(argvals) and argvals[0].text == 'self' and self._stack and self._root_cls is not None)
                    fam = cls if cls is not None else self._root_cls
                    same_family = fam is not None and (r in self.repo.mro(fam) or fam in self.repo.mro(r))
                    if t.is_static or t.is_classmethod:
                        # helpers of the same class family (private ones) are part of the function; public utilities
                        # of other classes (NodePath.get_list_path, ...) stay call events unless a rule asks for them
                        if (same_family and f.attr.startswith('_')) or t.qualname in self.inline_extra or f.attr in self.inline_extra:
                            return t, 0, None
                        if self._plain_class(r, fi) is not None:
                            return t, 0, None       # factory / helper of a private helper class
                        return None
                    if explicit_self and same_family:
                        return t, 1, None
                    if t.qualname in self.inline_extra:
                        return t, 1, None
        return None

    @staticmethod
    def _is_functools(f, fi, what):
        if isinstance(f, ast.Attribute) and f.attr == what and isinstance(f.value, ast.Name):
            return fi.module.imports.get(f.value.id) == 'functools'
        if isinstance(f, ast.Name):
            return fi.module.imports.get(f.id) == 'functools:' + what
        return False

    @classmethod
    def _is_partial(cls, f, fi):
        return cls._is_functools(f, fi, 'partial')

    def _overridden_below(self, cls, name, via, t):
        key = (cls, name, via)
        c = self._ovr.get(key)
        if c is None:
            c = False
            for sub in self.repo.subclasses(cls, strict=True):
                t2 = self.repo.resolve(sub, name, ayns=via)
                if t2 is not None and t2 is not t:
                    c = True
                    break
            self._ovr[key] = c
        return c

    def _call(self, e, p, fi, depth):
        # evaluate callee and arguments
        outs = []
        fouts = self._expr(e.func, p, fi, depth) if not isinstance(e.func, ast.Name) or e.func.id in p.env or isinstance(fi.module.constant_binding(e.func.id), ast.Lambda) else [(p, None)]
        for q, fv in fouts:
            cur = [(q, [])]
            for a in e.args:
                nxt = []
                for r, acc in cur:
                    if isinstance(a, ast.Call):
                        self._eager.add(id(a))
                    try:
                        res_ = self._expr(a, r, fi, depth)
                    finally:
                        self._eager.discard(id(a))
                    for s_, v in res_:
                        nxt.append((s_, acc + [v]))
                cur = nxt
            cur2 = []
            for r, acc in cur:
                kcur = [(r, {})]
                for k in e.keywords:
                    nk = []
                    for s_, kw in kcur:
                        for t_, v in self._expr(k.value, s_, fi, depth):
                            d = dict(kw)
                            tbl = None
                            if k.arg is None and isinstance(k.value, ast.Name) and k.value.id not in s_.env:
                                g_ = fi.module.frozen_display(k.value.id)
                                if isinstance(g_, ast.Dict) and all(isinstance(x, ast.Constant) and isinstance(x.value, str) for x in g_.keys):
                                    tbl = g_
                            if k.arg is None and v.items is not None and all(kv[0].const is not NOCONST and isinstance(kv[0].const, str) for kv in v.items):
                                for kk_, vv_ in v.items:
                                    d[kk_.const] = vv_       # **{'a': x, ...}: the display spelled out
                            elif tbl is not None:
                                for kk_, vv_ in zip(tbl.keys, tbl.values):
                                    d[kk_.value] = Val(clone(vv_), const=(vv_.value if isinstance(vv_, ast.Constant) else NOCONST))       # **_MODULE_TABLE: a frozen module-level dict of keyword arguments
                            else:
                                d[k.arg if k.arg is not None else '**%d' % len(d)] = v
                            nk.append((t_, d))
                    kcur = nk
                for s_, kw in kcur:
                    cur2.append((s_, acc, kw))
            for r, args, kw in cur2:
                outs.extend(self._do_call(e, r, fi, depth, fv, args, kw))
        return outs

    def _do_call(self, e, p, fi, depth, fv, args, kw):
        f = e.func
        callee_ast = fv.ast if fv is not None else clone(f)
        callee = norm(callee_ast)
        attr = f.attr if isinstance(f, ast.Attribute) else (f.id if isinstance(f, ast.Name) else None)
        if isinstance(f, ast.Name) and fv is not None and isinstance(callee_ast, ast.Attribute):
            attr = callee_ast.attr      # called through a local that holds `X.method`: the event is about the method
        if fv is not None and fv.partial is not None and fv.closure is not None:
            args = list(fv.partial[0]) + list(args)
            kw = dict(fv.partial[1], **kw)
        hof = norm(f) if isinstance(f, (ast.Name, ast.Attribute)) else None
        base_ = f
        while isinstance(base_, ast.Attribute):
            base_ = base_.value
        if not isinstance(base_, ast.Name) or base_.id in p.env:
            hof = None
        if hof is not None and not (hof in ('map', 'filter') or (hof.split('.')[-1] in ('filterfalse', 'takewhile', 'dropwhile', 'starmap') and
                                                                    (fi.module.imports.get(hof.split('.')[0]) == 'itertools' or fi.module.imports.get(hof) == 'itertools:' + hof))):
            hof = None
        if hof is not None and len(args) >= 2 and not kw and args[0].closure is not None and not any(isinstance(a.ast, ast.Starred) for a in args):
            # map / filter / itertools.takewhile ... (f, xs): f is called for the elements of xs - interpreted like the
            # comprehension [f(x) for x in xs] (its calls are recorded, in a loop), then the call itself is recorded
            k = len(self._stack) + p.loop * 100
            fn_, it_, x_ = '$hof_f%d' % k, '$hof_it%d' % k, '$hof_x%d' % k
            p.env[fn_], p.env[it_] = args[0], args[1]
            arg_x = ast.Starred(value=ast.Name(id=x_, ctx=ast.Load()), ctx=ast.Load()) if hof.endswith('starmap') else ast.Name(id=x_, ctx=ast.Load())
            comp = ast.ListComp(elt=ast.Call(func=ast.Name(id=fn_, ctx=ast.Load()), args=[arg_x], keywords=[]),
                                generators=[ast.comprehension(target=ast.Name(id=x_, ctx=ast.Store()), iter=ast.Name(id=it_, ctx=ast.Load()), ifs=[], is_async=0)])
            ast.copy_location(comp, e)
            ast.fix_missing_locations(comp)
            outs_ = []
            plain = Val(args[0].ast, tags=args[0].tags)
            for q, _ in self._comp(comp, p, fi, depth):
                for nm in (fn_, it_, x_):
                    q.env.pop(nm, None)
                if q.status is not None:
                    outs_.append((q, const_val(None)))
                    continue
                outs_.extend(self._do_call(e, q, fi, depth, fv, [plain] + list(args[1:]), kw))
            return outs_
        if self._is_functools(f, fi, 'reduce') and len(args) in (2, 3) and not kw and args[0].closure is not None:
            # functools.reduce(f, xs, init): `acc = init; for x in xs: acc = f(acc, x)` - interpreted as that loop
            k = len(self._stack) + p.loop * 100
            fn_, it_, acc_, x_ = '$reduce_f%d' % k, '$reduce_it%d' % k, '$reduce_acc%d' % k, '$reduce_x%d' % k
            p.env[fn_], p.env[it_] = args[0], args[1]
            if len(args) == 3:
                p.env[acc_] = args[2]
            else:
                p.env[acc_] = Val(ast.Call(func=ast.Name(id='first', ctx=ast.Load()), args=[args[1].ast], keywords=[]), tags=args[1].tags)
            loop = ast.For(target=ast.Name(id=x_, ctx=ast.Store()), iter=ast.Name(id=it_, ctx=ast.Load()),
                           body=[ast.Assign(targets=[ast.Name(id=acc_, ctx=ast.Store())],
                                            value=ast.Call(func=ast.Name(id=fn_, ctx=ast.Load()), args=[ast.Name(id=acc_, ctx=ast.Load()), ast.Name(id=x_, ctx=ast.Load())], keywords=[]))],
                           orelse=[])
            ast.copy_location(loop, e)
            ast.fix_missing_locations(loop)
            outs_ = []
            for r in self._stmt(loop, p, fi, depth):
                rv = r.env.get(acc_, const_val(None))
                for nm in (fn_, it_, acc_, x_):
                    r.env.pop(nm, None)
                outs_.append((r, rv))
            return outs_
        if self._is_partial(f, fi) and args and args[0].closure is not None and not any(k.startswith('**') for k in kw) \
                and not any(isinstance(a.ast, ast.Starred) for a in args):
            # functools.partial(f, *a, **k): f with leading arguments bound
            base = args[0]
            pv = Val(ast.Call(func=callee_ast, args=[a.ast for a in args], keywords=[ast.keyword(arg=k, value=v.ast) for k, v in kw.items()]),
                     tags=frozenset().union(*([a.tags for a in args] + [v.tags for v in kw.values()])), closure=base.closure, parts=list(args) + list(kw.values()))
            prev = base.partial or ([], {})
            pv.partial = (list(prev[0]) + list(args[1:]), dict(prev[1], **kw))
            return [(p, pv)]
        if isinstance(f, ast.Name) and fv is None and f.id not in p.env and fi.module.namedtuple_fields(f.id) is None:
            made = self._construct_local(e, f.id, p, fi, depth, args, kw)
            if made is not None:
                return made
        if isinstance(f, ast.Name) and fv is not None and fv.closure is None and isinstance(fv.ast, ast.Name) and fv.ast.id in self.repo.classes and fv.ast.id not in p.env:
            made = self._construct_local(e, fv.ast.id, p, fi, depth, args, kw)       # `cls(...)` inside a classmethod of the helper class
            if made is not None:
                return made
        if isinstance(f, ast.Name) and fv is None and f.id not in p.env:
            fields = fi.module.namedtuple_fields(f.id)
            if fields is not None and len(args) <= len(fields) and all(k in fields[len(args):] for k in kw) and not any(isinstance(a.ast, ast.Starred) for a in args):
                dflt = {k_: v_ for k_, v_ in fi.module.record_defaults(f.id).items() if isinstance(v_, ast.Constant)}
                if not all(n_ in kw or n_ in dflt for n_ in fields[len(args):]):
                    fields = None
            else:
                fields = None
            if fields is not None:
                # construction of a record: its fields are the argument values themselves
                elems = list(args) + [kw[n_] if n_ in kw else const_val(dflt[n_].value) for n_ in fields[len(args):]]
                rec = Val(ast.Call(func=ast.Name(id=f.id, ctx=ast.Load()), args=[x.ast for x in elems], keywords=[]),
                          tags=frozenset().union(*[x.tags for x in elems]) if elems else frozenset(), elems=elems, parts=elems)
                rec.fields = fields
                return [(p, rec)]
        target = self._resolve(e, fi, fv, args, p)
        name = attr
        inline = False
        if target is not None and target[0] is not None:
            t = target[0]
            q_ = t.qualname
            if id(e) in self._eager and _is_generator(t) and not t.is_contextmanager and _lazy_generator(t) and depth < self.max_depth \
                    and q_ not in self._stack and name not in self.no_inline and q_ not in self.no_inline:
                # g(...) handed straight to its consumer (`Bunch(g(...))`, `list(g(...))`): like a generator expression, its body is
                # interpreted here - the calls it makes are recorded (in a loop), what it yields are yield events
                outs_ = []
                for r, _rv in self._inline(e, p, fi, depth, target[0], target[1], target[2], args, kw, fv):
                    gv = Val(ast.Call(func=ast.Name(id='generated', ctx=ast.Load()), args=[ast.Call(func=callee_ast, args=[a.ast for a in args], keywords=[])], keywords=[]),
                             tags=frozenset().union(*[a.tags for a in args]) | {'generator'} if args else frozenset({'generator'}))
                    outs_.append((r, gv))
                return outs_
            pc = self._pending_consumer
            consume = pc is not None and pc['stmt'].iter is e and _is_generator(t) and not t.is_contextmanager and _lazy_generator(t)
            inline = depth < self.max_depth and q_ not in self._stack and name not in self.no_inline and q_ not in self.no_inline \
                and not t.is_contextmanager and (not _is_generator(t) or consume) and not t.is_property
            if consume and inline:
                pc['used'] = True
                self._consumers.append(dict(pc, gen=t))
                try:
                    return self._inline(e, p, fi, depth, target[0], target[1], target[2], args, kw, fv, consumer=True)
                finally:
                    self._consumers.pop()
            if name in self.inline_extra or q_ in self.inline_extra:
                inline = depth < self.max_depth + 2 and q_ not in self._stack
        if inline:
            t, skip, closure_env = target
            return self._inline(e, p, fi, depth, t, skip, closure_env, args, kw, fv)
        recv = None
        if isinstance(callee_ast, ast.Attribute):
            recv = Val(callee_ast.value, tags=fv.tags if fv is not None else frozenset())
        # the value of the call is written in positional form (f(a, y=2) and f(a, 2) are the same call, and read the same)
        pa_, pk_ = self.repo.positional_form(e, fi, list(args), dict(kw)) if kw else (args, kw)
        node = ast.Call(func=callee_ast, args=[a.ast for a in pa_],
                        keywords=[ast.keyword(arg=(k if not k.startswith('**') else None), value=v.ast) for k, v in pk_.items()])
        # the recorded event offers both views of the arguments of a call into the package: by position (keyword arguments that name
        # leading parameters moved to their places) and by name (positional arguments also under their parameter names) -
        # f(a, y=2) and f(a, 2) are the same call
        args, kw = self.repo.positional_form(e, fi, list(args), dict(kw), union=True)
        tags = frozenset().union(*([a.tags for a in args] + [v.tags for v in kw.values()] + ([fv.tags] if fv is not None else [])))
        res = Val(node, tags=tags | {'call:%s' % (attr or callee)})
        ev = Event('call', callee=callee, attr=attr, recv=recv, args=list(args), kw=dict(kw), node=e, fn=fi.qualname,
                   facts=tuple(p.facts), depth=depth, result=res, in_loop=p.loop > 0)
        p.events.append(ev)
        if p.heap and any(a_.obj is not None for a_ in list(args) + list(kw.values())):
            ev.heap = {k_: dict(v_) for k_, v_ in p.heap.items() if v_ is not None}
        if fv is not None and fv.recv is not None and p.heap and attr in ('append', 'extend', 'insert', 'add', 'update', 'setdefault', 'pop', 'popitem', 'remove', 'discard', 'clear', 'sort', 'reverse', '__setitem__', '__delitem__'):
            # a container held in an attribute of a local object is changed in place: what the attribute holds is no longer the value it was given
            for oid_, attrs_ in p.heap.items():
                for an_, av_ in list((attrs_ or {}).items()):
                    if av_ is fv.recv and attr in ('append', 'add') and len(args) == 1 and isinstance(av_.ast, (ast.List, ast.Set)) and 'mutated' not in av_.tags:
                        # accumulate-by-append, as for a local list: the elements stay symbolic and the container is known to be non-empty
                        elems_ = list(av_.elems or []) + [args[0]]
                        attrs_[an_] = Val(ast.List(elts=[x.ast for x in elems_], ctx=ast.Load()), tags=av_.tags | args[0].tags, elems=None if p.loop > 0 else elems_)
                    elif av_ is fv.recv:
                        attrs_[an_] = Val(ast.Attribute(value=ast.Name(id='$obj%d' % oid_, ctx=ast.Load()), attr=an_, ctx=ast.Load()), tags=frozenset(av_.tags) | {'maybe-empty', 'mutated'})
        for a_ in list(args) + list(kw.values()) + ([fv.partial[0][0]] if fv is not None and fv.bound and fv.partial else []):
            if a_.obj is not None and a_.obj[1] in p.heap:
                p.heap[a_.obj[1]] = None       # handed to code that is not interpreted: its attributes are no longer known
        if isinstance(f, ast.Attribute) and isinstance(f.value, ast.Name) and f.attr in ('pop', 'clear', 'remove', 'discard', 'popitem') \
                and f.value.id in p.env and isinstance(p.env[f.value.id].ast, (ast.List, ast.Set, ast.Dict)):
            p.env[f.value.id] = Val(ast.Name(id=f.value.id, ctx=ast.Load()), tags=p.env[f.value.id].tags)
        # accumulate-by-append on a local list literal: keep the elements symbolic so that values built in a loop
        # (`flags = []; for c in xs: flags.append(c.flag)`) carry the provenance of their elements
        if isinstance(f, ast.Attribute) and f.attr in ('append', 'add') and isinstance(f.value, ast.Name) and len(args) == 1:
            cur = p.env.get(f.value.id)
            if cur is not None and isinstance(cur.ast, (ast.List, ast.Set)) and cur.elems is not None or \
                    (cur is not None and isinstance(cur.ast, (ast.List,)) and not cur.ast.elts):
                elems = list(cur.elems or []) + [args[0]]
                p.env[f.value.id] = Val(ast.List(elts=[x.ast for x in elems], ctx=ast.Load()), tags=cur.tags | args[0].tags, elems=None if p.loop > 0 else elems)
        return [(p, res)]

    def _inline(self, e, p, fi, depth, t, skip, closure_env, args, kw, fv, consumer=False):
        a = t.node.args
        pnames = [x.arg for x in a.posonlyargs + a.args]
        env = dict(closure_env) if closure_env is not None else {}
        if closure_env is not None and getattr(t, 'outer', None) is fi:
            env = dict(p.env)      # a local function called from the function that defines it sees the current bindings
        bound_args = list(args)
        recv_val = None
        if t.cls is not None and not t.is_static and not isinstance(t.node, ast.Lambda) and t.outer is None:
            # bound call: first parameter is the receiver
            if skip == 0:
                if fv is not None and isinstance(fv.ast, ast.Attribute):
                    r = fv.ast.value
                    if isinstance(r, ast.Attribute) and r.attr == 'ayns':
                        r = r.value
                    if isinstance(r, ast.Call) and norm(r.func) == 'super':
                        r = ast.Name(id='self', ctx=ast.Load())
                    recv_val = Val(r, tags=fv.tags)
                else:
                    recv_val = p.env.get('self') or Val(ast.Name(id='self', ctx=ast.Load()))
                if t.is_classmethod and isinstance(recv_val.ast, ast.Name) and recv_val.ast.id in self.repo.classes:
                    pass        # called on the class itself
                elif t.is_classmethod:
                    recv_val = Val(ast.Call(func=ast.Name(id='type', ctx=ast.Load()), args=[recv_val.ast], keywords=[]))
                bound_args = [recv_val] + bound_args
        defaults = a.defaults
        for i, n in enumerate(pnames):
            if i < len(bound_args) and not isinstance(bound_args[i].ast, ast.Starred):
                env[n] = bound_args[i]
            elif n in kw:
                env[n] = kw[n]
            else:
                di = i - (len(pnames) - len(defaults))
                if di >= 0:
                    env[n] = Val(clone(defaults[di]), const=defaults[di].value if isinstance(defaults[di], ast.Constant) else NOCONST)
                else:
                    env[n] = Val(ast.Name(id='<unbound %s>' % n, ctx=ast.Load()))
        for k, d in zip(a.kwonlyargs, a.kw_defaults):
            if k.arg in kw:
                env[k.arg] = kw[k.arg]
            elif d is not None:
                env[k.arg] = Val(clone(d), const=d.value if isinstance(d, ast.Constant) else NOCONST)
        if a.vararg:
            extra = bound_args[len(pnames):]
            env[a.vararg.arg] = Val(ast.Tuple(elts=[x.ast for x in extra], ctx=ast.Load()), elems=extra)
        if a.kwarg:
            rest = {k: v for k, v in kw.items() if k not in pnames and k not in [x.arg for x in a.kwonlyargs]}
            env[a.kwarg.arg] = Val(ast.Dict(keys=[ast.Constant(value=k) if not k.startswith('**') else None for k in rest], values=[v.ast for v in rest.values()]),
                                   tags=frozenset().union(*[v.tags for v in rest.values()]) if rest else frozenset())
        q = p
        saved_env = q.env
        if consumer:
            env['$consumer_env'] = _EnvBox(saved_env)
        q.env = env
        self._stack.append(t.qualname)
        TOUCHED.add(t.qualname)
        q.events.append(Event('enter', callee=t.qualname, node=e, fn=fi.qualname, depth=depth, args=list(bound_args)))
        body = t.node.body if isinstance(t.node.body, list) else [ast.Return(value=t.node.body)]
        try:
            sub = self._block(body, [q], t, depth + 1)
        finally:
            self._stack.pop()
        outs = []
        for r in sub:
            r.events.append(Event('exit', callee=t.qualname, node=e, fn=fi.qualname, depth=depth))
            rv = r.ret if r.status == 'return' and r.ret is not None else const_val(None)
            inner_env = r.env
            r.env = dict(saved_env) if not consumer or '$consumer_env' not in inner_env else dict(inner_env['$consumer_env'].elems_env)
            if closure_env is not None and getattr(t, 'outer', None) is fi:
                for st_ in ast.walk(t.node):
                    if isinstance(st_, ast.Nonlocal):
                        for nm in st_.names:
                            if nm in inner_env:
                                r.env[nm] = inner_env[nm]
            if r.status == 'return' or r.status is None:
                r.status = None
                r.ret = None
                # drop the callee's own return event marker: keep it but flagged by depth
                outs.append((r, rv))
            else:
                outs.append((r, rv))   # raise propagates: status stays 'raise'
        return outs


_POSITIVE = {ast.IsNot: ast.Is, ast.NotEq: ast.Eq, ast.NotIn: ast.In}


class _Deferred(ast.stmt):
    """synthetic statement: `if test: body else: orelse` produced by desugaring and / or"""
    _fields = ()

    def __init__(self, test, body, orelse, fact=None):
        super().__init__()
        self.test, self.body, self.orelse = test, body, orelse
        self.fact = fact          # (name, expression, polarity): bind the name to the (already decided) test expression


class _PartialView:
    """a function with leading / keyword arguments bound by functools.partial, as its caller sees it"""

    def __init__(self, t, skip, kwnames):
        self.__dict__['_t'] = t
        self.__dict__['partial_skip'] = skip
        self.__dict__['partial_kw'] = frozenset(kwnames)

    def __getattr__(self, name):
        return getattr(self.__dict__['_t'], name)


def callback_params(t):
    """parameters of a function value as its caller sees them (without the bound receiver and without what partial() bound)"""
    ps = list(t.params())
    if t.cls is not None and t.outer is None and not t.is_static and not isinstance(t.node, ast.Lambda) and ps:
        ps = ps[1:]
    ps = ps[getattr(t, 'partial_skip', 0):]
    return [x for x in ps if x not in getattr(t, 'partial_kw', ())]


class _EnvBox:
    """the scope of the for statement that consumes a generator, carried in the generator's scope (not a value)"""
    __slots__ = ('elems_env',)

    def __init__(self, env):
        self.elems_env = env


def _lazy_generator(t):
    """generator bodies that can be interleaved with their consumer: plain `yield <expr>` statements outside try / with.
    Only private helpers (code moved out of the function that is being interpreted): a public generator such as
    ayns.named_children() is an interface, and stays a call"""
    fn = t.node
    if not t.name.startswith('_') or t.name.startswith('__'):
        return False
    for n in ast.walk(fn):
        if isinstance(n, ast.YieldFrom):
            return False
        if isinstance(n, ast.Yield):
            par = getattr(n, '_parent', None)
            if not isinstance(par, ast.Expr):
                return False
            q = par
            while q is not fn and q is not None:
                if isinstance(q, (ast.Try, ast.With)):
                    return False
                q = getattr(q, '_parent', None)
    return True


def _never_none(v):
    n = v.ast
    if v.const is not NOCONST:
        return v.const is not None
    if isinstance(n, ast.BinOp) and isinstance(n.op, (ast.BitAnd, ast.BitOr, ast.BitXor, ast.LShift, ast.RShift, ast.Sub, ast.Mult, ast.FloorDiv, ast.Mod, ast.Pow, ast.Add, ast.Div)):
        return True
    if isinstance(n, (ast.Compare, ast.JoinedStr, ast.List, ast.Tuple, ast.Dict, ast.Set, ast.ListComp, ast.DictComp, ast.SetComp, ast.GeneratorExp, ast.Lambda)):
        return True
    if isinstance(n, ast.UnaryOp) and isinstance(n.op, (ast.Not, ast.USub, ast.Invert)):
        return True
    if v.fields is not None or v.obj is not None:
        return True       # a record / helper object constructed on this path
    return False


def _holds_function(v):
    if v.closure is not None:
        return True
    return v.elems is not None and any(_holds_function(x) for x in v.elems)


def _may_raise_lookup(st, handlers):
    """a statement without calls that can still raise what a handler of its try catches: subscripts (KeyError / IndexError)
    and attribute loads (AttributeError)"""
    names = set()
    for h in handlers:
        if h.type is None:
            names.add('BaseException')
        else:
            for t in (h.type.elts if isinstance(h.type, ast.Tuple) else [h.type]):
                names.add(norm(t).split('.')[-1])
    anyexc = bool(names & {'Exception', 'BaseException'})
    if isinstance(st, _Deferred):
        return False
    for n in ast.walk(st):
        if isinstance(n, ast.Subscript) and isinstance(n.ctx, (ast.Load, ast.Del)) and (anyexc or names & {'KeyError', 'IndexError', 'LookupError', 'TypeError'}):
            return True
        if isinstance(n, ast.Attribute) and isinstance(n.ctx, ast.Load) and (names & {'AttributeError'}):
            return True
    return False


def _has_call(st):
    if isinstance(st, _Deferred):
        return True
    return any(isinstance(n, ast.Call) for n in ast.walk(st))


def _is_generator(t):
    for n in ast.walk(t.node):
        if isinstance(n, (ast.Yield, ast.YieldFrom)):
            return True
    return False


def _truth(v):
    if v.const is NOCONST and 'nonempty' in v.tags:
        return True
    if v.const is NOCONST and 'filtered-out' in v.tags and isinstance(v.ast, (ast.ListComp, ast.SetComp, ast.DictComp)):
        return False
    if v.const is NOCONST:
        if isinstance(v.ast, (ast.List, ast.Tuple, ast.Set, ast.Dict)) and 'maybe-empty' not in v.tags:
            items = v.ast.elts if not isinstance(v.ast, ast.Dict) else v.ast.keys
            if not items and v.elems is not None:
                return False
            if any(not isinstance(x, ast.Starred) and x is not None for x in items):
                return True
        return None
    try:
        return bool(v.const)
    except Exception:
        return None


def _canon_comp(n, bound):
    """rename the names bound by a comprehension to positional placeholders so that renaming them is invisible"""
    order = []
    for g in n.generators:
        for x in ast.walk(g.target):
            if isinstance(x, ast.Name) and x.id not in order:
                order.append(x.id)
    ren = {nm: '_c%d' % i for i, nm in enumerate(order)}

    class R(ast.NodeTransformer):
        def visit_Name(self, x):
            if x.id in ren:
                return ast.Name(id=ren[x.id], ctx=x.ctx)
            return x
    return R().visit(n)
