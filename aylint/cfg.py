"""E2 - statement-level control-flow graph for one function + forward dataflow.

Node kinds
  entry / exit (normal return) / raise (exceptional exit)
  stmt   simple statement (ast = the statement)
  test   condition of if / while / assert / comprehension-free ternaries are NOT split (ast = test expr)
         out-edges labelled 'true' / 'false'
  iter   header of a for loop (ast = the For node); out-edges 'loop' (one more element) / 'done'
  with   entering a with statement (ast = the With node); exit is implicit (context managers of the
         repo never swallow exceptions except where a rule says so)
  except entry of an exception handler (ast = the ExceptHandler)
  join   structural no-op

Exception edges ('exc') leave every node that lies inside a `try` body (towards each handler and, if the
handlers are not catch-all, onwards) and every other node towards the enclosing handler / the `raise`
exit.  An exception edge carries the state *before* the node's own effect ("a statement that raised has
not applied its effect").  `finally` bodies are duplicated: once on the normal path, once on the
exceptional path (which continues to the outer handler / raise exit).
"""
import ast

from .report import AnalysisError
from .srcmodel import unparse, norm


class Node:
    __slots__ = ('id', 'kind', 'ast', 'succ', 'pred', 'in_finally')

    def __init__(self, id, kind, node=None):
        self.id = id
        self.kind = kind
        self.ast = node
        self.succ = []   # (Node, label)
        self.pred = []   # (Node, label)
        self.in_finally = False

    @property
    def lineno(self):
        return getattr(self.ast, 'lineno', 0)

    def text(self):
        if self.ast is None:
            return self.kind
        if self.kind == 'iter':
            return 'for %s in %s' % (unparse(self.ast.target), unparse(self.ast.iter))
        if self.kind == 'with':
            return 'with ' + ', '.join(unparse(i.context_expr) for i in self.ast.items)
        if self.kind == 'except':
            return 'except ' + (unparse(self.ast.type) if self.ast.type else '')
        return norm(self.ast)

    def exprs(self):
        """the expressions evaluated *at* this node (for call extraction)"""
        a = self.ast
        if a is None:
            return []
        if self.kind == 'stmt':
            if isinstance(a, (ast.FunctionDef, ast.AsyncFunctionDef, ast.ClassDef)):
                return list(a.decorator_list)
            return [a]
        if self.kind == 'test':
            return [a]
        if self.kind == 'iter':
            return [a.iter]
        if self.kind == 'with':
            return [i.context_expr for i in a.items]
        if self.kind == 'except':
            return [a.type] if a.type is not None else []
        return []

    def calls(self):
        out = []
        for e in self.exprs():
            out.extend(_calls_no_nested(e))
        out.sort(key=lambda c: (c.end_lineno, c.end_col_offset))
        return out

    def __repr__(self):
        return '<%d %s %s>' % (self.id, self.kind, self.text()[:50])


def _calls_no_nested(e):
    out = []
    stack = [e]
    while stack:
        n = stack.pop()
        if isinstance(n, ast.Call):
            out.append(n)
        if isinstance(n, (ast.Lambda, ast.FunctionDef, ast.AsyncFunctionDef, ast.ClassDef)) and n is not e:
            continue
        stack.extend(ast.iter_child_nodes(n))
    return out


class CFG:
    def __init__(self, fn_node):
        self.fn = fn_node
        self.nodes = []
        self.entry = self._new('entry')
        self.exit = self._new('exit')
        self.raise_exit = self._new('raise')
        self._loop_stack = []      # (continue_target, break_target)
        self._handler_stack = []   # list of lists of handler-entry nodes (innermost last) or ('finally', builder)
        self._with_stack = []
        body = fn_node.body if isinstance(fn_node.body, list) else [ast.Return(value=fn_node.body)]
        ends = self._seq(body, [(self.entry, 'next')])
        for n, l in ends:
            self._edge(n, self.exit, l)

    # -- construction -------------------------------------------------------------------
    def _new(self, kind, node=None):
        n = Node(len(self.nodes), kind, node)
        self.nodes.append(n)
        return n

    def _edge(self, a, b, label='next'):
        a.succ.append((b, label))
        b.pred.append((a, label))

    def _connect(self, frontier, node):
        for n, l in frontier:
            self._edge(n, node, l)

    def _exc_targets(self):
        """where an exception raised now goes: list of nodes"""
        if self._handler_stack:
            return self._handler_stack[-1]
        return [self.raise_exit]

    def _add_exc(self, node):
        for t in self._exc_targets():
            self._edge(node, t, 'exc')

    def _seq(self, stmts, frontier):
        for s in stmts:
            frontier = self._stmt(s, frontier)
        return frontier

    def _stmt(self, s, frontier):
        if isinstance(s, ast.If):
            t = self._new('test', s.test)
            self._connect(frontier, t)
            self._add_exc(t)
            a = self._seq(s.body, [(t, 'true')])
            b = self._seq(s.orelse, [(t, 'false')])
            return a + b
        if isinstance(s, ast.While):
            t = self._new('test', s.test)
            self._connect(frontier, t)
            self._add_exc(t)
            after = self._new('join')
            self._loop_stack.append((t, after))
            body_end = self._seq(s.body, [(t, 'true')])
            self._loop_stack.pop()
            for n, l in body_end:
                self._edge(n, t, l)
            const_true = isinstance(s.test, ast.Constant) and bool(s.test.value)
            else_end = self._seq(s.orelse, [] if const_true else [(t, 'false')])
            self._connect(else_end, after)
            return [(after, 'next')]
        if isinstance(s, (ast.For, ast.AsyncFor)):
            it = self._new('iter', s)
            self._connect(frontier, it)
            self._add_exc(it)
            after = self._new('join')
            self._loop_stack.append((it, after))
            body_end = self._seq(s.body, [(it, 'loop')])
            self._loop_stack.pop()
            for n, l in body_end:
                self._edge(n, it, l)
            else_end = self._seq(s.orelse, [(it, 'done')])
            self._connect(else_end, after)
            return [(after, 'next')]
        if isinstance(s, (ast.With, ast.AsyncWith)):
            w = self._new('with', s)
            self._connect(frontier, w)
            self._add_exc(w)
            return self._seq(s.body, [(w, 'next')])
        if isinstance(s, ast.Try) or (hasattr(ast, 'TryStar') and isinstance(s, ast.TryStar)):
            return self._try(s, frontier)
        if isinstance(s, ast.Return):
            n = self._new('stmt', s)
            self._connect(frontier, n)
            self._add_exc(n)
            self._leave(n, self.exit, 'return')
            return []
        if isinstance(s, ast.Raise):
            n = self._new('stmt', s)
            self._connect(frontier, n)
            for t in self._exc_targets():
                self._edge(n, t, 'raise')
            return []
        if isinstance(s, ast.Break):
            n = self._new('stmt', s)
            self._connect(frontier, n)
            if not self._loop_stack:
                raise AnalysisError('break outside loop')
            self._edge(n, self._loop_stack[-1][1], 'break')
            return []
        if isinstance(s, ast.Continue):
            n = self._new('stmt', s)
            self._connect(frontier, n)
            self._edge(n, self._loop_stack[-1][0], 'continue')
            return []
        if isinstance(s, ast.Assert):
            t = self._new('test', s.test)
            self._connect(frontier, t)
            self._add_exc(t)
            # failing assert raises
            r = self._new('stmt', ast.Raise(exc=ast.Name(id='AssertionError', ctx=ast.Load()), cause=None, lineno=s.lineno, col_offset=s.col_offset))
            self._edge(t, r, 'false')
            for tt in self._exc_targets():
                self._edge(r, tt, 'raise')
            return [(t, 'true')]
        if isinstance(s, ast.Match):
            raise AnalysisError('match statement not supported by the CFG builder')
        n = self._new('stmt', s)
        self._connect(frontier, n)
        self._add_exc(n)
        return [(n, 'next')]

    def _leave(self, node, target, label):
        """return: run enclosing finally blocks - approximated by a direct edge (finally bodies in the repo
        only restore state; rules that care inspect `finalbody` syntactically)"""
        self._edge(node, target, label)

    def _try(self, s, frontier):
        handlers = []
        for h in s.handlers:
            hn = self._new('except', h)
            handlers.append(hn)
        catch_all = any(h.type is None or unparse(h.type) in ('Exception', 'BaseException') for h in s.handlers)
        outer = self._exc_targets()
        fin_exc_entry = None
        if s.finalbody:
            # exceptional copy of the finally body, continuing to the outer targets
            fin_exc_entry = self._new('join')
            save = (self._handler_stack, self._loop_stack)
            fend = self._seq(s.finalbody, [(fin_exc_entry, 'next')])
            for n in self.nodes[fin_exc_entry.id:]:
                n.in_finally = True
            for n, l in fend:
                for t in outer:
                    self._edge(n, t, 'exc')
        inner_targets = list(handlers)
        if not catch_all or not handlers:
            inner_targets = inner_targets + ([fin_exc_entry] if fin_exc_entry is not None else list(outer))
        self._handler_stack.append(inner_targets)
        body_end = self._seq(s.body, frontier)
        self._handler_stack.pop()
        # handlers and else run with exceptions going to finally-exc / outer
        after_targets = [fin_exc_entry] if fin_exc_entry is not None else list(outer)
        self._handler_stack.append(after_targets)
        else_end = self._seq(s.orelse, body_end)
        h_end = []
        for hn, h in zip(handlers, s.handlers):
            h_end += self._seq(h.body, [(hn, 'next')])
        self._handler_stack.pop()
        ends = else_end + h_end
        if s.finalbody:
            j = self._new('join')
            self._connect(ends, j)
            first = len(self.nodes)
            ends = self._seq(s.finalbody, [(j, 'next')])
            for n in self.nodes[first:]:
                n.in_finally = True
        return ends

    # -- queries ------------------------------------------------------------------------
    def stmt_nodes(self):
        return [n for n in self.nodes if n.kind in ('stmt', 'test', 'iter', 'with', 'except')]

    def find_calls(self, pred):
        """[(node, call)] for every call in the function (not nested defs) satisfying pred(call)"""
        out = []
        for n in self.stmt_nodes():
            for c in n.calls():
                if pred(c):
                    out.append((n, c))
        return out

    def reachable(self, start=None, follow=lambda label: True):
        start = start or self.entry
        seen = {start.id}
        stack = [start]
        while stack:
            n = stack.pop()
            for s, l in n.succ:
                if follow(l) and s.id not in seen:
                    seen.add(s.id)
                    stack.append(s)
        return seen


def build(fn_node):
    return CFG(fn_node)


# ----------------------------------------------------------------------------------------
# forward dataflow
# ----------------------------------------------------------------------------------------
TOP = None   # "all facts" (unreached)


def forward_must(cfg, transfer, edge_facts=None, exc_sees_effect=False, init=frozenset()):
    """Forward must-analysis (meet = intersection).
    transfer(node, IN:set) -> OUT:set for normal out-edges; edge_facts(node, label) -> (gen:set, killer)
    adds facts on a specific edge.  On 'exc' edges OUT = IN (the raising node's own effect is not applied)
    unless exc_sees_effect.  Returns dict node.id -> IN set (None = unreachable)."""
    IN = {n.id: TOP for n in cfg.nodes}
    IN[cfg.entry.id] = frozenset(init)
    work = [cfg.entry]
    while work:
        n = work.pop()
        cur = IN[n.id]
        if cur is TOP:
            continue
        out = frozenset(transfer(n, set(cur)))
        for s, label in n.succ:
            if label == 'exc' and not exc_sees_effect:
                val = cur
            else:
                val = out
            if edge_facts is not None:
                extra = edge_facts(n, label)
                if extra:
                    val = frozenset(val | extra)
            old = IN[s.id]
            new = val if old is TOP else (old & val)
            if new != old:
                IN[s.id] = new
                work.append(s)
    return IN


def forward_may(cfg, transfer, init=frozenset()):
    IN = {n.id: frozenset() for n in cfg.nodes}
    reached = {cfg.entry.id}
    IN[cfg.entry.id] = frozenset(init)
    work = [cfg.entry]
    while work:
        n = work.pop()
        cur = IN[n.id]
        out = frozenset(transfer(n, set(cur)))
        for s, label in n.succ:
            val = cur if label == 'exc' else out
            new = IN[s.id] | val
            if new != IN[s.id] or s.id not in reached:
                reached.add(s.id)
                IN[s.id] = new
                work.append(s)
    return IN, reached


# ----------------------------------------------------------------------------------------
# branch facts
# ----------------------------------------------------------------------------------------
def cond_facts(test, polarity):
    """decompose a condition that is known to be `polarity` into atomic (text, bool) facts"""
    out = set()
    if isinstance(test, ast.UnaryOp) and isinstance(test.op, ast.Not):
        return cond_facts(test.operand, not polarity)
    if isinstance(test, ast.BoolOp):
        if isinstance(test.op, ast.And) and polarity:
            for v in test.values:
                out |= cond_facts(v, True)
            return out
        if isinstance(test.op, ast.Or) and not polarity:
            for v in test.values:
                out |= cond_facts(v, False)
            return out
        out.add((norm(test), polarity))
        return out
    if isinstance(test, ast.Compare) and len(test.ops) == 1:
        l, r = norm(test.left), norm(test.comparators[0])
        op = test.ops[0]
        if isinstance(op, ast.IsNot):
            out.add(('%s is %s' % (l, r), not polarity))
            return out
        if isinstance(op, ast.NotEq):
            out.add(('%s == %s' % (l, r), not polarity))
            return out
        if isinstance(op, ast.NotIn):
            out.add(('%s in %s' % (l, r), not polarity))
            return out
    out.add((norm(test), polarity))
    return out


def _assigned_names(stmt):
    out = set()
    if isinstance(stmt, (ast.Assign, ast.AugAssign, ast.AnnAssign, ast.For, ast.Delete, ast.With)):
        targets = []
        if isinstance(stmt, ast.Assign):
            targets = stmt.targets
        elif isinstance(stmt, (ast.AugAssign, ast.AnnAssign)):
            targets = [stmt.target]
        elif isinstance(stmt, ast.For):
            targets = [stmt.target]
        elif isinstance(stmt, ast.Delete):
            targets = stmt.targets
        elif isinstance(stmt, ast.With):
            targets = [i.optional_vars for i in stmt.items if i.optional_vars is not None]
        for t in targets:
            for n in ast.walk(t):
                if isinstance(n, ast.Name):
                    out.add(n.id)
                if isinstance(n, (ast.Attribute, ast.Subscript)):
                    out.add(norm(n))
    for n in ast.walk(stmt) if stmt is not None else []:
        if isinstance(n, ast.NamedExpr):
            out.add(n.target.id)
    return out


def _fact_mentions(fact_text, names):
    try:
        t = ast.parse(fact_text, mode='eval')
    except SyntaxError:
        return True
    for n in ast.walk(t):
        if isinstance(n, ast.Name) and n.id in names:
            return True
        if isinstance(n, (ast.Attribute, ast.Subscript)) and norm(n) in names:
            return True
    return False


def branch_facts(cfg):
    """must-hold branch facts at every node: dict node.id -> set of (cond_text, polarity).
    Facts are killed by assignments to a name / attribute / subscript mentioned in the condition
    (calls are assumed not to change the truth of a condition already tested - the conditions the rules
    ask about are over parameters and flags that the merge functions do not reassign; see DESIGN 9)."""

    def transfer(n, facts):
        a = n.ast
        if n.kind in ('stmt', 'iter', 'with') and a is not None:
            names = _assigned_names(a)
            if names:
                facts = {f for f in facts if not _fact_mentions(f[0], names)}
        return facts

    def edge(n, label):
        if n.kind == 'test' and label in ('true', 'false'):
            return cond_facts(n.ast, label == 'true')
        return None

    return forward_must(cfg, transfer, edge)


def must_have_seen(cfg, is_gate_call):
    """dict node.id -> bool : on every path from entry to the *start* of the node a gate call has completed.
    Also returns helper to decide 'gate before this call inside the same node'."""
    def transfer(n, facts):
        if any(is_gate_call(c) for c in n.calls()):
            facts = facts | {'gate'}
        return facts
    IN = forward_must(cfg, transfer)
    return {k: (v is not TOP and 'gate' in v) for k, v in IN.items()}, IN


def dominated_by_gate(cfg, node, call, is_gate_call, seen=None):
    """the given call inside `node` is preceded by a gate on every path (gate in an earlier node on all
    paths, or earlier in evaluation order within the same node)"""
    if seen is None:
        seen, _ = must_have_seen(cfg, is_gate_call)
    if seen.get(node.id):
        return True
    for c in node.calls():
        if c is call:
            return False
        if is_gate_call(c):
            return True
    return False


# ----------------------------------------------------------------------------------------
# path enumeration (bounded: each loop head at most `loop_bound` times per path)
# ----------------------------------------------------------------------------------------
def enumerate_paths(cfg, start=None, loop_bound=1, follow_exc=True, max_paths=20000, stop_at=None):
    """yield paths as lists of (node, out_label) ending at exit / raise exit (or at a node for which
    stop_at(node) is true).  Loop heads ('iter' nodes and while 'test' nodes that have a back edge) are
    entered at most loop_bound+1 times."""
    start = start or cfg.entry
    out = []
    back_heads = set()
    for n in cfg.nodes:
        for s, l in n.succ:
            if s.id <= n.id and s.kind in ('iter', 'test') and l != 'exc':
                back_heads.add(s.id)

    def rec(node, path, counts):
        if len(out) > max_paths:
            raise AnalysisError('path explosion (> %d paths)' % max_paths)
        if node is cfg.exit or node is cfg.raise_exit or (stop_at is not None and stop_at(node)):
            out.append(path + [(node, None)])
            return
        if not node.succ:
            out.append(path + [(node, None)])
            return
        for s, l in node.succ:
            if l == 'exc' and not follow_exc:
                continue
            c = counts
            if s.id in back_heads:
                k = counts.get(s.id, 0)
                if k > loop_bound:
                    continue
                c = dict(counts)
                c[s.id] = k + 1
            rec(s, path + [(node, l)], c)

    rec(start, [], {})
    return out
