"""Thorough tier: systematic first-order mutants of the functions a property's rules looked at.

For every function that appears in the obligations of the quick run, apply generic AST operators
  NEG   negate the test of an if / while / conditional expression
  BOOL  and <-> or
  CMP   is <-> is not, == <-> !=, < <-> <=, > <-> >=, in <-> not in
  FLIP  True <-> False constants
  DEL   replace a call statement / an assignment of a call result by `pass`
  ARG   drop one keyword argument of a call
  DELA  delete an attribute / item / augmented assignment      RETN  return None instead of the value      DELR  delete a raise
  AOR   + <-> -      INC  small integer constant + 1      SWAP  swap the first two positional arguments of a call
  DROP  keep one operand of a two-operand and / or      BRK  break <-> continue
one at a time (in memory; the function is re-emitted with ast.unparse, so formatting changes as well -
the rules are insensitive to layout), re-parse the tree and re-run the property's rules.  A mutant is
*killed* when a rule reports a violation that the unmodified tree does not have, *no-verdict* when the
analysis gives up (exit-2 style), *survived* otherwise.  Survivors are equivalent mutants or lie outside
the decided clauses; they are listed in the evidence, they are never violations.  The point of the run is
to measure, on the current tree, how much of the code behind the property the structural rules are
sensitive to - and to catch rules that silently stopped looking (kill rate collapses).
"""
import ast
import copy
import multiprocessing
import os

from .report import Run, AnalysisError
from .srcmodel import unparse
from .rules import common

CMP_SWAP = {ast.Is: ast.IsNot, ast.IsNot: ast.Is, ast.Eq: ast.NotEq, ast.NotEq: ast.Eq, ast.Lt: ast.LtE, ast.LtE: ast.Lt,
            ast.Gt: ast.GtE, ast.GtE: ast.Gt, ast.In: ast.NotIn, ast.NotIn: ast.In}


def _sites(fn_node):
    """(operator, description, mutator(copy_of_fn, index)) - enumerated by walking a deep copy in the same order"""
    out = []
    for i, n in enumerate(ast.walk(fn_node)):
        if isinstance(n, (ast.If, ast.While, ast.IfExp)) and not (isinstance(n.test, ast.Constant)):
            out.append(('NEG', i, 'negate `%s`' % unparse(n.test)[:60]))
        if isinstance(n, ast.BoolOp):
            out.append(('BOOL', i, 'swap and/or in `%s`' % unparse(n)[:60]))
        if isinstance(n, ast.Compare) and len(n.ops) == 1 and type(n.ops[0]) in CMP_SWAP:
            out.append(('CMP', i, 'swap comparison in `%s`' % unparse(n)[:60]))
        if isinstance(n, ast.Constant) and isinstance(n.value, bool):
            out.append(('FLIP', i, 'flip %s' % n.value))
        if isinstance(n, ast.Expr) and isinstance(n.value, ast.Call):
            out.append(('DEL', i, 'delete `%s`' % unparse(n)[:60]))
        if isinstance(n, ast.Call) and n.keywords:
            for k in range(len(n.keywords)):
                if n.keywords[k].arg is not None:
                    out.append(('ARG%d' % k, i, 'drop %s= in `%s`' % (n.keywords[k].arg, unparse(n)[:50])))
        # second set of operators (statement / value level)
        if isinstance(n, (ast.Assign, ast.AugAssign)) and not isinstance(getattr(n, 'value', None), ast.Call):
            tg = n.targets[0] if isinstance(n, ast.Assign) else n.target
            if isinstance(tg, (ast.Attribute, ast.Subscript)) or isinstance(n, ast.AugAssign):
                out.append(('DELA', i, 'delete `%s`' % unparse(n)[:60]))
        if isinstance(n, ast.Return) and n.value is not None and not (isinstance(n.value, ast.Constant) and n.value.value is None):
            out.append(('RETN', i, 'return None instead of `%s`' % unparse(n.value)[:50]))
        if isinstance(n, ast.Raise) and n.exc is not None:
            out.append(('DELR', i, 'delete `%s`' % unparse(n)[:60]))
        if isinstance(n, ast.BinOp) and isinstance(n.op, (ast.Add, ast.Sub)) and not isinstance(n.left, ast.Constant):
            out.append(('AOR', i, 'swap +/- in `%s`' % unparse(n)[:60]))
        if isinstance(n, ast.Constant) and isinstance(n.value, int) and not isinstance(n.value, bool) and n.value in (0, 1, 2):
            out.append(('INC', i, 'constant %d -> %d' % (n.value, n.value + 1)))
        if isinstance(n, ast.Call) and len(n.args) >= 2 and not any(isinstance(a, ast.Starred) for a in n.args[:2]) and unparse(n.args[0]) != unparse(n.args[1]):
            out.append(('SWAP', i, 'swap the first two arguments of `%s`' % unparse(n)[:60]))
        if isinstance(n, ast.BoolOp) and len(n.values) == 2:
            out.append(('DROP0', i, 'keep only the second operand of `%s`' % unparse(n)[:60]))
            out.append(('DROP1', i, 'keep only the first operand of `%s`' % unparse(n)[:60]))
        if isinstance(n, (ast.Break, ast.Continue)):
            out.append(('BRK', i, 'break <-> continue'))
    return out


def _apply(fn_node, op, idx):
    new = copy.deepcopy(fn_node)
    for i, n in enumerate(ast.walk(new)):
        if i != idx:
            continue
        if op == 'NEG':
            n.test = ast.UnaryOp(op=ast.Not(), operand=n.test)
        elif op == 'BOOL':
            n.op = ast.Or() if isinstance(n.op, ast.And) else ast.And()
        elif op == 'CMP':
            n.ops = [CMP_SWAP[type(n.ops[0])]()]
        elif op == 'FLIP':
            n.value = not n.value
        elif op == 'DEL':
            n.value = ast.Constant(value=None)
        elif op.startswith('ARG'):
            del n.keywords[int(op[3:])]
        elif op in ('DELA', 'DELR', 'BRK', 'DROP0', 'DROP1'):
            _replace_node(new, n, {'DELA': lambda: ast.Pass(), 'DELR': lambda: ast.Pass(),
                                   'BRK': lambda: (ast.Continue() if isinstance(n, ast.Break) else ast.Break()),
                                   'DROP0': lambda: n.values[1], 'DROP1': lambda: n.values[0]}[op]())
        elif op == 'RETN':
            n.value = ast.Constant(value=None)
        elif op == 'AOR':
            n.op = ast.Sub() if isinstance(n.op, ast.Add) else ast.Add()
        elif op == 'INC':
            n.value = n.value + 1
        elif op == 'SWAP':
            n.args[0], n.args[1] = n.args[1], n.args[0]
        break
    ast.fix_missing_locations(new)
    return new


def _replace_node(root, old, new):
    for parent in ast.walk(root):
        for field, value in ast.iter_fields(parent):
            if value is old:
                setattr(parent, field, new)
                return
            if isinstance(value, list):
                for k, x in enumerate(value):
                    if x is old:
                        value[k] = new
                        return


def _splice(module, fn_node, new_fn):
    lines = list(module.lines)
    start = fn_node.lineno
    if fn_node.decorator_list:
        start = min(start, min(d.lineno for d in fn_node.decorator_list))
    indent = lines[fn_node.lineno - 1][:fn_node.col_offset]
    text = unparse(new_fn)
    new_lines = [(indent + l) if l.strip() else l for l in text.split('\n')]
    lines[start - 1:fn_node.end_lineno] = new_lines
    return '\n'.join(lines)


_CTX = {}


def _one(job):
    mod, repo, tier, base = _CTX['mod'], _CTX['repo'], _CTX['tier'], _CTX['base']
    qual, op, idx, desc = job
    fi = repo.functions.get(qual)
    try:
        new_fn = _apply(fi.node, op, idx)
        text = _splice(fi.module, fi.node, new_fn)
        ast.parse(text)
    except Exception as e:  # noqa
        return (qual, op, desc, 'invalid', str(e)[:80])
    sub = Run(mod.PROP, tier, repo.root, quiet=True)
    try:
        common.reset_caches()
        r2 = repo.with_overrides({fi.module.relpath: text})
        mod.check(r2, sub, 'quick')
        new = sorted({v['rule'] for v in sub.violations if v['key'] not in base})
        if new:
            return (qual, op, desc, 'killed', ','.join(new))
        return (qual, op, desc, 'survived', '')
    except AnalysisError as e:
        new = sorted({v['rule'] for v in sub.violations if v['key'] not in base})
        if new:
            return (qual, op, desc, 'killed', ','.join(new))
        return (qual, op, desc, 'no-verdict', str(e)[:100])
    except Exception as e:  # noqa
        return (qual, op, desc, 'no-verdict', 'internal %s: %s' % (type(e).__name__, str(e)[:80]))


def sweep(mod, repo, run, max_mutants=1500):
    quals = []
    from . import tracer as _tr, fde as _fde
    for q in [o['qualname'].split('.<locals>')[0] for o in run.obligations] + sorted(q.split('.<locals>')[0] for q in (_tr.TOUCHED | _fde.TOUCHED)):
        if q in repo.functions and q not in quals:
            quals.append(q)
    jobs = []
    for q in quals:
        fi = repo.functions[q]
        for op, idx, desc in _sites(fi.node):
            jobs.append((q, op, idx, desc))
    if len(jobs) > max_mutants:
        step = len(jobs) / float(max_mutants)
        jobs = [jobs[int(i * step)] for i in range(max_mutants)]
    _CTX.update(mod=mod, repo=repo, tier=run.tier, base={v['key'] for v in run.violations})
    n = min(16, os.cpu_count() or 1)
    if n > 1 and len(jobs) > 4:
        ctx = multiprocessing.get_context('fork')
        with ctx.Pool(n) as pool:
            res = pool.map(_one, jobs, chunksize=4)
    else:
        res = [_one(j) for j in jobs]
    common.reset_caches()
    stats = {}
    for r in res:
        stats[r[3]] = stats.get(r[3], 0) + 1
    per_fn = {}
    for q, op, desc, verdict, info in res:
        d = per_fn.setdefault(q, {'killed': 0, 'survived': 0, 'no-verdict': 0, 'invalid': 0})
        d[verdict] += 1
    return dict(functions=len(quals), mutants=len(res), stats=stats, per_function=per_fn,
                killed_samples=['%s %s %s -> %s' % (r[0], r[1], r[2], r[4]) for r in res if r[3] == 'killed'][:40],
                survivors=['%s %s %s' % (r[0], r[1], r[2]) for r in res if r[3] == 'survived'][:120],
                no_verdict=['%s %s %s : %s' % (r[0], r[1], r[2], r[4]) for r in res if r[3] == 'no-verdict'][:40])
