"""E5 - path-base typing for the merge / premerge functions (C04.R1, C05.R1, C16.R3).

In a merge function `self` and `other` are the two nodes located at the absolute path given by the path
parameter; `into` (premerge) is the root of the accumulated tree.  A path-valued expression has one of
the abstract types
    ABS        absolute (from the merge root): the path parameter itself, or an extension of it
    EXT(p)     produced by extending the expression text p (callback parameter of filter_nodes(prefix=p))
    REL        relative to the node a lookup is made in (fresh NodePath(), callback parameter of
               filter_nodes without prefix, EXT(p)[len(p):])
    USER       a path written by the user in the document (PrevNode's own text): absolute by definition
    UNKNOWN
Rule: a lookup X.ayns.get_node / get_first_not_missing_node / remove_node(p) needs p : REL when X is a peer
(self / other) and p : ABS/EXT/USER when X is the merge root.
"""
import ast

from .srcmodel import unparse, norm, walk_no_nested, calls_in

LOOKUPS = {'get_node', 'get_first_not_missing_node', 'remove_node'}
HIGHER = {'filter_nodes', 'map_nodes'}


class Lookup:
    def __init__(self, fi, call, receiver, role, base, need, ok):
        self.fi, self.call, self.receiver, self.role, self.base, self.need, self.ok = fi, call, receiver, role, base, need, ok

    def text(self):
        return '%s.%s(%s)' % (self.receiver, self.call.func.attr, unparse(self.call.args[0]) if self.call.args else '')


def _recv(call):
    r = call.func.value
    if isinstance(r, ast.Attribute) and r.attr == 'ayns':
        r = r.value
    return r


def analyse(fi, path_param=None, user_path_self=False):
    """type every lookup in fi (and in the callbacks it passes to filter_nodes / map_nodes)"""
    params = fi.params()
    if path_param is None:
        path_param = params[1] if len(params) > 1 else None
    env = {path_param: 'ABS'} if path_param else {}
    roles = {'self': 'PEER', 'other': 'PEER', 'into': 'ROOT'}
    lens = {}
    for st in walk_no_nested(fi.node):
        if isinstance(st, ast.Assign) and len(st.targets) == 1 and isinstance(st.targets[0], ast.Name) and \
                isinstance(st.value, ast.Call) and unparse(st.value.func) == 'len' and st.value.args:
            lens[st.targets[0].id] = norm(st.value.args[0])
    nested = fi.nested()
    out = []

    def base(e, env):
        if isinstance(e, ast.Name):
            if e.id == 'self' and user_path_self:
                return 'USER'
            return env.get(e.id, 'UNKNOWN')
        if isinstance(e, ast.BinOp) and isinstance(e.op, ast.Add):
            return base(e.left, env)
        if isinstance(e, ast.Subscript) and isinstance(e.slice, ast.Slice) and e.slice.lower is not None and e.slice.upper is None and e.slice.step is None:
            b = base(e.value, env)
            lo = e.slice.lower
            cut = None
            if isinstance(lo, ast.Call) and unparse(lo.func) == 'len' and lo.args:
                cut = norm(lo.args[0])
            if isinstance(lo, ast.Name) and lo.id in lens:
                cut = lens[lo.id]
            if cut is not None and b == 'EXT(%s)' % cut:
                return 'REL'
            if cut is not None and b == 'ABS' and isinstance(e.value, ast.Name) and e.value.id == cut:
                return 'REL'      # an absolute path cut by its own length: the empty relative path
            if cut is not None and b in ('REL', 'ABS', 'USER') or (cut is not None and b.startswith('EXT(')):
                return 'BAD(%s path cut by len(%s))' % (b, cut)
            return 'UNKNOWN'
        if isinstance(e, ast.Call) and unparse(e.func).endswith('NodePath') and not e.args:
            return 'REL'
        if isinstance(e, (ast.List, ast.Tuple)) and not e.elts:
            return 'REL'
        return 'UNKNOWN'

    def check(call, env, holder):
        r = unparse(_recv(call))
        role = roles.get(r)
        if role is None or not call.args:
            return
        b = base(call.args[0], env)
        need = 'REL' if role == 'PEER' else 'ABS'
        ok = (b == need) or (need == 'ABS' and (b.startswith('EXT(') or b == 'USER'))
        out.append(Lookup(holder, call, r, role, b, need, ok))

    def scan(node, env, holder, skip_nested=True):
        it = walk_no_nested(node) if skip_nested and hasattr(node, 'body') and isinstance(node, (ast.FunctionDef,)) else ast.walk(node)
        for c in it:
            if not isinstance(c, ast.Call) or not isinstance(c.func, ast.Attribute):
                continue
            if c.func.attr in LOOKUPS:
                check(c, env, holder)
            if c.func.attr in HIGHER and c.args:
                cb = c.args[0]
                kw = {k.arg: k.value for k in c.keywords}
                if 'prefix' in kw:
                    pb = base(kw['prefix'], env)
                    cb_base = 'EXT(%s)' % norm(kw['prefix']) if (pb == 'ABS' or pb.startswith('EXT(')) else ('REL' if pb == 'REL' else 'UNKNOWN')
                else:
                    cb_base = 'REL'
                if isinstance(cb, ast.Name) and cb.id in nested:
                    f2 = nested[cb.id]
                    env2 = dict(env)
                    env2[f2.params()[0]] = cb_base
                    scan(f2.node, env2, f2)
                elif isinstance(cb, ast.Lambda):
                    env2 = dict(env)
                    if cb.args.args:
                        env2[cb.args.args[0].arg] = cb_base
                    scan(cb.body, env2, holder, skip_nested=False)

    scan(fi.node, env, fi)
    return out
