"""E5 - path-base typing for the merge / premerge functions (C04.R1, C05.R1, C16.R3), over tracer paths.

In a merge function `self` and `other` are the two nodes located at the absolute path given by the path
parameter; `into` (premerge) is the root of the accumulated tree.  A path-valued expression has one of
the abstract types
    ABS        absolute (from the merge root): the path parameter itself, or an extension of it
    EXT(p)     produced by extending the expression text p (callback parameter of filter_nodes(prefix=p))
    REL        relative to the node a lookup is made in (fresh NodePath(), callback parameter of
               filter_nodes without prefix, EXT(p)[len(p):])
    USER       a path written by the user in the document (PrevNode's own text): absolute by definition
    UNKNOWN
Rule: a lookup X.ayns.get_node / get_first_not_missing_node / remove_node(p) needs p : REL when X is a peer
(self / other) and p : ABS/EXT/USER when X is the merge root.

The expressions typed are the *canonical values* of the tracer (E8): locals and closure variables are substituted,
helpers are inlined, so `n = len(path); rel = p[n:]; other.get_node(rel)` types exactly like the one-line form.
"""
import ast

from .srcmodel import unparse, norm
from .tracer import Tracer, callback_params

LOOKUPS = {'get_node', 'get_first_not_missing_node', 'remove_node'}
HIGHER = {'filter_nodes', 'map_nodes'}
NI = frozenset({'_replace_self', '_replace_other', '_require_all_new', 'filter_nodes', 'map_nodes', 'get_child', 'set_child', 'remove_child', 'on_merge',
                'has_priority_over', 'on_merge_impl', 'on_premerge_impl', 'get_first_not_missing_node', 'get_str_path', 'get_node', 'remove_node', 'clear',
                'named_children', 'children_names', 'has_child', '_propagate_priority', '_maybe_promote', 'premerge', 'on_premerge'})


class Lookup:
    def __init__(self, fi, ev, receiver, role, base, need, ok):
        self.fi, self.ev, self.receiver, self.role, self.base, self.need, self.ok = fi, ev, receiver, role, base, need, ok
        self.call = ev.node

    def text(self):
        return '%s.%s(%s)' % (self.receiver, self.ev.attr, self.ev.args[0].text[:80] if self.ev.args else '')


def base(e, env, user_path_self=False):
    if isinstance(e, ast.Starred):
        b = base(e.value, env, user_path_self)
        if b in ('ABS', 'REL', 'USER') or b.startswith('EXT('):
            # get_node(*p) hands the components to NodePath.get_list_path(*p), which re-parses a single str component as a
            # dotted path string: the lookup depends on the depth of the node and on the spelling of its key
            return 'BAD(%s list path unpacked into varargs: a single-component path is re-parsed as a path string)' % b
        return b
    if isinstance(e, ast.Name):
        if e.id == 'self' and user_path_self:
            return 'USER'
        return env.get(e.id, 'UNKNOWN')
    if isinstance(e, ast.BinOp) and isinstance(e.op, ast.Add):
        return base(e.left, env, user_path_self)
    if isinstance(e, ast.BoolOp) and isinstance(e.op, ast.Or) and len(e.values) == 2 and base(e.values[1], env, user_path_self) == 'REL':
        return base(e.values[0], env, user_path_self)      # `p or NodePath()`: p, or the empty path when p is empty / None
    if isinstance(e, ast.Subscript) and isinstance(e.slice, ast.Slice) and e.slice.lower is not None and e.slice.upper is None and e.slice.step is None:
        b = base(e.value, env, user_path_self)
        lo = e.slice.lower
        cut = None
        if isinstance(lo, ast.Call) and unparse(lo.func) == 'len' and lo.args:
            cut = norm(lo.args[0])
        if cut is not None and b == 'EXT(%s)' % cut:
            return 'REL'
        if cut is not None and b == 'ABS' and norm(e.value) == cut:
            return 'REL'      # an absolute path cut by its own length: the empty relative path
        if cut is not None and (b in ('REL', 'ABS', 'USER') or b.startswith('EXT(')):
            return 'BAD(%s path cut by len(%s))' % (b, cut)
        return 'UNKNOWN'
    if isinstance(e, ast.Call) and unparse(e.func).endswith('NodePath') and not e.args:
        return 'REL'
    if isinstance(e, ast.Call) and unparse(e.func).endswith(('NodePath', 'get_list_path', 'list', 'tuple')) and len(e.args) >= 1:
        return base(e.args[0], env, user_path_self)
    if isinstance(e, (ast.List, ast.Tuple)) and not e.elts:
        return 'REL'
    if isinstance(e, (ast.List, ast.Tuple)) and len(e.elts) == 1 and isinstance(e.elts[0], ast.Starred):
        return base(e.elts[0].value, env, user_path_self)
    return 'UNKNOWN'


def analyse(repo, fi, path_param=None, user_path_self=False):
    """type every lookup in fi (and in the callbacks it passes to filter_nodes / map_nodes); one Lookup per call site and type"""
    params = fi.params()
    if path_param is None:
        path_param = params[1] if len(params) > 1 else None
    env0 = {path_param: 'ABS'} if path_param else {}
    roles = {'self': 'PEER', 'other': 'PEER', 'into': 'ROOT'}
    out = {}
    tracer = Tracer(repo, no_inline=NI, follow_exceptions=False)

    def check(ev, env, holder):
        r = ev.recv.text if ev.recv is not None else ''
        if r.endswith('.ayns'):
            r = r[:-5]
        role = roles.get(r)
        if role is None or not ev.args:
            return
        b = base(ev.args[0].ast, env, user_path_self)
        need = 'REL' if role == 'PEER' else 'ABS'
        ok = (b == need) or (need == 'ABS' and (b.startswith('EXT(') or b == 'USER'))
        out.setdefault((id(ev.node), b), Lookup(holder, ev, r, role, b, need, ok))

    def scan(paths, env, holder, depth=0):
        for p in paths:
            for ev in p.events:
                if ev.kind != 'call':
                    continue
                if ev.attr in LOOKUPS:
                    check(ev, env, holder)
                if ev.attr in HIGHER and (ev.args or 'condition' in ev.kw) and depth < 3:
                    cb = ev.args[0] if ev.args else ev.kw['condition']
                    if 'prefix' in ev.kw:
                        pb = base(ev.kw['prefix'].ast, env, user_path_self)
                        cb_base = 'EXT(%s)' % ev.kw['prefix'].text if (pb == 'ABS' or pb.startswith('EXT(')) else ('REL' if pb == 'REL' else 'UNKNOWN')
                    else:
                        cb_base = 'REL'
                    if cb.closure is not None:
                        t, cps = tracer.trace_closure(cb, heap=ev.heap)
                        env2 = dict(env)
                        ps = callback_params(t)
                        if ps:
                            env2[ps[0]] = cb_base
                        scan(cps, env2, t, depth + 1)

    from .rules import tr
    scan(tr.paths_of(repo, fi, no_inline=NI, follow_exceptions=False), env0, fi)
    return list(out.values())
