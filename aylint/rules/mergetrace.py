"""Trace-based rules over ComposedNode.ayns.on_merge_impl / ConfigList.ayns.on_merge_impl.

The functions are interpreted path by path (tracer, E8): locals are substituted, private helpers and module-level
helper functions are inlined, branch conditions become facts.  The rules below are predicates over those paths,
so they are insensitive to renaming of locals, to inverted if/else arms, to early-return vs. else style and to
extraction / inlining of helpers.  Anything the predicates do not recognise is an ANALYSIS-ERROR (no verdict),
never a violation: a violation is only reported for a positively identified deviation.
"""
import ast

from ..report import AnalysisError
from ..srcmodel import norm
from ..tracer import Tracer, NOCONST, callback_params
from .common import PRIOS
from . import tr

# calls that stay events (their own semantics are decided by other rules)
NI = frozenset({'_replace_self', '_replace_other', '_require_all_new', 'filter_nodes', 'get_child', 'set_child', 'remove_child', 'on_merge',
                'has_priority_over', 'on_merge_impl', 'get_first_not_missing_node', 'get_str_path', 'get_node', 'remove_node', 'clear',
                'named_children', 'children_names', 'has_child', '_propagate_priority', '_maybe_promote'})


def P(v):
    return 0 if v is None else v


def merge_paths(repo, q='ComposedNode.ayns.on_merge_impl'):
    fi = repo.func(q)
    return fi, tr.paths_of(repo, fi, no_inline=NI, follow_exceptions=False)


# ------------------------------------------------------------------------------------------------------------
# priority facts
def _prio_atom(text):
    """`A.ayns.has_priority_over(B[, if_equal=c])` -> (A, B, if_equal) or None"""
    try:
        e = ast.parse(text, mode='eval').body
    except SyntaxError:
        return None
    if not (isinstance(e, ast.Call) and isinstance(e.func, ast.Attribute) and e.func.attr == 'has_priority_over'):
        return None
    r = e.func.value
    if isinstance(r, ast.Attribute) and r.attr == 'ayns':
        r = r.value
    if len(e.args) not in (1, 2):
        return None
    ie = False
    if len(e.args) == 2:       # has_priority_over(B, c): if_equal handed over by position
        if not isinstance(e.args[1], ast.Constant) or e.keywords:
            return None
        ie = bool(e.args[1].value)
    for k in e.keywords:
        if k.arg == 'if_equal':
            if not isinstance(k.value, ast.Constant):
                return None
            ie = bool(k.value.value)
        else:
            return None
    return norm(r), norm(e.args[0]), ie


def prio_constraints(facts):
    out = []
    for t, pol in facts:
        a = _prio_atom(t)
        if a is not None:
            out.append(a + (pol,))
    return out


def consistent(cons, val):
    """val: {name: priority}; constraints on names outside val are ignored"""
    for a, b, ie, pol in cons:
        if a in val and b in val:
            pa, pb = P(val[a]), P(val[b])
            r = ie if pa == pb else pa > pb
            if r != pol:
                return False
    return True


def _is_self_call(e, attr):
    """self.ayns.<attr>(...)  /  ComposedNode.ayns.<attr>(self, ...)  -> argument list without the receiver, or None"""
    if e.kind != 'call' or e.attr != attr:
        return None
    r = e.recv.text if e.recv is not None else ''
    if r in ('self.ayns', 'self'):
        return list(e.args)
    if (r.endswith('.ayns') or r in ('ComposedNode', 'ConfigDict', 'ConfigList')) and r.split('.')[0][:1].isupper() and e.args and e.args[0].text == 'self':
        return list(e.args[1:])
    return None


# ------------------------------------------------------------------------------------------------------------
def tail_decision(repo, run, rule):
    """container merge: which node survives.  On every completed path of ComposedNode.ayns.on_merge_impl exactly one of
    self._replace_self(other) / self._replace_other(other) / other._replace_other(self) runs, and for every priority pair
    that is consistent with the has_priority_over facts of the path the newer node is adopted iff p(other) >= p(self)."""
    fi, paths = merge_paths(repo)
    rows = 0
    n = 0
    bad = []
    for p in paths:
        if p.status != 'return':
            continue
        rep = [e for e in p.events if e.kind == 'call' and e.attr in ('_replace_self', '_replace_other')]
        base = [e for e in p.events if e.kind == 'call' and e.attr == 'on_merge_impl' and e.args and e.args[0].text == 'self']
        if base and not rep:
            continue   # not a container on the other side: handled by the leaf table
        if len(rep) != 1:
            if not rep:
                fin = tr.final_event(p)
                bad.append((fin, 'a merge path ends without deciding which node survives (returns %s)' % (fin.value.text[:60] if fin is not None and fin.value is not None else '?'), tr.describe(p)))
            else:
                bad.append((rep[1], 'more than one _replace_* call on one path', tr.describe(p)))
            continue
        e = rep[0]
        recv = e.recv.text if e.recv is not None else ''
        arg = e.args[0].text if e.args else ''
        if (recv, arg) == ('self', 'other'):
            adopt_newer = e.attr == '_replace_self'
        elif (recv, arg) == ('other', 'self'):
            adopt_newer = e.attr == '_replace_other'
        else:
            raise AnalysisError('container merge: survivor call %s not recognised' % e.callee)
        fin = tr.final_event(p)
        if fin is None or fin.value is None or fin.value.text != e.result.text:
            bad.append((fin, 'the result of %s is not what the merge returns (returns %s)' % (e.callee, fin.value.text[:60] if fin is not None and fin.value is not None else '?'), tr.describe(p)))
            continue
        n += 1
        cons = prio_constraints(p.facts)
        for a in PRIOS:
            for b in PRIOS:
                if not consistent(cons, {'self': a, 'other': b}):
                    continue
                rows += 1
                if adopt_newer != (P(b) >= P(a)):
                    bad.append((e, 'older priority %r, newer %r: %s runs (expected the %s node to be adopted)' % (a, b, e.callee, 'newer' if P(b) >= P(a) else 'older'), tr.describe(p)))
                    break
            else:
                continue
            break
    if n < 4:
        raise AnalysisError('container merge: only %d deciding paths found' % n)
    run.table(rule, rows, 'container merge: survivor call per path x consistent priority pairs')
    if bad:
        seen = set()
        for ev, why, d in bad:
            if why in seen:
                continue
            seen.add(why)
            run.violation(rule, tr.where(fi, ev), 'container merge: final _replace_self/_replace_other decision', why + ' [path: %s]' % d[:160])
    else:
        run.ok(rule, fi, 'container merge survivor decision (%d paths, %d path x priority rows)' % (n, rows), 'self adopts other iff p(other) >= p(self)')


# ------------------------------------------------------------------------------------------------------------
_KV_FORMS = [
    ('each(other._children.items())[0]', 'each(other._children.items())[1]'),
    ('each(other.ayns.named_children())[0]', 'each(other.ayns.named_children())[1]'),
    ('each(list(other._children.items()))[0]', 'each(list(other._children.items()))[1]'),
    ('each(other._children)', 'other._children[each(other._children)]'),
    ('each(other._children.keys())', 'other._children[each(other._children.keys())]'),
    ('each(other.ayns.children_names())', 'other.ayns.get_child(each(other.ayns.children_names()))'),
]


def _same(p, a, b):
    return tr.fact(p, '%s is %s' % (a, b), True) or tr.fact(p, '%s is %s' % (b, a), True)


def _is_none(p, x):
    return tr.fact(p, '%s is None' % x, True)


def key_loop(repo, run, rule, rule_new=None):
    """every key of the newer mapping lands (attached / merged in place / removed under an explicit delete), exactly once,
    under its own key; new content is attached only after the new-path check on it"""
    fi, paths = merge_paths(repo)
    looked = None
    for p in paths:
        for e in p.events:
            a = _is_self_call(e, 'get_child')
            if a is not None and e.in_loop and a:
                looked = (a[0].text, e)
                break
        if looked:
            break
    if looked is None:
        raise AnalysisError('key loop: lookup of the existing child (self.ayns.get_child(key, None)) not found')
    K = looked[0]
    forms = [f for f in _KV_FORMS if f[0] == K]
    if not forms:
        if any(k in K for k in ('reversed', 'sorted', '[1:]', '[:-1]', 'filter(')):
            run.violation(rule, tr.where(fi, looked[1]), 'key loop over ' + K[:80], 'the key loop does not visit every child of the newer mapping in order')
            return
        raise AnalysisError('key loop: iteration over the newer mapping not recognised (key is %s)' % K[:80])
    V = forms[0][1]
    KP = 'path + [%s]' % K
    n = 0
    seen = set()

    oks = set()

    def ok(r, ev, construct, why):
        k = (r, id(ev.node), why)
        if k not in oks:
            oks.add(k)
            run.ok(r, tr.where(fi, ev), construct, why)

    def viol(r, ev, construct, why):
        if (r, why) in seen:
            return
        seen.add((r, why))
        run.violation(r, tr.where(fi, ev), construct, why)

    for p in paths:
        if p.status != 'return':
            continue
        lk = [e for e in p.events if e.in_loop and _is_self_call(e, 'get_child') is not None]
        if not lk:
            continue
        if len(lk) != 1 or _is_self_call(lk[0], 'get_child')[0].text != K:
            raise AnalysisError('key loop: more than one lookup of the existing child on a path')
        n += 1
        CH = lk[0].result.text
        dflt = _is_self_call(lk[0], 'get_child')[1:] or [lk[0].kw.get('default')]
        if dflt[0] is None or dflt[0].const is not None:
            raise AnalysisError('key loop: existing child looked up without a None default')
        desc = tr.describe(p, 10)
        sets = [(e, _is_self_call(e, 'set_child')) for e in p.events if e.in_loop and _is_self_call(e, 'set_child') is not None]
        rems = [(e, _is_self_call(e, 'remove_child')) for e in p.events if e.in_loop and _is_self_call(e, 'remove_child') is not None]
        merges = [e for e in p.events if e.in_loop and e.kind == 'call' and e.attr == 'on_merge']
        checks = [e for e in p.events if e.in_loop and e.kind == 'call' and e.attr == '_require_all_new']
        for m in merges:
            if (m.recv.text if m.recv is not None else '') != CH + '.ayns' or len(m.args) < 2 or m.args[0].text != KP or m.args[1].text != V:
                viol(rule, m, m.callee[:100], 'recursive merge must be child.on_merge(path + [key], value) for the existing child and the newer value under the same key')
        if len(merges) > 1:
            viol(rule, merges[1], desc, 'the existing child is merged more than once for one key')
            continue
        NEW = merges[0].result.text if merges else None
        if len(sets) + len(rems) > 1:
            viol(rule, (sets + rems)[1][0], desc, 'more than one mutation of the older mapping for one key')
            continue
        if not sets and not rems:
            if NEW is not None and _same(p, NEW, CH):
                ok(rule, merges[0], desc, 'in-place merge result kept (the merge returned the existing child)')
            elif any('__match_' in t or ' is True' in t or ' is False' in t or 'isinstance((' in t for t, _ in p.facts):
                # the case analysis is written over a tuple of booleans (a match statement): whether `merged is child` holds on this
                # path cannot be read off the facts
                raise AnalysisError('ComposedNode.on_merge_impl: the per-key case analysis (%s) is not recognised' % tr.describe(p, 3)[:120])
            else:
                viol(rule, lk[0], desc, 'a key of the newer mapping is neither attached, merged in place nor removed on this path')
            continue
        if rems:
            e, a = rems[0]
            if not a or a[0].text != K:
                viol(rule, e, desc, 'remove_child is applied to %s, not to the loop key' % (a[0].text[:40] if a else '?'))
            elif any(t.endswith('.ayns.explicit_delete') and pol and (t.startswith(V) or (NEW and t.startswith(NEW))) for t, pol in e.facts):
                ok(rule, e, desc, 'removal only under an explicit delete flag')
            else:
                viol(rule, e, desc, 'a key of the older mapping is removed on a path without an explicit delete flag of the newer node')
            continue
        e, a = sets[0]
        if len(a) < 2 or a[0].text != K:
            viol(rule, e, desc, 'set_child is applied to %s, not to the loop key' % (a[0].text[:40] if a else '?'))
            continue
        val = a[1].text
        before = p.events[:tr.index_of(p, e)]
        if val == V and _is_none(p, CH):
            ok(rule, e, desc, 'newer value attached under a new key')
            if rule_new:
                pre = any(c in before and (c.recv.text if c.recv is not None else '') == V + '.ayns' and c.args and c.args[0].text == KP
                         and (c.kw.get('include_self') is None or c.kw['include_self'].const is True) for c in checks)
                if pre:
                    ok(rule_new, e, 'set_child(key, value) [new key]', 'value.ayns._require_all_new(path + [key]) precedes')
                else:
                    viol(rule_new, e, 'set_child(key, value) [new key]', 'newer content is attached under a key that did not exist without the new-path check on it')
        elif NEW is not None and val == NEW:
            ok(rule, e, desc, 'merge result of child.on_merge(path+[key], value) attached')
            if rule_new:
                composed = tr.fact(p, 'isinstance(%s, ComposedNode)' % CH, True)
                if composed:
                    ok(rule_new, e, 'set_child(key, merged) [container merged recursively]', 'recursion checks its own attachments')
                elif any(c in before and (c.recv.text if c.recv is not None else '') == NEW + '.ayns' and c.args and c.args[0].text == KP for c in checks):
                    ok(rule_new, e, 'set_child(key, merged) [leaf replaced]', 'merged.ayns._require_all_new(path + [key], include_self=False) precedes')
                else:
                    viol(rule_new, e, 'set_child(key, merged) [leaf replaced]', 'a replaced leaf brings new content without the new-path check below it')
        else:
            viol(rule, e, desc, 'set_child(key, %s): attached value is neither the newer value (new key) nor the result of merging the existing child with it' % val[:60])
    if n < 5:
        raise AnalysisError('key loop: only %d one-iteration paths enumerated (expected >= 5)' % n)
    # every completed container path goes through the loop (zero-iteration twin exists for each): the loop is not skipped
    skipped = [p for p in paths if p.status == 'return' and not any(e.kind == 'call' and e.callee in ('other._children.items', 'other.ayns.named_children', 'other._children.keys', 'other.ayns.children_names') or
                                                                    (e.kind == 'call' and e.in_loop) for e in p.events)
               and any(e.kind == 'call' and e.attr in ('_replace_self', '_replace_other') and (e.recv.text if e.recv is not None else '') == 'self' for e in p.events)]
    if skipped and K != 'each(other._children)':
        viol(rule, tr.final_event(skipped[0]), tr.describe(skipped[0]), 'a container merge path reaches the survivor decision without visiting the children of the newer mapping')


# ------------------------------------------------------------------------------------------------------------
REMOVERS_AYNS = ('remove_child', 'filter_nodes', 'clear', 'remove_node')


def filter_callback(repo, host_q, recv):
    """(host FuncInfo, filter_nodes events, callback FuncInfo, callback paths) for the filter_nodes(<cb>) call made on `recv`"""
    fi, paths = merge_paths(repo, host_q)
    evs = []
    for p in paths:
        for e in p.events:
            if tr.is_call(e, attr='filter_nodes'):
                evs.append(e)
    if not evs:
        raise AnalysisError('%s: filter_nodes call not found' % host_q)
    cb = evs[0].args[0] if evs[0].args else evs[0].kw.get('condition')
    if cb is None or cb.closure is None:
        raise AnalysisError('%s: filter_nodes callback is not a function of the package' % host_q)
    t, cpaths = Tracer(repo, no_inline=NI, follow_exceptions=False).trace_closure(cb, heap=evs[0].heap)
    return fi, evs, t, cpaths


def removal_guards(repo, run, rule):
    """nothing is removed from the older tree without a delete flag of the newer node"""
    fi, paths = merge_paths(repo)
    n = 0
    seen = set()
    kinds = set()
    for p in paths:
        for e in p.events:
            if e.kind != 'call':
                continue
            r = e.recv.text if e.recv is not None else ''
            hit = (e.attr in REMOVERS_AYNS and _is_self_call(e, e.attr) is not None) or \
                  (e.attr in ('clear', 'pop', 'popitem', '__delitem__') and r in ('self', 'self._children'))
            if not hit:
                continue
            key = (id(e.node))
            guards = [t for t, pol in e.facts if pol and (t == 'other.ayns.delete' or t.endswith('.ayns.explicit_delete'))]
            ok = bool(guards)
            if ok:
                kinds.add((e.attr, guards[-1]))
                if key not in seen:
                    run.ok(rule, tr.where(fi, e), e.callee[:100], 'control-dependent on a delete flag of the newer node')
            elif ('bad', key) not in seen:
                seen.add(('bad', key))
                run.violation(rule, tr.where(fi, e), e.callee[:100], 'removal from the older tree that is not control-dependent on other.ayns.delete / explicit_delete (facts: %s)' % tr.describe(p, 4))
            seen.add(key)
            n += 1
        for e in p.events:
            if e.kind == 'store' and e.target.startswith('del self'):
                run.violation(rule, tr.where(fi, e), e.target, 'deletion from the older tree outside the checked removal calls')
    if len(kinds) < 3 and not any(isinstance(k, tuple) for k in seen):
        # the deleting-node filter, the removal of an emptied composed child and the removal of a deleted leaf (counted by
        # what is removed under which flag, so that several call sites sharing one helper still count)
        raise AnalysisError('removal guards: expected >= 3 guarded kinds of removal in ComposedNode.on_merge_impl, found %d' % len(kinds))
    # list pre-filter: filters the *newer* tree, keeps every non-deleting node
    li, evs, cb, cpaths = filter_callback(repo, 'ConfigList.ayns.on_merge_impl', 'other')
    for e in evs:
        if (e.recv.text if e.recv is not None else '') != 'other.ayns':
            run.violation(rule, tr.where(li, e), e.callee, 'the list pre-filter prunes %s, not the newer list' % (e.recv.text if e.recv is not None else '?'))
            return
    node = callback_params(cb)[1]
    bad = None
    m = 0
    for q in cpaths:
        if q.status != 'return':
            continue
        dl = [pol for t, pol in q.facts if t == '%s.ayns.delete' % node]
        if not dl:
            if q.ret is None or q.ret.const is not True:
                bad = (q, 'returns %s on a path that does not test the delete flag' % (q.ret.text[:50] if q.ret is not None else None))
            continue
        if dl[0] is False:
            m += 1
            if q.ret is None or q.ret.const is not True:
                bad = (q, 'returns %s for a non-deleting node' % (q.ret.text[:50] if q.ret is not None else None))
    if bad:
        run.violation(rule, cb, 'pre-filter callback: ' + bad[1], 'the pre-filter callback may drop non-deleting nodes (it must keep them unconditionally)')
    elif m == 0:
        raise AnalysisError('list pre-filter: no path for non-deleting nodes found')
    else:
        run.ok(rule, cb, 'pre-filter callback returns True whenever `not node.ayns.delete`', 'non-deleting nodes of the newer list are always kept')


def _prio_call(val):
    """has_priority_over call held in a returned value -> (recv, arg, if_equal) or None"""
    return _prio_atom(val.text) if val is not None else None


def strictness(repo, run, rule):
    """the comparison that protects older entries from a deleting node is strict and asks about the *older* node;
    the comparisons that let the newer node replace win ties"""
    fi, evs, mk, cpaths = filter_callback(repo, 'ComposedNode.ayns.on_merge_impl', 'self')
    node = callback_params(mk)[1]
    n = 0
    for q in cpaths:
        if q.status != 'return':
            continue
        if q.ret is not None and q.ret.const is True:
            run.violation(rule, mk, 'protecting predicate returns True under [%s]' % tr.describe(q, 4), 'an older entry survives a deleting node for a reason other than strictly higher priority (kept whenever %s)' % (tr.describe(q, 3) or 'reached'))
            n += 1
            continue
        a = _prio_call(q.ret)
        if a is None:
            raise AnalysisError('maybe_keep does not end in `return node.ayns.has_priority_over(other_node)` (returns %s)' % (q.ret.text[:60] if q.ret is not None else None))
        n += 1
        recv, arg, ie = a
        looked = [e for e in q.events if e.kind == 'call' and e.attr in ('get_first_not_missing_node', 'get_node') and e.recv is not None and e.recv.text in ('other.ayns', 'other')
                  and e.result is not None and e.result.text == arg]
        if not looked:
            run.violation(rule, mk, q.ret.text[:100], 'the older entry is not compared against the node found at its own (relative) path in the newer tree by one lookup on `other` (it is compared against %s): which node protects / deletes an entry then depends on names elsewhere in the tree' % arg[:60])
            continue
        if recv != node:
            run.violation(rule, mk, q.ret.text[:100], 'the protecting comparison must ask whether the *older* node outranks the newer one')
        elif ie:
            run.violation(rule, mk, q.ret.text[:100], 'an older entry survives a deleting node on *equal* priority (comparison must be strict)')
        else:
            run.ok(rule, mk, q.ret.text[:100], 'older entry kept only on strictly higher priority')
    if not n:
        raise AnalysisError('maybe_keep: no returning path')
    # wholesale replacement of an emptied container: the newer node wins ties
    fi, paths = merge_paths(repo)
    k = 0
    for p in paths:
        for e in p.events:
            if e.kind == 'call' and e.attr == '_replace_other' and (e.recv.text if e.recv is not None else '') == 'other':
                k += 1
                cons = [c for c in prio_constraints(e.facts) if c[0] in ('self', 'other') and c[1] in ('self', 'other')]
                okk = bool(cons) and all(consistent(cons, {'self': a, 'other': b}) == (P(b) >= P(a)) for a in PRIOS for b in PRIOS)
                if okk:
                    run.ok(rule, tr.where(fi, e), e.callee + ' under ' + '; '.join('%s over %s (if_equal=%s) is %s' % c for c in cons), 'newer node replaces on equal priority')
                else:
                    run.violation(rule, tr.where(fi, e), e.callee, 'replacement by the newer node must win ties (newer over older, if_equal=True); facts: %s' % tr.describe(p, 6))
                break
    if not k:
        raise AnalysisError('wholesale replacement (other._replace_other(self)) not found')
    li, evs2, cb, cp2 = filter_callback(repo, 'ConfigList.ayns.on_merge_impl', 'other')
    node2 = callback_params(cb)[1]
    m = 0
    for q in cp2:
        if q.status != 'return' or (q.ret is not None and q.ret.const is True):
            continue
        a = _prio_call(q.ret)
        if a is None:
            raise AnalysisError('list pre-filter callback: return value %s not recognised' % (q.ret.text[:60] if q.ret is not None else None))
        m += 1
        if a[0] == node2 and a[2] is True:
            run.ok(rule, cb, q.ret.text[:100], 'newer node replaces on equal priority')
        else:
            run.violation(rule, cb, q.ret.text[:100], 'replacement by the newer node must win ties (newer over older, if_equal=True)')
    if not m:
        raise AnalysisError('list pre-filter callback: priority comparison not found')


# ------------------------------------------------------------------------------------------------------------
_ELEMS = ('self.stages[each(range(1, len(self.stages)))]', 'each(self.stages[1:])', 'each(itertools.islice(self.stages, 1, None))', 'each(islice(self.stages, 1, None))')


def wholesale_check(repo, run, rule):
    """the wholesale replacement of an emptied container by the newer node is preceded by the new-path check on it"""
    fi, paths = merge_paths(repo)
    n = 0
    done = set()
    for p in paths:
        for i, e in enumerate(p.events):
            if e.kind == 'call' and e.attr in ('_replace_other', '_replace_self') and (e.recv.text if e.recv is not None else '') == 'other':
                n += 1
                pre = [c for c in p.events[:i] if c.kind == 'call' and c.attr == '_require_all_new' and (c.recv.text if c.recv is not None else '') == 'other.ayns'
                       and c.args and c.args[0].text == fi.params()[1] and c.kw.get('exceptions') is not None]
                k = (id(e.node), bool(pre))
                if k in done:
                    continue
                done.add(k)
                emptied = any((t in ('self._children', 'len(self._children)', 'self') and not pol) or (t in ('not self._children', 'len(self._children) == 0') and pol) for t, pol in e.facts)
                wins = any(pol and t.startswith('other.ayns.has_priority_over(self') for t, pol in e.facts)
                if pre and not (emptied and wins):
                    run.violation(rule, tr.where(fi, e), 'wholesale replacement: ' + e.callee, 'the older container is replaced wholesale by the deleting node %s: entries the pruning kept (higher priority) are thrown away' % (
                        'although it is not known to be empty' if not emptied else 'although the deleting node is not known to win'))
                elif pre:
                    run.ok(rule, tr.where(fi, e), 'wholesale replacement: ' + e.callee, 'other.ayns._require_all_new(path, exceptions=removed) precedes')
                else:
                    run.violation(rule, tr.where(fi, e), 'wholesale replacement: ' + e.callee, 'the newer subtree replaces the older one without the new-path check')
    if not n:
        raise AnalysisError('wholesale replacement (other._replace_other(self)) not found')


def flatten_paths(repo):
    fi = repo.func('Builder.flatten')
    return fi, tr.paths_of(repo, fi, no_inline={'merge', '_require_all_new', 'premerge'}, follow_exceptions=False, mark_carried=True)


def flatten_fold(repo, run, rule):
    """left fold over all stages in Builder.flatten: acc = stages[0]; acc = acc.merge(stage_i) for i = 1..n-1 in order; stages = [acc]"""
    fi, paths = flatten_paths(repo)
    n = 0
    probs = []
    unknown = []
    for p in paths:
        if p.status != 'return':
            continue
        merges = [e for e in p.events if e.kind == 'call' and e.attr == 'merge']
        stores = [e for e in p.events if e.kind == 'store' and e.target == 'self.stages']
        small = tr.fact(p, 'len(self.stages) < 2', True) or tr.fact(p, 'len(self.stages) >= 2', False) or tr.fact(p, 'len(self.stages) == 1', True) or tr.fact(p, 'len(self.stages) > 1', False)
        if small:
            if merges:
                probs.append((merges[0], 'a single stage is merged'))
            continue
        if not stores:
            if not merges and any('len(self.stages)' in t for t, _ in p.facts):
                continue        # a path that tested the number of stages and merged nothing: the single-stage case, however the test is spelled
            probs.append((tr.final_event(p), 'the folded result does not replace self.stages'))
            continue
        st = stores[-1]
        el = st.value.elems
        if el is None or len(el) != 1:
            probs.append((st, 'self.stages is replaced by %s, not by the single folded stage' % st.value.text[:60]))
            continue
        x = el[0].text
        if not merges:
            if x not in ('self.stages[0]', 'carried(self.stages[0])'):
                unknown.append('zero-iteration result %s not recognised' % x[:60])
            continue
        n += 1
        grouped = [m for m in merges if (m.recv.text if m.recv is not None else '').replace('carried(', '').startswith(('self.stages[', 'each(self.stages'))
                   and not (m.recv.text if m.recv is not None else '').replace('carried(', '').startswith('self.stages[0]')]
        if grouped:
            probs.append((grouped[0], 'a later stage is merged into another later stage (%s) before reaching the accumulated result: not a left fold over the stages' % grouped[0].callee[:60]))
            continue
        if len(merges) != 1:
            unknown.append('more than one merge per iteration')
            continue
        m = merges[0]
        recv = m.recv.text if m.recv is not None else ''
        arg = m.args[0].text if m.args else ''
        if not m.in_loop:
            unknown.append('merge outside a loop')
            continue
        if recv != 'carried(self.stages[0]).ayns':
            if recv == 'self.stages[0].ayns':
                probs.append((m, 'every stage is merged into stages[0] instead of into the accumulated result (the accumulator is not the receiver of merge)'))
            elif recv.startswith('each(') or recv.startswith('self.stages[each('):
                probs.append((m, 'the accumulator is not the receiver of merge (%s)' % m.callee[:80]))
            else:
                unknown.append('merge receiver %s not recognised' % recv[:60])
        if arg not in _ELEMS:
            if any(k in arg for k in ('reversed', 'sorted', '[::-1]', '[2:]', '[:-1]', 'range(2', 'range(0', 'range(len')) or arg.startswith('carried('):
                probs.append((m, 'fold visits %s (not every later stage in order)' % arg[:80]))
            else:
                unknown.append('iteration space %s not recognised' % arg[:80])
        if x != m.result.text:
            probs.append((st, 'the folded result does not replace self.stages (%s)' % x[:60]))
    if any(isinstance(c_, ast.Call) and norm(c_.func) in ('functools.reduce', 'reduce') for c_ in ast.walk(fi.node)):
        probs, unknown, n = [], ['the fold is written with functools.reduce'], 0
    # (what is merged into what, in which order, is decided by evaluation - buildrules.builder_pipeline runs Builder.flatten on lists of
    # stand-in stages; the shape read off the trace is reported only when it is a recognised one)
    if not n and not probs:
        run.info(rule, fi, 'fold over stages', 'fold loop not in a recognised shape on the trace; decided by the evaluated pipeline')
    elif unknown and not probs:
        run.info(rule, fi, 'fold over stages', '%s; decided by the evaluated pipeline' % unknown[0])
    elif probs:
        seen = set()
        for ev, why in probs:
            if why not in seen:
                seen.add(why)
                run.violation(rule, tr.where(fi, ev), 'fold over stages', why)
    else:
        run.ok(rule, fi, 'fold over stages (%d folding paths)' % n, 'left fold: acc=stages[0]; acc=acc.merge(stage_i) for i=1..n-1; stages=[acc]')
    # merge(): premerge then on_merge with an empty path
    mg = repo.func('ConfigNode.ayns.merge')
    mp = tr.paths_of(repo, mg, no_inline={'premerge', 'on_merge', 'allow_new'}, follow_exceptions=False)
    k = 0
    for p in mp:
        if not tr.fact(p, 'other is None', False):
            continue
        if p.status != 'return':
            raise AnalysisError('ConfigNode.ayns.merge: raising path for a present operand')
        k += 1
        pm = [i for i, e in enumerate(p.events) if e.kind == 'call' and e.attr == 'premerge' and (e.recv.text if e.recv is not None else '') == 'other.ayns' and e.args and e.args[0].text == 'self']
        om = [i for i, e in enumerate(p.events) if e.kind == 'call' and e.attr == 'on_merge' and (e.recv.text if e.recv is not None else '') == 'self.ayns'
              and len(e.args) == 2 and e.args[0].text in ('NodePath()', '[]') and e.args[1].text == 'other']
        if len(pm) != 1 or len(om) != 1 or pm[0] > om[0] or p.ret is None or p.ret.text != p.events[om[0]].result.text:
            raise AnalysisError('ConfigNode.ayns.merge: shape `other.ayns.premerge(self); return self.ayns.on_merge(NodePath(), other)` not recognised')
    if not k:
        raise AnalysisError('ConfigNode.ayns.merge: no path for a present operand')
    run.ok(rule, mg, 'merge(other): other.premerge(self) then self.on_merge(NodePath(), other)')


def first_stage_check(repo, run, rule):
    """Builder.flatten checks the first stage with _require_all_new([]) on every completing path, before any merge"""
    fi, paths = flatten_paths(repo)
    bad = None
    n = 0
    for p in paths:
        if p.status != 'return':
            continue
        n += 1
        chk = [i for i, e in enumerate(p.events) if e.kind == 'call' and e.attr == '_require_all_new' and (e.recv.text if e.recv is not None else '') == 'self.stages[0].ayns'
               and e.args and e.args[0].text in ('[]', 'NodePath()')]
        mg = [i for i, e in enumerate(p.events) if e.kind == 'call' and e.attr == 'merge']
        stores = [i for i, e in enumerate(p.events) if e.kind == 'store' and e.target.startswith('self.stages[0')]
        if not chk or (mg and mg[0] < chk[0]):
            bad = tr.final_event(p) if not chk else p.events[mg[0]]
        elif stores and stores[-1] > chk[0]:
            bad = p.events[stores[-1]]
    if not n:
        raise AnalysisError('Builder.flatten: no completing path')
    if bad is not None:
        run.violation(rule, tr.where(fi, bad), 'first-stage new-path check', 'the first document is not checked with self.stages[0].ayns._require_all_new([], ...) before folding / returning')
    else:
        run.ok(rule, fi, "self.stages[0].ayns._require_all_new([], ...) on all %d completing paths" % n, 'before the fold and before the single-stage return')


def function_node_decisions(repo, run, rule):
    """FunctionNode.ayns.on_merge_impl: self._replace_self(other) runs only when the newer node has priority (ties included),
    self._replace_other(other) only when the older one strictly outranks it - for every priority pair consistent with the path"""
    fi = repo.func('FunctionNode.ayns.on_merge_impl')
    paths = tr.paths_of(repo, fi, no_inline=set(NI), follow_exceptions=True)
    n = 0
    verdicts = set()
    for p in paths:
        for e in p.events:
            if e.kind == 'call' and e.attr in ('_replace_self', '_replace_other') and e.recv is not None and e.recv.text == 'self':
                n += 1
                cs = prio_constraints(e.facts)
                want_newer = e.attr == '_replace_self'
                okk = bool(cs) and all((not consistent(cs, {'self': a, 'other': b})) or ((P(b) >= P(a)) == want_newer) for a in PRIOS for b in PRIOS)
                if okk:
                    verdicts.add(('ok', 'self.%s(other) exactly when the %s node has priority (newer wins ties)' % (e.attr, 'newer' if want_newer else 'older')))
                else:
                    verdicts.add(('bad', 'function-node merge must let the newer node win on equal priority: self.%s(other) runs under [%s]' % (e.attr, tr.describe(p, 4))))
    if n < 2:
        raise AnalysisError('FunctionNode.on_merge_impl: survivor calls not found (%d)' % n)
    for v in sorted(verdicts):
        (run.ok if v[0] == 'ok' else run.violation)(rule, fi, 'FunctionNode merge: survivor', v[1])


def counterpart_lookup(repo, run, rule):
    """locality of the pruning predicates: each one compares the entry it is asked about with the node found by ONE lookup of that
    entry's own path in the opposite tree (maybe_keep: `other`; list pre-filter: `self`) - not with a node obtained any other way"""
    for host, recv_names, what in (('ComposedNode.ayns.on_merge_impl', ('other.ayns', 'other'), 'newer'), ('ConfigList.ayns.on_merge_impl', ('self.ayns', 'self'), 'older')):
        fi, evs, cb, cpaths = filter_callback(repo, host, None)
        ps = callback_params(cb)
        n = 0
        for q in cpaths:
            if q.status != 'return' or q.ret is None or q.ret.const is True:
                continue
            a = _prio_atom(q.ret.text)
            if a is None:
                continue
            n += 1
            arg = a[1]
            looked = [e for e in q.events if e.kind == 'call' and e.attr in ('get_first_not_missing_node', 'get_node') and e.recv is not None and e.recv.text in recv_names
                      and e.result is not None and e.result.text == arg]
            if not looked:
                run.violation(rule, cb, q.ret.text[:100], 'the entry is not compared against the node found at its own path in the %s tree by one lookup (it is compared against %s): the outcome then depends on names elsewhere in the tree' % (what, arg[:60]))
            elif not looked[0].args or ps[0] not in looked[0].args[0].text:
                run.violation(rule, cb, looked[0].callee[:100], 'the counterpart is looked up at %s, which does not derive from the path of the entry being decided' % (looked[0].args[0].text[:50] if looked[0].args else None))
            else:
                run.ok(rule, cb, looked[0].callee[:100], 'counterpart = node at the entry\'s own path in the %s tree' % what)
        if not n:
            raise AnalysisError('%s: priority comparison of the pruning predicate not found' % host)
