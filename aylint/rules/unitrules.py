"""Small evaluated tables for constructors / getters / overrides that the larger rules take for granted.

Each rule evaluates one function of the package (finite-domain evaluator or tracer) on a handful of inputs that span its
decision points and compares with what the property requires.  They exist because first-order mutants of these functions
(negated test, dropped call) pass the pinned test-suite: see tools/triage_mutants.py."""
import ast
import collections.abc as cabc
import importlib.util
import os

from ..fde import FDE, Obj, Opaque, Unsupported, Raised
from ..report import AnalysisError
from ..srcmodel import norm
from . import tr
from ..tracer import Tracer
from .common import node_obj, fde_guard, thorough


def _fde(repo, stubs=(), stub=None):
    ev = FDE(repo, stubs=set(stubs), stub=stub)
    ev.externals.update({'Sequence': cabc.Sequence, 'cabc.Sequence': cabc.Sequence, 'collections.abc.Sequence': cabc.Sequence,
                         'Mapping': cabc.Mapping, 'cabc.Mapping': cabc.Mapping, 'MutableSequence': cabc.MutableSequence, 'cabc.MutableSequence': cabc.MutableSequence})
    return ev


def list_operator_init(repo, run, rule):
    """AppendNode / ExtendNode(value): a sequence other than str / bytes is the content as it is, anything else becomes the
    single element of the content"""
    for cls in ('AppendNode', 'ExtendNode'):
        fi = repo.func(cls + '.__init__')
        bad = []
        for value, wrapped in ((5, True), ('ab', True), (b'x', True), (None, True), ([1, 2], False), ((1, 2), False), ([], False)):
            got = []
            ev = _fde(repo, stubs={'__init__'}, stub=lambda name, recv, args, kwargs: got.append((args, kwargs)))
            me = Obj('node', cls)
            try:
                r = ev.call(fi, me, value)
            except Unsupported as e:
                raise AnalysisError('%s.__init__: finite-domain evaluator refused: %s' % (cls, e))
            if r.raised or len(got) != 1 or not got[0][0]:
                bad.append('%r: the list constructor is %s' % (value, 'not reached (%s)' % r.raised if r.raised else 'called %d times' % len(got)))
                continue
            content = got[0][0][0]
            want = [value] if wrapped else value
            if content != want or (not wrapped and content is not value):
                bad.append('%r becomes the content %r, expected %r' % (value, content, want))
        if bad:
            run.violation(rule, fi, '%s(value)' % cls, '; '.join(bad[:3]) + ' (a scalar / str / bytes is one element, a sequence is the elements)')
        else:
            run.ok(rule, fi, '%s(value): 7 value kinds evaluated' % cls, 'scalars, str, bytes, None wrapped into one element; lists / tuples taken as they are')


def clear_init(repo, run, rule):
    """ClearNode(value): !clear takes no argument - None constructs the node (base constructor called once), anything else is rejected"""
    fi = repo.func('ClearNode.__init__')
    bad = []
    for value in (None, 0, '', 'x', [], [1]):
        got = []
        ev = _fde(repo, stubs={'__init__'}, stub=lambda name, recv, args, kwargs: got.append((args, kwargs)))
        try:
            r = ev.call(fi, Obj('node', 'ClearNode'), value)
        except Unsupported as e:
            raise AnalysisError('ClearNode.__init__: finite-domain evaluator refused: %s' % e)
        if value is None:
            if r.raised or len(got) != 1:
                bad.append('!clear without argument: %s' % ('raises %s' % r.raised if r.raised else 'base constructor called %d times' % len(got)))
        elif r.raised != 'ValueError':
            bad.append('!clear with argument %r is not rejected with ValueError (%s)' % (value, r.raised or 'accepted'))
    if bad:
        run.violation(rule, fi, 'ClearNode(value)', '; '.join(bad[:3]))
    else:
        run.ok(rule, fi, 'ClearNode(value): None accepted, 5 other values rejected', 'ValueError for any argument; base constructor runs once')


def function_tags(repo, run, rule):
    """the tag a !call / !bind node is written with names its target: the stored name, or module.name of a stored callable"""
    for cls, prefix in (('CallNode', '!call:'), ('BindNode', '!bind:')):
        fi = repo.classes[cls].ayns.get('tag')
        if fi is None:
            raise AnalysisError('%s.ayns.tag not found' % cls)
        bad = []
        fn = Obj('fn', '<function>', __module__='pkg.mod', __name__='make')
        for func, want in (('pkg.mod.make', prefix + 'pkg.mod.make'), (fn, prefix + 'pkg.mod.make'), ('f', prefix + 'f')):
            ev = _fde(repo)
            try:
                r = ev.call(fi, Obj('node', cls, _func=func))
            except Unsupported as e:
                raise AnalysisError('%s.ayns.tag: finite-domain evaluator refused: %s' % (cls, e))
            if r.raised or r.ret != want:
                bad.append('target %s is written as %r, expected %r' % ('callable pkg.mod.make' if func is fn else repr(func), r.raised or r.ret, want))
        if bad:
            run.violation(rule, fi, '%s tag' % cls, '; '.join(bad[:3]))
        else:
            run.ok(rule, fi, '%s tag for a named and for a resolved target' % cls, prefix + '<module>.<name>')


def _pyyaml_method_names():
    spec = importlib.util.find_spec('yaml')
    if spec is None or not spec.origin:
        raise AnalysisError('PyYAML sources not found')
    names = set()
    d = os.path.dirname(spec.origin)
    for f in ('emitter.py', 'serializer.py', 'representer.py', 'resolver.py', 'constructor.py', 'composer.py', 'parser.py', 'scanner.py', 'reader.py', 'dumper.py', 'loader.py'):
        try:
            tree = ast.parse(open(os.path.join(d, f)).read())
        except OSError:
            continue
        for c in tree.body:
            if isinstance(c, ast.ClassDef):
                names.update(m.name for m in c.body if isinstance(m, ast.FunctionDef))
    if len(names) < 100:
        raise AnalysisError('PyYAML sources: only %d method names found' % len(names))
    return names


def overrides_delegate(repo, run, rule, cls, value_returning=True, floor=3):
    """every method of `cls` that overrides a PyYAML method hands its own arguments to the overridden method on every path that
    completes - except under the unquoted-output switch the class adds - and (for the dumper) returns what that method returned"""
    base = _pyyaml_method_names()
    n = 0
    for name, fi in sorted(repo.classes[cls].methods.items()):
        if name not in base or fi.is_contextmanager:
            continue
        n += 1
        params = fi.params()[1:]
        a = fi.node.args
        probs = []
        for p in tr.paths_of(repo, fi, follow_exceptions=False):
            if p.status != 'return':
                continue
            sup = [e for e in p.events if e.kind == 'call' and e.callee == 'super().' + name]
            switch = any(pol and '_unquoted' in t for t, pol in p.facts)
            if not sup:
                if not switch:
                    probs.append('a completing path never calls the PyYAML %s it overrides [%s]' % (name, tr.describe(p, 3) or 'unconditional'))
                continue
            if len(sup) > 1:
                probs.append('the overridden %s is called %d times on one path' % (name, len(sup)))
                continue
            e = sup[0]
            passed = [x.text for x in e.args] + ['%s=%s' % (k, v.text) for k, v in e.kw.items()]
            for i, prm in enumerate(params):
                if name == 'construct_object' and prm == 'convert':
                    continue          # the loader's own extra parameter
                ok = (i < len(e.args) and e.args[i].text == prm) or (prm in e.kw and e.kw[prm].text == prm)
                if not ok:
                    probs.append('argument %s is not handed on to the overridden %s (passed: %s)' % (prm, name, ', '.join(passed)[:80]))
            if a.vararg and not any(x.text == '*' + a.vararg.arg for x in e.args):
                probs.append('*%s is not handed on to the overridden %s' % (a.vararg.arg, name))
            if a.kwarg and not any(k.startswith('**') and v.text == a.kwarg.arg for k, v in e.kw.items()):
                probs.append('**%s is not handed on to the overridden %s' % (a.kwarg.arg, name))
            if value_returning and name != '__init__':
                fin = tr.final_event(p)
                rt = fin.value.text if fin is not None and fin.value is not None else 'None'
                has_return = any(isinstance(x, ast.Return) and x.value is not None and not (isinstance(x.value, ast.Constant) and x.value.value is None) for x in ast.walk(fi.node))
                if has_return and rt != e.result.text:
                    probs.append('%s returns %s, not what the overridden method returned' % (name, rt[:50]))
        if probs:
            run.violation(rule, fi, '%s.%s overrides PyYAML' % (cls, name), '; '.join(sorted(set(probs))[:3]))
        else:
            run.ok(rule, fi, '%s.%s delegates to the PyYAML method it overrides' % (cls, name), 'own arguments handed on, result returned; only the unquoted-output switch may answer by itself')
    if n < floor:
        raise AnalysisError('%s: only %d overrides of PyYAML methods found' % (cls, n))


def wrapped_node_origin(repo, run, rule):
    """AwesomeyamlLoader._convert: a node wrapped from a plain PyYAML value records the stage index and the file being parsed,
    but a node that already carries them (built by a tag constructor) keeps its own"""
    fi = repo.func('AwesomeyamlLoader._convert')
    bad = []
    for has_idx, has_file in ((False, False), (True, False), (False, True), (True, True)):
        made = Obj('made', 'ConfigNode', _idx=7 if has_idx else None, _source_file='own.yaml' if has_file else None)

        def stub(name, recv, args, kwargs, made=made):
            if name == 'get_next_stage_idx':
                return 3
            if name == 'get_current_file':
                return 'current.yaml'
            raise AnalysisError('_convert: unexpected stub ' + name)
        ev = _fde(repo, stubs={'get_next_stage_idx', 'get_current_file'}, stub=stub)
        loader = Obj('loader', 'AwesomeyamlLoader', context=Obj('ctx', 'Builder'))
        ynode = Obj('ynode', '<yaml node>', value='x')
        # ConfigNode(value, pyyaml_node=node) is the construction of the wrapper: stand-in = the prepared node
        ev.constructors['ConfigNode'] = lambda *a, **k: made
        try:
            r = ev.call(fi, loader, 'x', ynode)
        except Unsupported as e:
            raise AnalysisError('_convert: finite-domain evaluator refused: %s' % e)
        if r.raised:
            bad.append('wrapping raises %s' % r.raised)
            continue
        got = r.ret if isinstance(r.ret, Obj) else made
        want_idx, want_file = (7 if has_idx else 3), ('own.yaml' if has_file else 'current.yaml')
        if got.f.get('_idx') != want_idx:
            bad.append('stage index %r, expected %r (node %s an index)' % (got.f.get('_idx'), want_idx, 'had' if has_idx else 'had no'))
        if got.f.get('_source_file') != want_file:
            bad.append('source file %r, expected %r (node %s a source file)' % (got.f.get('_source_file'), want_file, 'had' if has_file else 'had no'))
    if bad:
        run.violation(rule, fi, 'AwesomeyamlLoader._convert', '; '.join(sorted(set(bad))[:3]))
    else:
        run.ok(rule, fi, '_convert: origin recorded on 4 node states', 'missing stage index / source file filled from the parse context, existing ones kept')


def clear_premerge(repo, run, rule):
    """ClearNode premerge: the node at the same path of the older tree is emptied and is the result; a missing one is a KeyError"""
    fi = repo.func('ClearNode.ayns.on_premerge_impl')
    bad = []
    for exists in (True, False):
        target = Obj('older', 'ConfigDict')
        log = []

        def stub(name, recv, args, kwargs, target=target, exists=exists, log=log):
            log.append((name, getattr(recv, 'name', None)))
            if name == 'get_node':
                return target if exists else None
            return None
        ev = _fde(repo, stubs={'get_node', 'clear', 'remove_node'}, stub=stub)
        try:
            r = ev.call(fi, Obj('clr', 'ClearNode'), ['a'], Obj('into', 'ConfigDict'))
        except Unsupported as e:
            raise AnalysisError('ClearNode.on_premerge_impl: finite-domain evaluator refused: %s' % e)
        cleared = [x for x in log if x == ('clear', 'older')]
        if exists and (r.raised or r.ret is not target or len(cleared) != 1):
            bad.append('existing target: %s' % ('raises %s' % r.raised if r.raised else ('returns %r, cleared %d times' % (r.ret, len(cleared)))))
        if not exists and r.raised != 'KeyError':
            bad.append('missing target: %s (expected KeyError)' % (r.raised or 'returns %r' % (r.ret,)))
    if bad:
        run.violation(rule, fi, '!clear premerge', '; '.join(bad))
    else:
        run.ok(rule, fi, '!clear premerge on an existing / a missing target', 'existing node cleared once and returned; missing node -> KeyError')


def subbuilder_request(repo, run, rule):
    """Builder.get_subbuilder: only while a stage is being preprocessed (RuntimeError otherwise); the sub-builder knows its
    requester, its parent and the parent's current stage"""
    fi = repo.func('Builder.get_subbuilder')
    bad = []
    for cur in (None, 0, 2):
        made = []
        ev = _fde(repo)
        ev.constructors['SubBuilder'] = lambda *a, **k: made.append((a, k)) or Obj('sub', 'SubBuilder')
        from .common import builder_obj
        b = builder_obj(repo, stages=[], _current_file=None, _current_stage=cur)
        try:
            r = ev.call(fi, b, ['inc'])
        except Unsupported as e:
            raise AnalysisError('Builder.get_subbuilder: finite-domain evaluator refused: %s' % e)
        if cur is None:
            if r.raised != 'RuntimeError':
                bad.append('outside preprocessing: %s (expected RuntimeError)' % (r.raised or 'a sub-builder is handed out'))
        elif r.raised or len(made) != 1 or list(made[0][0]) != [['inc'], b]:
            bad.append('while stage %r is preprocessed: %s' % (cur, 'raises %s' % r.raised if r.raised else 'SubBuilder constructed with %s' % (made,)))
    if bad:
        run.violation(rule, fi, 'Builder.get_subbuilder', '; '.join(bad))
    else:
        run.ok(rule, fi, 'get_subbuilder with / without a current stage', 'RuntimeError outside preprocessing; SubBuilder(requester, self) inside')
    init = repo.func('SubBuilder.__init__')
    inits = []
    ev = _fde(repo, stubs={'get_current_stage_idx', '__init__'}, stub=lambda name, recv, args, kwargs: 5 if name == 'get_current_stage_idx' else inits.append(name))
    sub = Obj('sub', 'SubBuilder')
    parent = Obj('parent', 'Builder')
    try:
        r = ev.call(init, sub, ['inc'], parent)
    except Unsupported as e:
        raise AnalysisError('SubBuilder.__init__: finite-domain evaluator refused: %s' % e)
    if not r.raised and len(inits) != 1:
        run.violation(rule, init, 'SubBuilder.__init__', 'the Builder constructor runs %d times: a sub-builder without its own (empty) list of stages cannot collect the included documents' % len(inits))
    elif r.raised or sub.f.get('requester') != ['inc'] or sub.f.get('parent') is not parent or sub.f.get('stage') != 5:
        run.violation(rule, init, 'SubBuilder.__init__', 'requester / parent / stage are %r / %r / %r, expected the arguments and the parent\'s current stage index' % (sub.f.get('requester'), sub.f.get('parent'), sub.f.get('stage')))
    else:
        run.ok(rule, init, 'SubBuilder remembers requester, parent and the parent\'s current stage')


def require_all_new_table(repo, run, rule):
    """ComposedNode.ayns._require_all_new evaluated: by default the node itself is part of what is checked; a node (the node
    itself included) that forbids new paths raises unless it is in the exceptions; include_self=False leaves the node out"""
    fi = repo.func('ComposedNode.ayns._require_all_new')
    bad = []
    rows = 0
    for self_new in (True, False):
        for child_new in (True, False):
            for include_self in ('default', True, False):
                for exc in (None, 'self', 'child'):
                    me = node_obj('me', 'ConfigDict', _allow_new=self_new, _implicit_allow_new=self_new)
                    child = node_obj('child', 'ConfigDict', _allow_new=child_new, _implicit_allow_new=child_new)

                    def stub(name, recv, args, kwargs, me=me, child=child):
                        if name == 'nodes_with_paths':
                            inc = kwargs.get('include_self', False)      # (the traversal's own default)
                            pref = kwargs.get('prefix', args[0] if args else None) or ()
                            return ([(tuple(pref), me)] if inc else []) + [(tuple(pref) + ('c',), child)]
                        raise AnalysisError('_require_all_new: unexpected stub ' + name)
                    ev = _fde(repo, stubs={'nodes_with_paths'}, stub=stub)
                    kw = {}
                    if include_self != 'default':
                        kw['include_self'] = include_self
                    if exc is not None:
                        kw['exceptions'] = {('p',)} if exc == 'self' else {('p', 'c')}
                    try:
                        r = ev.call(fi, me, ('p',), 'reason', **kw)
                    except Unsupported as e:
                        raise AnalysisError('_require_all_new: finite-domain evaluator refused: %s' % e)
                    rows += 1
                    checks_self = include_self in ('default', True)
                    want = (checks_self and not self_new and exc != 'self') or (not child_new and exc != 'child')
                    if bool(r.raised == 'ValueError') != want or (r.raised and r.raised != 'ValueError'):
                        bad.append('node allow_new=%s, child allow_new=%s, include_self=%s, exceptions=%s: %s, expected %s' % (
                            self_new, child_new, include_self, exc, r.raised or 'passes', 'ValueError' if want else 'no error'))
    if bad:
        run.violation(rule, fi, '_require_all_new', '; '.join(bad[:3]))
    else:
        run.ok(rule, fi, '_require_all_new evaluated on %d rows' % rows, 'self included by default; any checked node that forbids new paths raises unless excepted')


def require_all_new_shared_nodes(repo, run, rule):
    """ComposedNode.ayns._require_all_new evaluated on a concrete tree in which ONE node object sits under two paths (a tagged YAML
    anchor and its alias), with the traversal evaluated too: the check is per path - the node at a path that is not excepted raises
    even when the same object was already seen, and passed, at an excepted path (a wholesale replacement excepts exactly the paths it
    removed)"""
    from ..fde import PathVal
    fi = repo.func('ComposedNode.ayns._require_all_new')

    def pv(x):
        if isinstance(x, PathVal):
            return x
        if x is None:
            return PathVal([], '')
        return PathVal(list(x), '.'.join(map(str, x)))

    def stub(name, recv, a, k):
        if name == 'get_list_path':
            return pv(a[0] if a else None)
        raise Unsupported('call of ' + name)
    bad = []
    rows = 0
    for shape in ('leaf', 'container'):
        for exc, want in (([('p', 'a')], True), ([('p', 'b')], True), ([('p', 'a'), ('p', 'b')], shape == 'container'), (None, True), ([('p', 'a'), ('p', 'b'), ('p', 'a', 'x'), ('p', 'b', 'x')], False)):
            leaf = node_obj('X', 'ConfigScalar', _allow_new=False, _implicit_allow_new=False)
            if shape == 'leaf':
                shared = leaf
            else:
                shared = node_obj('S', 'ConfigDict', _children={'x': leaf}, _allow_new=None, _implicit_allow_new=None)
            me = node_obj('me', 'ConfigDict', _children={'a': shared, 'b': shared}, _allow_new=None, _implicit_allow_new=None)
            f = FDE(repo, stubs={'get_list_path'}, stub=stub, max_depth=12)
            f.constructors = {'NodePath': lambda *a, **k: pv(a[0] if a else None)}
            r = fde_guard(lambda: f.call(fi, me, pv(['p']), 'reason', exceptions=None if exc is None else [pv(list(e)) for e in exc]))
            rows += 1
            if r.raised not in (None, 'ValueError'):
                raise AnalysisError('%s: _require_all_new on a concrete tree raises %s' % (rule, r.raised))
            if bool(r.raised) != want:
                bad.append('one %s that forbids new paths sits under p.a and p.b, exceptions %s: %s, expected %s' % (
                    '!notnew node' if shape == 'leaf' else 'mapping with a !notnew entry x', exc, 'ValueError' if r.raised else 'no error', 'ValueError naming the path that is not excepted' if want else 'no error'))
    run.table(rule, rows, '_require_all_new with one node object under two paths x exceptions')
    if bad:
        run.violation(rule, fi, '_require_all_new: a node reachable under two paths', bad[0] + (' [%d rows]' % len(bad) if len(bad) > 1 else ''), witness=bad[:4])
    else:
        run.ok(rule, fi, 'the new-path check is made per path, also for node objects that occur more than once (%d rows)' % rows)


def remove_node_table(repo, run, rule):
    """ComposedNode.ayns._remove_node evaluated against a lookup stand-in that follows get_node's contract (missing path: None
    only when incomplete=None was asked for, KeyError by default): missing -> None and nothing removed; existing -> the removal
    function is applied to (parent, last name) and its result returned; the node itself -> ValueError"""
    fi = repo.func('ComposedNode.ayns._remove_node')
    bad = []
    root, mid, leaf = Obj('root', 'ConfigDict'), Obj('mid', 'ConfigDict'), Obj('leaf', 'ConfigNode')
    for case in ('missing', 'existing', 'self'):
        removed = []

        def stub(name, recv, args, kwargs, case=case):
            if name == 'get_node':
                if not (kwargs.get('intermediate') and kwargs.get('names')):
                    raise AnalysisError('_remove_node: lookup without intermediate=True, names=True')
                if case == 'missing':
                    if 'incomplete' in kwargs and kwargs['incomplete'] is None:
                        return None
                    if kwargs.get('incomplete'):
                        return [(root, None, []), (None, 'a', ['a'])]
                    raise Raised('KeyError')
                if case == 'self':
                    return [(root, None, [])]
                return [(root, None, []), (mid, 'a', ['a']), (leaf, 'b', ['a', 'b'])]
            raise AnalysisError('_remove_node: unexpected stub ' + name)

        def remove_fn(parent, name_):
            removed.append((parent, name_))
            return 'removed-node'
        remove_fn._fde_ok = True
        ev = _fde(repo, stubs={'get_node'}, stub=stub)
        path = [] if case == 'self' else ['a', 'b']
        try:
            r = ev.call(fi, root, remove_fn, *path)
        except Unsupported as e:
            raise AnalysisError('_remove_node: finite-domain evaluator refused: %s' % e)
        if case == 'missing' and (r.raised or r.ret is not None or removed):
            bad.append('a missing path gives %s (expected None, nothing removed)' % (r.raised or ('%r, removed %s' % (r.ret, removed))))
        if case == 'existing' and (r.raised or r.ret != 'removed-node' or removed != [(mid, 'b')]):
            bad.append('an existing path: %s (expected remove_fn(parent, last name) and its result)' % (r.raised or ('%r, removed %s' % (r.ret, removed))))
        if case == 'self' and r.raised != 'ValueError':
            bad.append('the empty path (the node itself): %s (expected ValueError)' % (r.raised or repr(r.ret)))
    if bad:
        run.violation(rule, fi, '_remove_node', '; '.join(bad))
    else:
        run.ok(rule, fi, '_remove_node on a missing / existing / empty path', 'None / remove_fn(parent, name) / ValueError')


def _tree(spec, name='root'):
    """abstract tree from a nested dict spec: {'a': None (leaf), 'b': {...}}"""
    kids = {}
    for k, v in spec.items():
        kids[k] = node_obj(name + '.' + k, 'ConfigNode') if v is None else _tree(v, name + '.' + k)
    return node_obj(name, 'ConfigDict', _children=kids)


def _shape(o):
    ch = o.f.get('_children')
    if not isinstance(ch, dict):
        return None
    return {k: _shape(v) for k, v in ch.items()}


def filter_nodes_table(repo, run, rule):
    """ComposedNode.ayns.filter_nodes evaluated on a two-level tree for every verdict table of the condition: an entry survives
    iff the condition keeps it or it is a container that still has entries after filtering; every removed path is reported"""
    import itertools
    fi = repo.func('ComposedNode.ayns.filter_nodes')
    spec = {'a': None, 'b': {'c': None, 'd': None}, 'e': {}}
    paths = [('a',), ('b',), ('b', 'c'), ('b', 'd'), ('e',)]
    bad = []
    rows = 0
    for verdicts in itertools.product((False, True), repeat=len(paths)):
        keepers = {p for p, v in zip(paths, verdicts) if v}
        root = _tree(spec)

        def cond(path, node, keepers=keepers):
            return tuple(path[1:]) in keepers       # (paths carry the prefix 'r' the walk was started with)
        cond._fde_ok = True

        def stub(name, recv, args, kwargs):
            if name == 'named_children':
                return list(recv.f['_children'].items())
            if name == 'remove_child':
                return recv.f['_children'].pop(args[0], None)
            if name == 'set_child':
                recv.f['_children'][args[0]] = args[1]
                return args[1]
            if name == 'get_list_path':
                return list(args[0]) if args and args[0] is not None else []
            if name == 'add' and getattr(recv, 'name', None) == 'removed':
                removed.add(tuple(args[0][1:]))
                return None
            if name == 'update' and getattr(recv, 'name', None) == 'removed':
                for x_ in (list(args[0]) if args else []):
                    removed.add(tuple(x_[1:]))
                return None
            raise AnalysisError('filter_nodes: unexpected stub ' + name)
        ev = _fde(repo, stubs={'named_children', 'remove_child', 'set_child', 'get_list_path', 'add', 'update'}, stub=stub)
        removed = set()
        try:
            r = ev.call(fi, root, cond, prefix=['r'], removed=Obj('removed', '<set of paths>'))
        except Unsupported as e:
            raise AnalysisError('filter_nodes: finite-domain evaluator refused: %s' % e)
        rows += 1
        # model
        want_b = {k: None for k in ('c', 'd') if ('b', k) in keepers}
        want = {}
        want_removed = set()
        if ('a',) in keepers:
            want['a'] = None
        else:
            want_removed.add(('a',))
        for k in ('c', 'd'):
            if ('b', k) not in keepers:
                want_removed.add(('b', k))
        if ('b',) in keepers or want_b:
            want['b'] = want_b
        else:
            want_removed.add(('b',))
        if ('e',) in keepers:
            want['e'] = {}
        else:
            want_removed.add(('e',))
        got = _shape(root)
        if r.raised:
            bad.append('raises %s for keepers %s' % (r.raised, sorted(keepers)))
        elif got != want:
            bad.append('condition keeps %s: tree afterwards %s, expected %s' % (sorted('.'.join(p) for p in keepers), got, want))
        elif removed != want_removed:
            bad.append('condition keeps %s: removed paths reported %s, expected %s' % (sorted('.'.join(p) for p in keepers), sorted(removed), sorted(want_removed)))
    if bad:
        run.violation(rule, fi, 'filter_nodes', '; '.join(bad[:2]))
    else:
        run.ok(rule, fi, 'filter_nodes evaluated for %d verdict tables on a two-level tree' % rows, 'kept iff the condition keeps it or it is a container left non-empty; removed paths all reported')


def promotions_enabled(repo, run, rule):
    """the container merge lets the surviving node be promoted: every _replace_self / _replace_other it ends with is called with
    allow_promotions=True (a plain mapping or list merged with a !call / !bind / !path ... node keeps the richer node's kind)"""
    from . import mergetrace as mt
    fi = repo.func('ComposedNode.ayns.on_merge_impl')
    seen = {}
    for p in tr.paths_of(repo, fi, no_inline=set(mt.NI), follow_exceptions=False):
        for e in p.events:
            if e.kind == 'call' and e.attr in ('_replace_self', '_replace_other'):
                v = e.kw.get('allow_promotions') or (e.args[1] if len(e.args) > 1 else None)
                seen.setdefault((id(e.node), v.const is True if v is not None else False), e)
    if len(seen) < 2:
        raise AnalysisError('ComposedNode.on_merge_impl: the survivor decisions (_replace_self / _replace_other) were not found')
    bad = [e for (k, ok), e in seen.items() if not ok]
    if bad:
        run.violation(rule, tr.where(fi, bad[0]), norm(bad[0].node)[:80], 'the container merge combines the two nodes without allowing promotion: a plain mapping / list that wins over a function or path node silently drops that node\'s kind (and the other way round)')
    else:
        run.ok(rule, fi, '%d survivor decisions of the container merge pass allow_promotions=True' % len(seen))


def _fresh_collection(repo, fi, node, depth=0):
    """is the collection this expression denotes created anew each time the expression is evaluated?  True: an empty / literal
    collection display or constructor call; False: the default of a record field or parameter (evaluated once, when the class /
    function is created) that is a mutable collection; None: not recognised"""
    if isinstance(node, (ast.Set, ast.List, ast.Dict, ast.SetComp, ast.ListComp, ast.DictComp)):
        return True
    if isinstance(node, ast.Call) and isinstance(node.func, ast.Name) and node.func.id in ('set', 'list', 'dict') and node.func.id not in fi.module.functions:
        return True
    if isinstance(node, ast.Name):
        a = fi.node.args
        pos = a.posonlyargs + a.args
        dmap = dict(zip([x.arg for x in pos[len(pos) - len(a.defaults):]], a.defaults))
        dmap.update({x.arg: d for x, d in zip(a.kwonlyargs, a.kw_defaults) if d is not None})
        if node.id in dmap:
            return False if _fresh_collection(repo, fi, dmap[node.id], depth + 1) else None      # a mutable default argument: one object for all calls
        return None
    if isinstance(node, ast.Attribute) and isinstance(node.value, ast.Call) and isinstance(node.value.func, ast.Name) and depth < 4:
        cname = node.value.func.id
        ci = repo.classes.get(cname)
        if ci is None:
            return None
        fields = ci.module.namedtuple_fields(cname)
        if not fields or node.attr not in fields:
            return None
        call = node.value
        k = list(fields).index(node.attr)
        given = call.args[k] if k < len(call.args) and not any(isinstance(a, ast.Starred) for a in call.args) else next((kw.value for kw in call.keywords if kw.arg == node.attr), None)
        if given is not None:
            return _fresh_collection(repo, fi, given, depth + 1)
        d = ci.module.record_defaults(cname).get(node.attr)
        if d is None:
            return None
        if isinstance(d, ast.Call) and norm(d.func) in ('field', 'dataclasses.field'):
            fac = next((kw.value for kw in d.keywords if kw.arg == 'default_factory'), None)
            return True if fac is not None and norm(fac) in ('set', 'list', 'dict') else None
        if _fresh_collection(repo, fi, d, depth + 1):
            return False        # a mutable collection as a class-level default: one object for all instances
        return None
    return None


def removed_root_excepted(repo, run, rule):
    """when a deleting node replaces a whole emptied subtree, the new-path check of the replacing node excepts what was removed -
    including the root of that subtree itself (its path is added to the set before the check)"""
    from . import mergetrace as mt
    fi = repo.func('ComposedNode.ayns.on_merge_impl')
    pth = fi.params()[1]
    n = 0
    bad = stale = unknown = None
    for p in tr.paths_of(repo, fi, no_inline=set(mt.NI), follow_exceptions=False):
        for i, e in enumerate(p.events):
            if e.kind == 'call' and e.attr == '_require_all_new' and 'exceptions' in e.kw and e.recv is not None and e.recv.text.startswith('other'):
                n += 1
                exc = e.kw['exceptions'].text
                adds = [x for x in p.events[:i] if x.kind == 'call' and x.attr == 'add' and x.recv is not None and x.recv.text == exc and x.args and x.args[0].text == pth]
                if not adds:
                    bad = e
                fresh = _fresh_collection(repo, fi, e.kw['exceptions'].ast)
                if fresh is False:
                    stale = e
                elif fresh is None:
                    unknown = e
    if n == 0:
        raise AnalysisError('ComposedNode.on_merge_impl: the new-path check of a replacing deleting node (exceptions=<removed>) was not found')
    if stale is not None:
        run.violation(rule, tr.where(fi, stale), norm(stale.node)[:90], 'the set of excepted (just removed) paths is %s: a default value evaluated once, shared by every merge in the process - paths removed by any earlier merge (earlier stages, earlier builds) stay excepted, so a !notnew node may create a path that does not exist in the config built so far' % stale.kw['exceptions'].text[:70])
    elif unknown is not None:
        raise AnalysisError('ComposedNode.on_merge_impl: origin of the exceptions set %s not recognised' % unknown.kw['exceptions'].text[:70])
    if bad is not None:
        run.violation(rule, tr.where(fi, bad), norm(bad.node)[:90], 'the path of the replaced subtree itself is not among the exceptions of the new-path check: a !notnew / deleting node that replaces an existing (emptied) container is rejected as if it created a new path')
    else:
        run.ok(rule, fi, 'the replaced subtree\'s own path is excepted from the new-path check of the node that replaces it')


def config_entry(repo, run, rule):
    """Config.build / Config.__init__: what the caller passes arrives where it is used - the sources and their options at the builder,
    the caller's evaluation context at the evaluation (a fresh EvalContext only when none was given), the merged tree at the
    required-value check, a deep copy of it at the evaluation, the evaluated mapping at the Bunch constructor"""
    bf = repo.func('Config.build')
    probs = []
    n = 0
    for p in tr.paths_of(repo, bf, follow_exceptions=False):
        if p.status != 'return':
            continue
        n += 1
        adds = [e for e in p.events if e.kind == 'call' and e.attr == 'add_multiple_sources']
        mk = [e for e in p.events if e.kind == 'call' and e.callee in ('Config', 'cls')]
        if len(adds) != 1 or not adds[0].args or adds[0].args[0].text != '*sources' or any(adds[0].kw.get(k) is None or adds[0].kw[k].text != k for k in ('raw_yaml', 'filename')):
            probs.append('the sources / raw_yaml / filename arguments are not handed to Builder.add_multiple_sources as given')
        if len(mk) != 1 or not mk[0].args or not mk[0].args[0].text.endswith('.build()') or mk[0].kw.get('eval_ctx') is None or mk[0].kw['eval_ctx'].text != 'eval_ctx':
            probs.append('the result of Builder.build() and the caller\'s eval_ctx are not what the Config is constructed from (%s)' % (norm(mk[0].node)[:60] if mk else 'no Config(...) call'))
        elif p.ret is None or p.ret.text != mk[0].result.text:
            probs.append('Config.build does not return the Config it constructed')
    if not n:
        raise AnalysisError('Config.build: no returning path')
    if probs:
        run.violation(rule, bf, 'Config.build', '; '.join(sorted(set(probs))))
    else:
        run.ok(rule, bf, 'Config.build(*sources, raw_yaml, filename, eval_ctx) -> Config(Builder().build(), eval_ctx=eval_ctx)')
    fi = repo.func('Config.__init__')
    bad = []
    for case in ('ctx-given', 'ctx-default', 'empty', 'none', 'not-a-dict'):
        log = []
        given = Obj('given_ctx', 'EvalContext', user_data='given-data')
        fresh = Obj('fresh_ctx', 'EvalContext', user_data='fresh-data')
        tree = node_obj('tree', 'ConfigDict', _children={'a': node_obj('a')}) if case in ('ctx-given', 'ctx-default') else (node_obj('tree', 'ConfigDict', _children={}) if case == 'empty' else None)
        copy_ = node_obj('copy-of-tree', 'ConfigDict', _children={'a': node_obj('a2')})

        def stub(name, recv, args, kwargs):
            log.append((name, getattr(recv, 'name', None), tuple(getattr(a, 'name', a) for a in args)))
            if name == 'evaluate':
                return {'evaluated-by': recv.name}
            return None

        def deepcopy(x, *a):
            log.append(('deepcopy', None, (getattr(x, 'name', x),)))
            return copy_
        deepcopy._fde_ok = True
        ev = _fde(repo, stubs={'check_missing', 'evaluate', '__init__'}, stub=stub)
        ev.extcalls['copy.deepcopy'] = deepcopy
        ev.constructors['EvalContext'] = lambda *a, **k: fresh
        ev.constructors['ConfigDict'] = lambda *a, **k: node_obj('wrapped', 'ConfigDict', _children={})
        me = Obj('cfg', 'Config')
        arg = [1, 2] if case == 'not-a-dict' else tree
        try:
            r = ev.call(fi, me, arg, given if case == 'ctx-given' else None)
        except Unsupported as e:
            raise AnalysisError('Config.__init__: finite-domain evaluator refused: %s' % e)
        evs = [x for x in log if x[0] == 'evaluate']
        inits = [x for x in log if x[0] == '__init__']
        if case == 'not-a-dict':
            if r.raised != 'ValueError':
                bad.append('a non-mapping argument: %s (expected ValueError)' % (r.raised or 'accepted'))
            continue
        if r.raised:
            bad.append('%s: raises %s' % (case, r.raised))
            continue
        if case in ('ctx-given', 'ctx-default'):
            ctxname = 'given_ctx' if case == 'ctx-given' else 'fresh_ctx'
            if evs != [('evaluate', ctxname, ('copy-of-tree',))]:
                bad.append('%s: the evaluation is %s, expected %s.evaluate(<deep copy of the merged tree>)' % (case, evs or 'not done', ctxname))
            if not any(x[0] == 'check_missing' and (x[2] == ('tree',) or (x[1] == 'tree' and not x[2])) for x in log):
                bad.append('%s: the required-value check does not run on the merged tree' % case)
            if me.f.get('_source') is not tree:
                bad.append('%s: ayns.source is not the merged tree' % case)
            if me.f.get('_user_data') != ('given-data' if case == 'ctx-given' else 'fresh-data'):
                bad.append('%s: user data is not taken from the context that evaluated' % case)
            if len(inits) != 1 or inits[0][2] != ({'evaluated-by': ctxname},):
                bad.append('%s: the mapping handed to the Bunch constructor is %s, expected what evaluate returned' % (case, inits))
        else:
            if evs:
                bad.append('%s: an empty config is evaluated' % case)
            if len(inits) != 1 or inits[0][2] != ({},):
                bad.append('%s: the Bunch constructor receives %s, expected {}' % (case, inits))
    if bad:
        run.violation(rule, fi, 'Config(config_dict, eval_ctx)', '; '.join(bad[:3]))
    else:
        run.ok(rule, fi, 'Config.__init__ evaluated for 5 argument shapes', 'caller\'s context used when given; check_missing on the tree; a deep copy is evaluated; source kept')


def errors_constructible(repo, run, rule):
    """errors.Error.__init__ evaluated for every error class x with / without a second node: the constructor completes (an
    exception raised while an error is being built would replace the error the property talks about by an unrelated one) and
    calls the PyYAML base constructor exactly once with the message and the marks of the right nodes"""
    fi = repo.func('Error.__init__')
    classes = [c for c in ('ParsingError', 'PreprocessError', 'PremergeError', 'MergeError', 'EvalError', 'UnsafeError') if c in repo.classes]
    if len(classes) < 5:
        raise AnalysisError('errors: error classes not found (%s)' % classes)
    bad = []
    rows = 0
    for cls in classes:
        for with_extra in (False, True):
            for has_yaml in (True, False):
                got = []
                ev = _fde(repo, stubs={'__init__'}, stub=lambda name, recv, args, kwargs: got.append(dict(kwargs)))
                if cls == 'ParsingError' and (with_extra or not has_yaml):
                    continue          # parsing errors are about one PyYAML node
                if cls == 'ParsingError':
                    node = Obj('ynode', '<yaml node>', start_mark='MARK(node)')
                    node.missing.update({'_pyyaml_node', '_source_file'})
                else:
                    node = node_obj('n', 'ConfigDict', _pyyaml_node=Obj('py', '<yaml node>', start_mark='MARK(node)') if has_yaml else None, _source_file='a.yaml')
                extra = node_obj('x', 'ConfigDict', _pyyaml_node=Obj('py2', '<yaml node>', start_mark='MARK(extra)') if has_yaml else None, _source_file='b.yaml') if with_extra else None
                for o_ in (node, extra):
                    if o_ is not None and o_.cls == 'ConfigDict':
                        o_.missing.add('start_mark')        # config nodes have no position of their own (only their PyYAML node has)
                me = Obj('err', cls)
                try:
                    r = ev.call(fi, me, '', node, ['p'], extra, 'a note')
                except Unsupported as e:
                    raise AnalysisError('Error.__init__: finite-domain evaluator refused: %s' % e)
                rows += 1
                what = '%s(%s%s)' % (cls, 'node', ', extra_node' if with_extra else '')
                if r.raised:
                    bad.append('%s: building the error raises %s' % (what, r.raised))
                    continue
                if len(got) != 1:
                    bad.append('%s: the base constructor is called %d times' % (what, len(got)))
                    continue
                kw = got[0]
                fallback = lambda o, mark: mark if (has_yaml or cls == 'ParsingError') else None   # noqa: E731
                if kw.get('note') != 'a note':
                    bad.append('%s: the note is lost' % what)
                if not with_extra:
                    if 'problem' not in kw or kw.get('context') is not None:
                        bad.append('%s: the message is not passed as the problem' % what)
                    if (has_yaml or cls == 'ParsingError') and kw.get('problem_mark') != 'MARK(node)':
                        bad.append('%s: the position reported is %r, expected the position of the node' % (what, kw.get('problem_mark')))
                else:
                    if 'context' not in kw:
                        bad.append('%s: the message is not passed as the context' % what)
                    if has_yaml and cls != 'ParsingError' and (kw.get('context_mark') != 'MARK(node)' or kw.get('problem_mark') != 'MARK(extra)'):
                        bad.append('%s: positions reported are %r / %r, expected node / extra node' % (what, kw.get('context_mark'), kw.get('problem_mark')))
                for attr, want in (('node', node), ('extra_node', extra), ('path', ['p'])):
                    if me.f.get(attr) is not want and me.f.get(attr) != want:
                        bad.append('%s: attribute %s of the error is %r' % (what, attr, me.f.get(attr)))
    if bad:
        run.violation(rule, fi, 'errors.Error.__init__', '; '.join(sorted(set(bad))[:3]))
    else:
        run.ok(rule, fi, 'Error.__init__ evaluated on %d rows (error class x second node x source position known)' % rows, 'never raises; one base-constructor call with message, note and the marks of the nodes involved')


def promotion_guard(repo, run, rule):
    """ConfigNode._replace_self / _replace_other: the survivor is offered for promotion exactly when the caller allows it"""
    for q in ('ConfigNode._replace_self', 'ConfigNode._replace_other'):
        fi = repo.func(q)
        bad = []
        for allow in (True, False):
            calls = []
            promoted = node_obj('promoted', 'ConfigDict')

            def stub(name, recv, args, kwargs, calls=calls, promoted=promoted):
                calls.append((name, recv.name))
                return promoted if name == '_maybe_promote' else recv
            ev = _fde(repo, stubs={'_maybe_promote', '_propagate_implicit_values', '_propagate_priority'}, stub=stub)
            me, ot = node_obj('self', 'ConfigDict', _metadata={}), node_obj('other', 'ConfigDict', _metadata={})
            try:
                r = ev.call(fi, me, ot, allow_promotions=allow)
            except Unsupported as e:
                raise AnalysisError('%s: finite-domain evaluator refused: %s' % (q, e))
            proms = [c for c in calls if c[0] == '_maybe_promote']
            if r.raised:
                bad.append('raises %s' % r.raised)
            elif allow and (len(proms) != 1 or r.ret is not promoted):
                bad.append('allow_promotions=True: promotion %s, result %s' % ('not attempted' if not proms else 'attempted %d times' % len(proms), getattr(r.ret, 'name', r.ret)))
            elif not allow and (proms or r.ret is not me):
                bad.append('allow_promotions=False: %s' % ('a promotion is attempted' if proms else 'the result is %s, not the node itself' % getattr(r.ret, 'name', r.ret)))
        if bad:
            run.violation(rule, fi, '%s(other, allow_promotions)' % fi.name, '; '.join(bad))
        else:
            run.ok(rule, fi, '%s: promotion attempted iff allowed; the (possibly promoted) survivor is returned' % fi.name)


def list_child_store(repo, run, rule):
    """ConfigList: storing through the node interface (ayns.set_child, used by merging) may append at index == len, storing
    through the list interface (__setitem__ / _set default) may not; the position handed on is the validated one"""
    sc = repo.func('ConfigList.ayns.set_child')
    st = repo.func('ConfigList._set')
    bad = []
    for fi, args, kw, want_strict in ((sc, (1, 'v'), {}, False), (st, (1, 'v'), {}, True), (st, (1, 'v'), {'strict': False}, False), (st, (1, 'v'), {'strict': True}, True)):
        seen = []

        def stub(name, recv, a, k, seen=seen):
            if name == '_validate_index':
                seen.append(('validate', tuple(a), dict(k)))
                return 7          # the validated (normalised) position
            if name == 'set_child':
                seen.append(('set_child', tuple(a[-2:]) if len(a) >= 2 else tuple(a)))
                return a[-1]
            seen.append((name, tuple(a)))
            return None
        ev = _fde(repo, stubs={'_validate_index', 'ComposedNode.ayns.set_child', 'remove_child', 'append', '__setitem__'}, stub=stub)
        me = node_obj('lst', 'ConfigList', _children={0: 'a', 1: 'b'})
        try:
            r = ev.call(fi, me, *args, **kw)
        except Unsupported as e:
            raise AnalysisError('%s: finite-domain evaluator refused: %s' % (fi.qualname, e))
        val = [x for x in seen if x[0] == 'validate']
        what = '%s(%s%s)' % (fi.qualname.split('.')[-1], ', '.join(map(repr, args)), ''.join(', %s=%r' % kv for kv in kw.items()))
        if r.raised:
            bad.append('%s raises %s' % (what, r.raised))
        elif len(val) != 1 or val[0][1][:1] != (1,):
            bad.append('%s: the index is not validated exactly once (%s)' % (what, val))
        else:
            strict = val[0][2].get('strict', val[0][1][1] if len(val[0][1]) > 1 else True)
            if strict is not want_strict:
                bad.append('%s validates the index with strict=%r, expected %r (%s)' % (what, strict, want_strict, 'index == len must append' if not want_strict else 'index == len must be an IndexError'))
            sets = [x for x in seen if x[0] == 'set_child']
            if not sets or sets[0][1][0] != 7:
                bad.append('%s: the child map is updated at %s, expected at the validated position' % (what, sets[0][1][0] if sets else 'no position'))
    if bad:
        run.violation(rule, sc, 'ConfigList.ayns.set_child / _set', '; '.join(bad[:3]))
    else:
        run.ok(rule, sc, 'ConfigList.ayns.set_child -> _set(strict=False); _set validates with its strict flag (default True) and stores at the validated position')


def none_scalar_table(repo, run, rule):
    """ConfigNone (the payload of a null scalar node) behaves like None: false, equal to None and to another ConfigNone, printed
    as None, get() gives None; constructed only from None"""
    bad = []
    me = Obj('none', 'ConfigNone')
    other = Obj('none2', 'ConfigNone')
    def call(name, *a):
        fi = repo.func('ConfigNone.' + name)
        ev = _fde(repo)
        try:
            return ev.call(fi, *a)
        except Unsupported as e:
            raise AnalysisError('ConfigNone.%s: finite-domain evaluator refused: %s' % (name, e))
    r = call('__bool__', me)
    if r.raised or r.ret is not False:
        bad.append('bool(null payload) is %r' % (r.raised or r.ret))
    for o, want in ((None, True), (other, True), (0, False), ('', False)):
        r = call('__eq__', me, o)
        if r.raised or r.ret is not want:
            bad.append('null payload == %r gives %r, expected %r' % (o, r.raised or r.ret, want))
    r = call('get', me)
    if r.raised or r.ret is not None:
        bad.append('get() gives %r' % (r.raised or r.ret))
    for name in ('__repr__', '__str__'):
        r = call(name, me)
        if r.raised or r.ret != 'None':
            bad.append('%s gives %r, expected the text of None' % (name, r.raised or r.ret))
    if repo.has_func('ConfigNone.__new__'):
        for v in ('x', 0, False):
            try:
                got = _fde(repo).call(repo.func('ConfigNone.__new__'), Obj('cls', 'type'), v).raised
            except Unsupported as e:
                if 'object.__new__' not in str(e):
                    raise AnalysisError('ConfigNone.__new__: finite-domain evaluator refused: %s' % e)
                got = None      # the allocation was reached
            if got != 'ValueError':
                bad.append('a null payload constructed from %r %s, expected ValueError (the value would silently become null)' % (v, 'raises ' + got if got else 'is accepted'))
        try:
            r = _fde(repo).call(repo.func('ConfigNone.__new__'), Obj('cls', 'type'), None)
            if r.raised:
                bad.append('a null payload constructed from None raises %s' % r.raised)
        except Unsupported:
            pass     # the allocation itself (object.__new__) is outside the evaluator: reaching it means nothing was raised
    fi = repo.func('ConfigNone.__bool__')
    if bad:
        run.violation(rule, fi, 'ConfigNone', '; '.join(bad[:3]))
    else:
        run.ok(rule, fi, 'ConfigNone: false, == None, prints as None, get() is None')


def node_init_table(repo, run, rule):
    """ConfigNode.__init__ evaluated: the explicit arguments are stored as given; an explicit source file wins over the
    parse-time default, which is used only when none is given; the source-level safe default comes from the parse context;
    an unknown priority is rejected"""
    fi = repo.func('ConfigNode.__init__')
    bad = []
    for src, ctx_file, ctx_safe in (('own.yaml', 'ctx.yaml', True), (None, 'ctx.yaml', False), (None, None, None), ('own.yaml', None, True)):
        ev = _fde(repo)
        fslot = Obj('filename_slot', 'threading.local')
        sslot = Obj('safe_slot', 'threading.local')
        if ctx_file is not None:
            fslot.f['value'] = ctx_file
        else:
            fslot.missing.add('value')
        if ctx_safe is not None:
            sslot.f['value'] = ctx_safe
        else:
            sslot.missing.add('value')
        ev.class_objs[('ConfigNode', '_default_filename')] = fslot
        ev.class_objs[('ConfigNode', '_default_safe')] = sslot
        me = Obj('n', 'ConfigNode')
        try:
            r = ev.call(fi, me, idx=3, priority=1, delete=True, allow_new=False, safe=False, metadata={'k': 1}, source_file=src, implicit_delete=False, implicit_allow_new=True, implicit_safe=True, pyyaml_node='PY')
        except Unsupported as e:
            raise AnalysisError('ConfigNode.__init__: finite-domain evaluator refused: %s' % e)
        if r.raised:
            bad.append('raises %s' % r.raised)
            continue
        want = dict(_idx=3, _priority=1, _delete=True, _allow_new=False, _safe=False, _metadata={'k': 1}, _implicit_delete=False, _implicit_allow_new=True, _implicit_safe=True, _pyyaml_node='PY',
                    _source_file=src if src is not None else ctx_file, _default_safe=ctx_safe if ctx_safe is not None else False)
        for k, v in want.items():
            if me.f.get(k, '<unset>') != v:
                bad.append('%s is %r, expected %r (source_file argument %r, parse context file %r / safe %r)' % (k, me.f.get(k, '<unset>'), v, src, ctx_file, ctx_safe))
    ev = _fde(repo)
    ev.class_objs[('ConfigNode', '_default_filename')] = Obj('filename_slot', 'threading.local')
    ev.class_objs[('ConfigNode', '_default_safe')] = Obj('safe_slot', 'threading.local')
    try:
        r = ev.call(fi, Obj('n', 'ConfigNode'), priority=5)
    except Unsupported as e:
        raise AnalysisError('ConfigNode.__init__: finite-domain evaluator refused: %s' % e)
    if r.raised != 'ValueError':
        bad.append('priority=5 is %s (expected ValueError)' % (r.raised or 'accepted'))
    if bad:
        run.violation(rule, fi, 'ConfigNode.__init__', '; '.join(sorted(set(bad))[:3]))
    else:
        run.ok(rule, fi, 'ConfigNode.__init__ evaluated on 5 argument / context combinations', 'arguments stored as given; explicit source file over the parse-time one; unknown priority rejected')


def list_prefilter_guard(repo, run, rule):
    """ConfigList.ayns.on_merge_impl: the pre-filter of the newer node runs exactly when that node is a container"""
    from . import mergetrace as mt
    fi = repo.func('ConfigList.ayns.on_merge_impl')
    n = 0
    bad = []
    for p in tr.paths_of(repo, fi, no_inline=set(mt.NI), follow_exceptions=False):
        if p.status != 'return':
            continue
        comp = [pol for t, pol in p.facts if t == 'isinstance(other, ComposedNode)']
        filt = [e for e in p.events if e.kind == 'call' and e.attr == 'filter_nodes']
        if not comp:
            if filt:
                bad.append('the pre-filter runs without the newer node being tested for being a container')
            continue
        n += 1
        if comp[0] and not filt:
            bad.append('a container replacing the list is not pre-filtered (deleting entries of lower priority would wipe protected ones)')
        if not comp[0] and filt:
            bad.append('a leaf value replacing the list is asked to filter its entries')
    if n == 0:
        raise AnalysisError('ConfigList.on_merge_impl: no path decides on isinstance(other, ComposedNode)')
    if bad:
        run.violation(rule, fi, 'pre-filter guard', '; '.join(sorted(set(bad))))
    else:
        run.ok(rule, fi, 'the pre-filter runs iff the newer node is a container (%d paths)' % n)


def eval_context_init(repo, run, rule):
    """EvalContext.__init__ evaluated: the symbols of a context are a copy of the defaults updated with what the caller passes
    (caller wins, the class-level defaults stay untouched); caches, stack and strict flag start empty / off"""
    fi = repo.func('EvalContext.__init__')
    bad = []
    for given in (None, {}, {'a': 1, 'new': 2}):
        defaults = {'d': 0, 'a': 9}
        ev = _fde(repo)
        ev.class_objs[('EvalContext', '_default_eval_symbols')] = defaults
        cp = lambda x: dict(x)      # noqa: E731
        cp._fde_ok = True
        ev.extcalls['copy.copy'] = cp
        ev.extcalls['copy.deepcopy'] = cp
        me = Obj('ctx', 'EvalContext')
        try:
            r = ev.call(fi, me, given) if given is not None else ev.call(fi, me)
        except Unsupported as e:
            raise AnalysisError('EvalContext.__init__: finite-domain evaluator refused: %s' % e)
        want = dict({'d': 0, 'a': 9}, **(given or {}))
        got = me.f.get('_eval_symbols')
        if r.raised:
            bad.append('raises %s' % r.raised)
        elif got != want:
            bad.append('symbols passed %r: the context has %r, expected %r' % (given, got, want))
        elif got is defaults or defaults != {'d': 0, 'a': 9}:
            bad.append('the class-level default symbols are %s by a new context' % ('shared' if got is defaults else 'changed'))
        for k, v in (('_eval_cache', {}), ('_eval_cache_id', {}), ('_eval_cache_unsafe', {}), ('_eval_stack', []), ('_require_all_safe', False)):
            if not r.raised and me.f.get(k, '<unset>') != v:
                bad.append('%s starts as %r' % (k, me.f.get(k, '<unset>')))
    if bad:
        run.violation(rule, fi, 'EvalContext.__init__', '; '.join(sorted(set(bad))[:3]))
    else:
        run.ok(rule, fi, 'EvalContext(eval_symbols): defaults copied, caller\'s symbols on top; caches empty, strict mode off')


def unchecked_path_prefixes(repo, run, rule):
    """keys of any type (floats, bools ... - whatever YAML produced) are legal path components while walking / evaluating a tree:
    the prefix normalisation of the walkers and of evaluate_node does not type-check its components"""
    n = 0
    bad = []
    for q in ('EvalContext.evaluate_node', 'ComposedNode.ayns.filter_nodes', 'ComposedNode.ayns.map_nodes', 'ComposedNode.ayns.nodes_with_paths'):
        fi = repo.func(q)
        calls = {}
        for p in tr.paths_of(repo, fi, no_inline={'get_list_path'}, follow_exceptions=False):
            for e in p.events:
                if e.kind == 'call' and e.attr == 'get_list_path' and e.args and e.args[0].text in fi.params():
                    calls.setdefault(id(e.node), e)
        for e in calls.values():
            n += 1
            ct = e.kw.get('check_types')
            if ct is None or ct.const is not False:
                bad.append((fi, e))
    if n < 3:
        raise AnalysisError('path prefix normalisation: only %d get_list_path(<prefix>) calls found in the walkers' % n)
    if bad:
        fi, e = bad[0]
        run.violation(rule, tr.where(fi, e), norm(e.node)[:80], 'the path prefix is type-checked (%d site(s)): a tree with a float / bool key cannot be walked or evaluated although the loader accepts such keys' % len(bad))
    else:
        run.ok(rule, repo.func('EvalContext.evaluate_node'), '%d prefix normalisations use check_types=False' % n)


def function_node_init(repo, run, rule):
    """FunctionNode(func, args) evaluated: the target is stored; arguments are normalised to a mapping (None stays None, a
    mapping is itself, a list / tuple is keyed by position, anything else is the single positional argument); a (func, args)
    pair may not be combined with separate args; an empty target is rejected; delete defaults to True"""
    fi = repo.func('FunctionNode.__init__')
    bad = []
    cases = [('f', None, 'f', None, None), ('f', {'a': 1}, 'f', {'a': 1}, None), ('f', [7, 8], 'f', {0: 7, 1: 8}, None), ('f', (7,), 'f', {0: 7}, None), ('f', 5, 'f', {0: 5}, None),
             ('f', 'x', 'f', {0: 'x'}, None), (('g', {'k': 2}), None, 'g', {'k': 2}, None), (('g', [1]), None, 'g', {0: 1}, None), (('g', {'k': 2}), {'z': 1}, None, None, 'ValueError'),
             ('', None, None, None, 'ValueError'), (None, None, None, None, 'ValueError')]
    for func, args, want_f, want_a, want_exc in cases:
        got = []
        ev = _fde(repo, stubs={'__init__'}, stub=lambda name, recv, a, k: got.append((list(a), dict(k))))
        me = Obj('fn', 'FunctionNode')
        try:
            r = ev.call(fi, me, func, args)
        except Unsupported as e:
            raise AnalysisError('FunctionNode.__init__: finite-domain evaluator refused: %s' % e)
        what = 'FunctionNode(%r, %r)' % (func, args)
        if want_exc:
            if r.raised != want_exc:
                bad.append('%s: %s, expected %s' % (what, r.raised or 'accepted', want_exc))
            continue
        if r.raised or len(got) != 1:
            bad.append('%s: %s' % (what, 'raises %s' % r.raised if r.raised else 'base constructor called %d times' % len(got)))
            continue
        if me.f.get('_func') != want_f:
            bad.append('%s: target stored as %r' % (what, me.f.get('_func')))
        a0 = got[0][0][0] if got[0][0] else got[0][1].get('value', '<none>')
        if a0 != want_a:
            bad.append('%s: arguments become %r, expected %r' % (what, a0, want_a))
        if got[0][1].get('delete') is not True:
            bad.append('%s: delete defaults to %r, expected True (function nodes replace by default)' % (what, got[0][1].get('delete')))
    if bad:
        run.violation(rule, fi, 'FunctionNode.__init__', '; '.join(bad[:3]))
    else:
        run.ok(rule, fi, 'FunctionNode.__init__ evaluated on %d argument shapes' % len(cases), 'target stored, arguments normalised to a mapping, ambiguous / empty input rejected, delete=True by default')


def eval_pipeline(repo, run, rule):
    """EvalNode.on_evaluate_impl on traces: all lines but the last are compiled in exec mode and executed, the last one is
    compiled in eval mode and evaluated - both (patched) in the same namespace, exec first; what eval returns is the value
    (handed to the context when it is a node); a namespace that is published is published with its content"""
    fi = repo.func('EvalNode.ayns.on_evaluate_impl')
    from .c12 import GuardedRun
    run = GuardedRun(run, fi)
    paths = [p for p in tr.paths_of(repo, fi, no_inline={'_require_safe', '_patch_access_to_globals', 'evaluate_node', 'get_eval_symbols'}, follow_exceptions=False) if p.status == 'return']
    if not paths:
        raise AnalysisError('EvalNode.on_evaluate_impl: no returning path')
    probs = set()
    for p in paths:
        comp = {e.args[2].const: e for e in p.events if e.kind == 'call' and e.callee == 'compile' and len(e.args) >= 3}
        patch = {e.args[0].text: e for e in p.events if e.kind == 'call' and e.attr == '_patch_access_to_globals' and e.args}
        ex = [e for e in p.events if e.kind == 'call' and e.callee == 'exec']
        evl = [e for e in p.events if e.kind == 'call' and e.callee == 'eval']
        if 'exec' not in comp or 'eval' not in comp:
            probs.add('the code is not compiled in both modes (exec for the leading lines, eval for the last one)')
            continue
        if len(ex) != 1 or len(evl) != 1:
            probs.add('exec(...) runs %d times and eval(...) %d times on a completing path (expected once each)' % (len(ex), len(evl)))
            continue

        def patched_of(call, mode):
            src = comp[mode].result.text
            a = call.args[0].text if call.args else ''
            return src in patch and a.startswith(patch[src].result.text)
        if not patched_of(ex[0], 'exec') or not patched_of(evl[0], 'eval'):
            probs.add('exec / eval do not run the patched code objects of their own compile() (exec: %s; eval: %s)' % (ex[0].args[0].text[:40] if ex[0].args else None, evl[0].args[0].text[:40] if evl[0].args else None))
        if len(ex[0].args) < 2 or len(evl[0].args) < 2 or ex[0].args[1].text != evl[0].args[1].text:
            probs.add('exec and eval do not share one namespace')
        if tr.index_of(p, ex[0]) > tr.index_of(p, evl[0]):
            probs.add('the last line is evaluated before the leading lines were executed')
        rt = p.ret.text if p.ret is not None else ''
        if evl[0].result.text not in rt:
            probs.add('the value returned (%s) is not what eval returned' % rt[:40])
        for i, e in enumerate(p.events):
            if e.kind == 'store' and e.target.startswith('sys.modules[') and '.__dict__' not in e.target and not e.target.startswith('del '):
                mod = e.value.text if e.value is not None else ''
                ns = evl[0].args[1].text
                filled = any(x.kind == 'call' and x.attr == 'update' and x.recv is not None and x.recv.text.startswith(mod) and x.args and x.args[0].text == ns for x in p.events[:i]) or ns in mod
                if not filled:
                    probs.add('a module is published in sys.modules without the namespace the code ran in (definitions made by the node are lost for the next evaluation)')
    if probs:
        run.violation(rule, fi, 'compile / exec / eval pipeline', '; '.join(sorted(probs)[:3]))
    else:
        run.ok(rule, fi, 'compile(exec) + compile(eval) -> patched -> exec then eval in one namespace; eval\'s value returned (%d paths)' % len(paths))


def include_init(repo, run, rule):
    """IncludeNode(filenames): one name or a sequence of names (a str is one name); every name must be a str; names are stored
    in the order given (home directory expanded)"""
    fi = repo.func('IncludeNode.__init__')
    bad = []
    for arg, want in (('a.yaml', ['a.yaml']), (['a.yaml', 'b.yaml'], ['a.yaml', 'b.yaml']), (('b.yaml', 'a.yaml'), ['b.yaml', 'a.yaml']), ([], []), (5, 'ValueError'), (['a.yaml', 7], 'ValueError')):
        ev = _fde(repo, stubs={'__init__'}, stub=lambda name, recv, a, k: None)
        ex = lambda x: x      # noqa: E731
        ex._fde_ok = True
        ev.extcalls['os.path.expanduser'] = ex
        me = Obj('inc', 'IncludeNode')
        try:
            r = ev.call(fi, me, arg)
        except Unsupported as e:
            raise AnalysisError('IncludeNode.__init__: finite-domain evaluator refused: %s' % e)
        if want == 'ValueError':
            if r.raised != 'ValueError':
                bad.append('IncludeNode(%r): %s (expected ValueError)' % (arg, r.raised or 'accepted, names %r' % (me.f.get('filenames'),)))
        elif r.raised or me.f.get('filenames') != want:
            bad.append('IncludeNode(%r): %s, expected names %r' % (arg, 'raises %s' % r.raised if r.raised else 'names %r' % (me.f.get('filenames'),), want))
    if bad:
        run.violation(rule, fi, 'IncludeNode.__init__', '; '.join(bad[:3]))
    else:
        run.ok(rule, fi, 'IncludeNode(filenames) evaluated on 6 argument shapes', 'a str is one name, a sequence is the names in order, non-str names rejected')


def stream_init(repo, run, rule):
    """StreamNode(builder): the carrier is a list of the sub-builder's stages and remembers the builder"""
    fi = repo.func('StreamNode.__init__')
    got = []
    ev = _fde(repo, stubs={'__init__'}, stub=lambda name, recv, a, k: got.append((list(a), dict(k))))
    stages = [Obj('s1', 'ConfigDict'), Obj('s2', 'ConfigDict')]
    b = Obj('sub', 'SubBuilder', stages=stages)
    me = Obj('stream', 'StreamNode')
    try:
        r = ev.call(fi, me, b)
    except Unsupported as e:
        raise AnalysisError('StreamNode.__init__: finite-domain evaluator refused: %s' % e)
    prop = repo.classes['StreamNode'].methods.get('stages')
    if prop is not None:
        r2 = _fde(repo).call(prop, Obj('stream2', 'StreamNode', builder=b))
        if r2.raised or r2.ret is not stages:
            run.violation(rule, prop, 'StreamNode.stages', 'the stages of a stream are %r, expected the stages of its builder (the documents spliced into the parent by preprocess)' % (r2.raised or r2.ret,))
    if r.raised or len(got) != 1 or not got[0][0] or got[0][0][0] is not stages or me.f.get('builder') is not b:
        run.violation(rule, fi, 'StreamNode.__init__', 'the carrier is not constructed from the sub-builder\'s stages / does not keep the builder (base constructor calls: %d, builder kept: %s%s)' % (
            len(got), me.f.get('builder') is b, ', raises %s' % r.raised if r.raised else ''))
    else:
        run.ok(rule, fi, 'StreamNode(builder): list of builder.stages; builder kept')


def path_node_tables(repo, run, rule):
    """PathNode evaluated: construction parses the reference point (implicit / cwd / file / parent[(n)] / abs(path); anything else is
    rejected) and takes a single value or a sequence of components; evaluation joins the components onto the reference point -
    the n-th parent of the node's own source file, padded with '..' beyond the recorded name - and normalises"""
    import pathlib
    import posixpath
    init = repo.func('PathNode.__init__')
    bad = []
    cases = [('a', 'file', ['a'], ('file', None)), (['a', 'b'], '', ['a', 'b'], ('', None)), (('a', 'b'), None, ('a', 'b'), ('', None)), (None, None, [], ('', None)), ('', 'cwd', [], ('cwd', None)),
             (b'x', '', [b'x'], ('', None)), ('x', 'parent', ['x'], ('parent', 0)), ('x', 'parent(2)', ['x'], ('parent', 2)), ('x', 'abs(/data/x)', ['x'], ('abs', '/data/x')), ('x', 'bogus', None, 'ValueError')]
    for values, ref, want_content, want_parsed in cases:
        got = []
        ev = _fde(repo, stubs={'__init__'}, stub=lambda name, recv, a, k: got.append((list(a), dict(k))))
        me = Obj('p', 'PathNode')
        try:
            r = ev.call(init, me, values, ref)
        except Unsupported as e:
            raise AnalysisError('PathNode.__init__: finite-domain evaluator refused: %s' % e)
        what = 'PathNode(%r, %r)' % (values, ref)
        if want_parsed == 'ValueError':
            if r.raised != 'ValueError':
                bad.append('%s: %s (expected ValueError)' % (what, r.raised or 'accepted as %r' % (me.f.get('_ref_point_parsed'),)))
            continue
        if r.raised or len(got) != 1:
            bad.append('%s: %s' % (what, 'raises %s' % r.raised if r.raised else 'list constructor called %d times' % len(got)))
            continue
        parsed = me.f.get('_ref_point_parsed')
        if (tuple(parsed) if isinstance(parsed, (list, tuple)) else parsed) != want_parsed:
            bad.append('%s: reference point parsed as %r, expected %r' % (what, parsed, want_parsed))
        content = got[0][0][0] if got[0][0] else None
        if content != want_content:
            bad.append('%s: components %r, expected %r' % (what, content, want_content))
    if bad:
        run.violation(rule, init, 'PathNode.__init__', '; '.join(bad[:3]))
    else:
        run.ok(rule, init, 'PathNode.__init__ evaluated on %d (value, reference point) pairs' % len(cases))
    evf = repo.func('PathNode.ayns.on_evaluate_impl')
    bad = []
    rows = 0
    table = [(('', None), '/a/b/c.yaml', 'x/y'), (('cwd', None), None, '/cwd/x/y'), (('file', None), '/a/b/c.yaml', '/a/b/c.yaml/x/y'), (('file', None), None, 'ValueError'),
             (('parent', 0), '/a/b/c.yaml', '/a/b/x/y'), (('parent', 1), '/a/b/c.yaml', '/a/x/y'), (('parent', 2), '/a/b/c.yaml', '/x/y'), (('parent', 3), '/a/b/c.yaml', '/x/y'),
             (('parent', 0), 'b/c.yaml', 'b/x/y'), (('parent', 1), 'b/c.yaml', 'x/y'), (('parent', 2), 'b/c.yaml', '../x/y'), (('parent', 4), 'b/c.yaml', '../../../x/y'),
             (('parent', 0), None, 'ValueError'), (('abs', '/data'), None, '/data/x/y'), (('abs', 'rel/d'), '/a/b/c.yaml', 'rel/d/x/y'), (('weird', None), '/a/b/c.yaml', 'ValueError')]
    for parsed, src, want in table:
        ev = _fde(repo, stubs={'ConfigList.ayns.on_evaluate_impl'}, stub=lambda name, recv, a, k: ['x', 'y'])
        mk = lambda *a: pathlib.PurePosixPath(*a)      # noqa: E731
        mk._fde_ok = True
        cw = lambda: '/cwd'      # noqa: E731
        cw._fde_ok = True
        nm = lambda x: posixpath.normpath(str(x))      # noqa: E731
        nm._fde_ok = True
        ev.extcalls.update({'pathlib.Path': mk, 'pathlib.PurePath': mk, 'pathlib.PurePosixPath': mk, 'os.getcwd': cw, 'os.path.normpath': nm})
        me = node_obj('p', 'PathNode', _source_file=src, _ref_point_parsed=parsed, ref_point='?')
        try:
            r = ev.call(evf, me, ['k'], Obj('ctx', 'EvalContext'))
        except Unsupported as e:
            raise AnalysisError('PathNode.on_evaluate_impl: finite-domain evaluator refused: %s' % e)
        rows += 1
        what = 'reference point %r, source file %r' % (parsed, src)
        if want == 'ValueError':
            if r.raised != 'ValueError':
                bad.append('%s: %s (expected ValueError)' % (what, r.raised or r.ret))
        elif r.raised or str(r.ret) != want:
            bad.append('%s: components x/y resolve to %s, expected %s' % (what, r.raised or r.ret, want))
    if bad:
        run.violation(rule, evf, 'PathNode evaluation', '; '.join(bad[:3]))
    else:
        run.ok(rule, evf, 'PathNode evaluation on %d (reference point, source file) rows' % rows, 'implicit / cwd / own file / n-th parent with .. padding / abs; normalised')


def list_path_table(repo, run, rule):
    """NodePath.get_list_path evaluated: nothing / None is the empty path, a single int is one component, a str is parsed, a
    sequence is taken as it is - and its components are type-checked (str / int, not bool) exactly when check_types is set"""
    import re as _re
    fi = repo.func('NodePath.get_list_path')
    bad = []
    cases = [((), {}, []), ((None,), {}, []), ((3,), {}, [3]), ((['a', 1],), {}, ['a', 1]), ((('a', 'b'),), {}, ['a', 'b']), (('a', 'b', 2), {}, ['a', 'b', 2]),
             (([1.5],), {}, 'ValueError'), (([True],), {}, 'ValueError'), (([1.5],), {'check_types': False}, [1.5]), (([True, 'x'],), {'check_types': False}, [True, 'x']),
             ((['a', None],), {}, 'ValueError')]
    for args, kw, want in cases:
        ev = _fde(repo, stubs={'split_path'}, stub=lambda name, recv, a, k: ['<parsed>'])
        ev.constructors['NodePath'] = lambda *a, **k: list(a[0]) if a else []
        try:
            r = ev.call(fi, ('class', 'NodePath'), *args, **kw)
        except Unsupported as e:
            raise AnalysisError('NodePath.get_list_path: finite-domain evaluator refused: %s' % e)
        what = 'get_list_path(%s%s)' % (', '.join(map(repr, args)), ''.join(', %s=%r' % kv for kv in kw.items()))
        if want == 'ValueError':
            if r.raised != 'ValueError':
                bad.append('%s: %s (expected ValueError)' % (what, r.raised or r.ret))
        elif r.raised or r.ret != want:
            bad.append('%s gives %s, expected %r' % (what, r.raised or r.ret, want))
    ev = _fde(repo, stubs={'split_path'}, stub=lambda name, recv, a, k: ['parsed', a[0]])
    ev.constructors['NodePath'] = lambda *a, **k: list(a[0]) if a else []
    r = ev.call(fi, ('class', 'NodePath'), 'a.b[1]')
    if r.raised or r.ret != ['parsed', 'a.b[1]']:
        bad.append('a str path is not handed to split_path (%s)' % (r.raised or r.ret,))
    if bad:
        run.violation(rule, fi, 'NodePath.get_list_path', '; '.join(bad[:3]))
    else:
        run.ok(rule, fi, 'get_list_path evaluated on %d argument shapes' % (len(cases) + 1), 'empty / int / str (parsed) / sequence; components type-checked iff check_types')


def suffix_constructors(repo, run, rule):
    """the constructors of tags that carry a suffix (!bind:<f>[:<metadata>], !call:..., !path:<ref>[:<metadata>]) evaluated: the
    suffix splits into the name and the optional encoded metadata (absent = none), more than one colon is rejected, and the name /
    the decoded metadata reach the node constructor"""
    n = 0
    bad = []
    for q, key, from_right in (('yaml._bind_constructor', 'func', False), ('yaml._call_constructor', 'func', False), ('yaml._path_constructor', 'ref_point', True)):
        if q not in repo.functions:
            continue
        fi = repo.func(q)
        n += 1
        for suffix, want_name, want_md in (('pkg.f', 'pkg.f', None), ('pkg.mod.f:abcd', 'pkg.mod.f', 'abcd'), ('a:b:c', 'ValueError', None)):
            made, dec = [], []

            def stub(name, recv, a, k, made=made, dec=dec):
                allargs = ([recv] if recv is not None else []) + list(a)
                if name == '_decode_metadata':
                    dec.append(allargs[0] if allargs else None)
                    return {'decoded': allargs[0]} if allargs and allargs[0] else {}
                if name == '_make_node':
                    made.append(dict(k))
                    return 'node'
                raise AnalysisError('%s: unexpected stub %s' % (q, name))
            ev = _fde(repo, stubs={'_make_node', '_decode_metadata'}, stub=stub)
            try:
                r = ev.call(fi, Obj('loader', 'AwesomeyamlLoader'), suffix, Obj('ynode', '<yaml node>'))
            except Unsupported as e:
                raise AnalysisError('%s: finite-domain evaluator refused: %s' % (q, e))
            what = '%s with suffix %r' % (fi.name, suffix)
            if want_name == 'ValueError':
                if r.raised != 'ValueError':
                    bad.append('%s: %s (expected ValueError)' % (what, r.raised or 'accepted'))
                continue
            if r.raised or len(made) != 1:
                bad.append('%s: %s' % (what, 'raises %s' % r.raised if r.raised else 'node built %d times' % len(made)))
                continue
            kw = made[0].get('kwargs')
            if isinstance(kw, tuple) and kw and kw[0] == 'dictdisplay':
                flat = {}
                for part in kw[1]:
                    if part[0] == 'item':
                        flat[part[1]] = part[2]
                    elif isinstance(part[1], dict):
                        flat.update(part[1])
                kw = flat
            if not isinstance(kw, dict) or kw.get(key) != want_name:
                bad.append('%s: %s passed to the node is %r, expected %r' % (what, key, kw.get(key) if isinstance(kw, dict) else kw, want_name))
            if dec != [want_md] and not (want_md is None and dec in ([None], [''], [])):
                bad.append('%s: metadata decoded from %r, expected %r' % (what, dec, want_md))
            if want_md and isinstance(kw, dict) and kw.get('decoded') != want_md:
                bad.append('%s: the decoded metadata does not reach the node constructor' % what)
    if n < 3:
        raise AnalysisError('suffix constructors: only %d of _bind_constructor / _call_constructor / _path_constructor found' % n)
    if bad:
        run.violation(rule, repo.func('yaml._bind_constructor'), 'tag-suffix constructors', '; '.join(bad[:3]))
    else:
        run.ok(rule, repo.func('yaml._bind_constructor'), '!bind: / !call: / !path: constructors evaluated on 3 suffix shapes each', 'name[:metadata]; one colon at most; absent metadata = none')


def decode_metadata_table(repo, run, rule):
    """yaml._decode_metadata evaluated: nothing encoded gives no arguments; otherwise every merge-control field present in the
    decoded mapping becomes a constructor argument of its own and the remaining entries are the user metadata"""
    fi = repo.func('yaml._decode_metadata')
    owner, e = repo.class_attr('ConfigNode', 'special_metadata_names')
    if e is None:
        raise AnalysisError('ConfigNode.special_metadata_names not found')
    from ..srcmodel import fold_const
    ok, specials = fold_const(repo, e, owner)
    if not ok or not specials:
        raise AnalysisError('ConfigNode.special_metadata_names is not a literal')
    specials = list(specials)
    bad = []
    for stored in ({}, {'user': 1}, {specials[0]: 'S0', 'user': 1}, {s_: 'v_' + s_ for s_ in specials}, dict({s_: 'v_' + s_ for s_ in specials[:2]}, u1=1, u2=2)):
        ev = _fde(repo)
        fh = lambda s_: ('hex', s_)      # noqa: E731
        fh._fde_ok = True
        ld = lambda b, stored=stored: dict(stored)      # noqa: E731
        ld._fde_ok = True
        ev.extcalls.update({'bytes.fromhex': fh, 'pickle.loads': ld})
        try:
            r = ev.call(fi, 'abcd')
        except Unsupported as e2:
            raise AnalysisError('_decode_metadata: finite-domain evaluator refused: %s' % e2)
        want = {k: v for k, v in stored.items() if k in specials}
        want['metadata'] = {k: v for k, v in stored.items() if k not in specials}
        if r.raised or r.ret != want:
            bad.append('decoded mapping %r becomes %s, expected %r' % (stored, r.raised or r.ret, want))
    for empty in ('', None):
        ev = _fde(repo)
        r = ev.call(fi, empty)
        if r.raised or r.ret != {}:
            bad.append('no metadata (%r) gives %s, expected {}' % (empty, r.raised or r.ret))
    if bad:
        run.violation(rule, fi, 'yaml._decode_metadata', '; '.join(bad[:2]))
    else:
        run.ok(rule, fi, '_decode_metadata evaluated on 7 inputs', 'merge-control fields become arguments, the rest is user metadata; nothing encoded -> {}')


def error_wrapping(repo, run, rule):
    """how failures become the errors the properties name (default configuration of the errors module):
    rethrow_point re-raises an error of the stage's own class as it is and converts anything else into that class, carrying node,
    path, second node, the text of the original exception and the exception itself as cause; the node-method decorators hand it
    (self, path, other-if-it-is-a-node); api_entry re-creates the error with all its fields, keeps the original exception as cause and
    only touches that exception when there is one; the entered-flag is set while the call runs and cleared afterwards"""
    rp = repo.func('errors.rethrow_point')
    ps = rp.params()
    if len(ps) != 4:
        raise AnalysisError('errors.rethrow_point: (error_type, self, path, other) signature not recognised')
    et, me, pth, oth = ps
    bad = []
    seen = set()
    for p in tr.paths_of(repo, rp, follow_exceptions=True):
        exc = [t.split(':', 1)[1] for t, pol in p.facts if pol and t.startswith('exception:')]
        if not exc:
            continue
        fin = tr.final_event(p)
        if exc[0] == et:
            seen.add('own')
            if p.status != 'raise' or fin is None or fin.value.text != '<reraise>':
                bad.append('an error of the stage\'s own class is not passed on unchanged (%s %s)' % (p.status, fin.value.text[:50] if fin is not None and fin.value is not None else ''))
        elif exc[0] in ('Exception', 'BaseException'):
            seen.add('other')
            if p.status != 'raise' or fin is None or not isinstance(fin.value.ast, ast.Call) or norm(fin.value.ast.func) != et:
                bad.append('an exception raised inside is not converted into the stage\'s error class (%s %s)' % (p.status, fin.value.text[:50] if fin is not None and fin.value is not None else ''))
                continue
            kw = {k.arg: norm(k.value) for k in fin.value.ast.keywords}
            if kw.get('node') != me or kw.get('path') != pth or kw.get('extra_node') != oth:
                bad.append('the converted error does not carry node / path / second node (%s)' % kw)
            if kw.get('error_msg') != 'str(caught_exception)':
                bad.append('the converted error does not carry the text of the original exception (error_msg=%s)' % kw.get('error_msg'))
            if fin.target != 'caught_exception':
                bad.append('the original exception is not the cause of the converted error (from %s)' % fin.target)
    if seen != {'own', 'other'}:
        raise AnalysisError('errors.rethrow_point: handlers for the own error class / any other exception not recognised (%s)' % sorted(seen))
    if bad:
        run.violation(rule, rp, 'errors.rethrow_point', '; '.join(sorted(set(bad))[:3]))
    else:
        run.ok(rule, rp, 'rethrow_point: own error class passes, anything else -> error_type(error_msg=str(e), node, path, extra_node) from e')
    # the decorators built by node.decorator_factory
    df = repo.func('node.decorator_factory')
    impl = None
    for a in df.nested().values():
        for b in a.nested().values():
            impl = b
    if impl is None:
        raise AnalysisError('node.decorator_factory: the wrapper function was not found')
    bad = []
    n = 0
    for p in tr.paths_of(repo, impl, follow_exceptions=False):
        if p.status != 'return':
            continue
        ent = [e for e in p.events if e.kind == 'with_enter' and isinstance(e.value.ast, ast.Call) and norm(e.value.ast.func).endswith('rethrow_point')]
        if len(ent) != 1:
            bad.append('the wrapped call does not run inside exactly one rethrow_point')
            continue
        n += 1
        a = _flat_call_args(repo, impl, ent[0].value.ast, ['error_type', 'self', 'path', 'other'])
        if a is None:
            raise AnalysisError('node.decorator_factory: arguments of %s not recognised' % norm(ent[0].value.ast)[:80])
        if len(a) != 4 or norm(a[0]) != 'error_type' or norm(a[1]) != 'args[0]':
            bad.append('rethrow_point is not given (error_type, self, ...): %s' % norm(ent[0].value.ast)[:80])
            continue
        cand = [t[len('isinstance('):-len(', ConfigNode)')] for t, pol in p.facts if t.startswith('isinstance(') and t.endswith(', ConfigNode)')]
        pol = [pol_ for t, pol_ in p.facts if t.startswith('isinstance(') and t.endswith(', ConfigNode)')]
        if not cand:
            bad.append('the third argument is handed on without being tested for being a node')
        elif pol[0] and norm(a[3]) != cand[0]:
            bad.append('a node given as the other operand is not handed on as the second node (%s)' % norm(a[3])[:40])
        elif not pol[0] and not (isinstance(a[3], ast.Constant) and a[3].value is None):
            bad.append('an operand that is not a node is handed on as the second node of the error (%s): building the error would fail on it' % norm(a[3])[:40])
        calls = [e for e in p.events if e.kind == 'call' and e.callee == 'func']
        if len(calls) != 1 or p.ret is None or p.ret.text != calls[0].result.text:
            bad.append('the wrapped function is not called exactly once with its result returned')
    if not n:
        raise AnalysisError('node.decorator_factory: no completing path of the wrapper')
    if bad:
        run.violation(rule, impl, 'node.decorator_factory wrapper', '; '.join(sorted(set(bad))[:3]))
    else:
        run.ok(rule, impl, 'rethrow decorators: rethrow_point(error_type, self, path, other if it is a node else None) around func(*args, **kwargs) (%d paths)' % n)
    # api_entry
    api = repo.func('errors.api_entry').nested().get('impl')
    if api is None:
        raise AnalysisError('errors.api_entry: wrapper not found')
    bad = []
    n = 0
    for p in tr.paths_of(repo, api, follow_exceptions=True):
        entered = [pol for t, pol in p.facts if '_api_entered' in t]
        if not entered or entered[0]:
            continue
        sets = [(i, e) for i, e in enumerate(p.events) if e.kind == 'store' and e.target.endswith('_api_entered.value')]
        call = [i for i, e in enumerate(p.events) if e.kind == 'call' and e.callee == 'fn']
        if not call:
            continue
        n += 1
        before = [e.value.const for i, e in sets if i < call[0]]
        after = [e.value.const for i, e in sets if i > call[0]]
        if before[-1:] != [True] or after[-1:] != [False]:
            bad.append('the entered-flag is %s while the call runs and %s afterwards (expected True / False)' % (before[-1:] or 'unset', after[-1:] or 'left set'))
        if any(pol and t.startswith('exception:') for t, pol in p.facts):
            fin = [e for e in p.events if e.kind == 'raise']
            if p.status != 'raise' or not fin:
                bad.append('an error raised by the call is swallowed')
                continue
            v = fin[-1].value.ast
            kw = {k.arg: norm(k.value) for k in v.keywords} if isinstance(v, ast.Call) else {}
            want = {k: 'caught_exception.' + k for k in ('error_msg', 'node', 'path', 'extra_node', 'note')}
            if not isinstance(v, ast.Call) or norm(v.func) != 'type(caught_exception)' or kw != want:
                bad.append('the error is not re-created from its own class and fields (%s)' % norm(v)[:80])
            if fin[-1].target != 'caught_exception.__context__':
                bad.append('the re-created error does not keep the original exception as its cause (from %s)' % fin[-1].target)
            touch = [e for e in p.events if e.kind == 'store' and e.target.startswith('caught_exception.__context__.')]
            none_ctx = any(t == 'caught_exception.__context__ is None' and pol for t, pol in p.facts)
            if touch and none_ctx:
                bad.append('the original exception is modified on a path where there is none (an AttributeError would replace the error)')
    if not n:
        raise AnalysisError('errors.api_entry: no path through the guarded call')
    if bad:
        run.violation(rule, api, 'errors.api_entry', '; '.join(sorted(set(bad))[:3]))
    else:
        run.ok(rule, api, 'api_entry: flag set / cleared around the call; errors re-created field by field from their own class, original exception kept as cause (%d paths)' % n)


def namespace_assembly(repo, run, rule):
    """NamespaceableMeta.__init__ on traces (the one piece of machinery the source model of this analysis mirrors): every collected
    namespace is installed on the class under its name, and a member that was moved into a namespace is removed from the class
    itself (otherwise every namespace member name would be a class attribute - and mapping keys of that name would be refused)"""
    fi = repo.func('NamespaceableMeta.__init__')
    cls = fi.params()[0]
    installs, removals = [], []
    for p in tr.paths_of(repo, fi, follow_exceptions=False):
        for e in p.events:
            if e.kind == 'call' and e.callee == 'setattr' and len(e.args) == 3 and e.args[0].text == cls:
                installs.append((p, e))
            if e.kind == 'call' and e.callee == 'delattr' and len(e.args) == 2 and e.args[0].text == cls:
                removals.append((p, e))
    if not installs:
        run.violation(rule, fi, 'namespace installation', 'the collected namespaces are not installed on the class (setattr(cls, <namespace name>, ...))')
        return
    if not removals:
        run.violation(rule, fi, 'removal of moved members', 'members moved into a namespace stay plain class attributes: their names are refused as mapping keys and shadow attribute-style access to children')
        return
    bad = set()
    for p, e in removals:
        x = e.args[1].text
        facts = dict((t, pol) for t, pol in e.facts)
        # the removed name may be drawn from a filtering generator expression / comprehension: its conditions hold for every element
        xa = e.args[1].ast
        if isinstance(xa, ast.Call) and isinstance(xa.func, ast.Name) and xa.func.id == 'each' and len(xa.args) == 1 and isinstance(xa.args[0], (ast.GeneratorExp, ast.ListComp, ast.SetComp)) \
                and len(xa.args[0].generators) == 1 and isinstance(xa.args[0].generators[0].target, ast.Name) and isinstance(xa.args[0].elt, ast.Name) \
                and xa.args[0].elt.id == xa.args[0].generators[0].target.id:
            var = xa.args[0].elt.id
            x = var
            for cond in xa.args[0].generators[0].ifs:
                for cj in (cond.values if isinstance(cond, ast.BoolOp) and isinstance(cond.op, ast.And) else [cond]):
                    if isinstance(cj, ast.UnaryOp) and isinstance(cj.op, ast.Not):
                        facts[norm(cj.operand)] = False
                    elif isinstance(cj, ast.Compare) and len(cj.ops) == 1 and isinstance(cj.ops[0], ast.IsNot):
                        facts[norm(ast.Compare(left=cj.left, ops=[ast.Is()], comparators=cj.comparators))] = False
                    elif isinstance(cj, ast.Compare) and len(cj.ops) == 1 and isinstance(cj.ops[0], ast.NotIn):
                        facts[norm(ast.Compare(left=cj.left, ops=[ast.In()], comparators=cj.comparators))] = False
                    else:
                        facts[norm(cj)] = True
        if facts.get('%s in %s.__dict__' % (x, cls)) is not True:
            bad.add('a member is removed without being known to be in the class\'s own dictionary')
        if facts.get("%s.startswith('__')" % x) is not False:
            bad.add('special members (names starting with __) are not exempted from removal')
        if facts.get('%s is None' % x) is True:
            bad.add('the removal runs for the None entry (the namespace type)')
    if bad:
        run.violation(rule, fi, 'removal of moved members', '; '.join(sorted(bad)))
    else:
        run.ok(rule, fi, 'namespaces installed with setattr; moved members removed from the class (own, non-dunder names only)')


# tag -> (node class the constructor must build, data_arg_name, parse_scalars, dict_is_data) - written down from the documentation of the
# tags; None for a field = not constrained.  A trailing ':' is the prefix (multi) form.
TAG_SPEC = {
    '!append': ('AppendNode', None, True, True), '!extend': ('ExtendNode', None, True, True), '!prev': ('PrevNode', None, False, True), '!clear': ('ClearNode', None, True, True),
    '!include': ('IncludeNode', None, False, False), '!rec': ('RecurseNode', None, False, False), '!path': ('PathNode', None, True, True), '!path:': ('PathNode', None, True, False),
    '!eval': ('EvalNode', None, False, True), '!fstr': (None, None, False, True), '!import': ('ImportNode', None, False, True),
    '!call': ('CallNode', 'func', True, True), '!call:': ('CallNode', 'args', True, True), '!bind': ('BindNode', 'func', True, True), '!bind:': ('BindNode', 'args', True, True),
    '!xref': ('XRefNode', None, False, True), '!ref': ('XRefNode', None, False, True), '!required': ('RequiredNode', None, True, True), '!null': ('ConfigScalar(type(None))', None, True, True),
}


def constructor_arguments(repo, run, rule):
    """every registered tag constructor hands PyYAML's own (loader, node) pair on to _make_node in that order, and returns the node
    that _make_node built (a constructor that returns nothing makes the tagged value None)"""
    from . import tagtable
    table = tagtable.constructors(repo)
    n = 0
    seen = set()
    for tag, e in sorted(table.items()):
        if id(e.fi) in seen:
            continue
        seen.add(id(e.fi))
        if e.make is None:
            # no (single) _make_node call was found: positively a defect only when some path returns without having built anything
            empty = [p_ for p_ in tr.paths_of(repo, e.fi, no_inline={'_make_node', 'make_node', '_decode_metadata'}, follow_exceptions=False)
                     if p_.status == 'return' and (p_.ret is None or p_.ret.const is None) and not any(ev.kind == 'call' and ev.callee in ('_make_node', 'make_node') for ev in p_.events)]
            if empty:
                run.violation(rule, e.fi, 'constructor of %s' % tag, 'the constructor registered for %s returns None without building a node: every value tagged %s becomes null' % (tag, tag))
                continue
            raise AnalysisError('%s: the constructor of %s does not build its node through a single _make_node call' % (rule, tag))
        ps = e.fi.params()
        want = (ps[0], ps[-1]) if len(ps) >= 2 else None
        mk = e.make_event
        got = tuple(a.text for a in mk.args[:2])
        if len(got) < 2:
            got = got + tuple(mk.kw[k].text if k in mk.kw else None for k in ('loader', 'node')[len(got):])
        n += 1
        if want is None or got != want:
            run.violation(rule, e.fi, '%s -> %s' % (tag, unparse_(e.make)), 'the constructor of %s passes (%s) as (loader, node) to _make_node; PyYAML hands it (%s)' % (tag, ', '.join(map(str, got)), ', '.join(ps)), node=e.make)
            continue
        bad = None
        for p_ in tr.paths_of(repo, e.fi, no_inline={'_make_node', 'make_node', '_decode_metadata'}, follow_exceptions=False):
            if p_.status != 'return':
                continue
            made = [ev for ev in p_.events if ev.kind == 'call' and ev.callee in ('_make_node', 'make_node')]
            if made and (p_.ret is None or not (isinstance(p_.ret.ast, ast.Call) and unparse_(p_.ret.ast.func) in ('_make_node', 'make_node'))):
                bad = 'a path of the constructor of %s builds the node and returns %s' % (tag, p_.ret.text[:40] if p_.ret is not None else 'nothing')
        if bad:
            run.violation(rule, e.fi, '%s -> %s' % (tag, unparse_(e.make)), bad + ': the tagged value becomes that instead of the node', node=e.make)
        else:
            run.ok(rule, (e.fi.file, e.make.lineno, e.fi.qualname), '%s: _make_node(%s) returned' % (tag, ', '.join(got)))
    if n < 25:
        raise AnalysisError('%s: only %d constructors with a _make_node call found' % (rule, n))


def xref_chain_table(repo, run, rule):
    """XRefNode.on_evaluate_impl evaluated over reference chains of length 1..3 (the context is a stand-in): every link is looked
    up through ctx.get_node(<the reference node>), the node the chain ends in is what gets evaluated, under the name of the last
    reference (its value is cached / reported under that name), and its value is the reference's value; a missing target and a
    chain that comes back to a visited reference are ValueErrors"""
    fi = repo.func('XRefNode.ayns.on_evaluate_impl')
    bad = []
    rows = 0
    for n in ((1, 2, 3, 4, 5, 6, 8) if thorough() else (1, 2, 3)):
        for end in ('node', 'null', 'missing', 'cycle'):
            xs = [node_obj('x%d' % i, 'XRefNode') for i in range(1, n + 1)]
            tgt = node_obj('target', 'ConfigScalar')
            nxt = {}
            for i, x in enumerate(xs):
                if i + 1 < n:
                    nxt[x.name] = xs[i + 1]
                elif end != 'missing':
                    nxt[x.name] = {'node': tgt, 'null': None, 'cycle': xs[0]}[end]     # 'null': the target was evaluated already, to None
            log = []

            def stub(name, recv, args, kwargs, log=log, nxt=nxt):
                if name == 'get_node':
                    a = args[0] if args else None
                    log.append(('get', getattr(a, 'name', a)))
                    r_ = nxt.get(getattr(a, 'name', None), 'MISSING')
                    if r_ == 'MISSING':
                        # the lookup protocol of get_node: KeyError unless incomplete is given (None / true: the missing node is None)
                        inc = kwargs.get('incomplete', False)
                        if inc is None or inc:
                            return None
                        raise Raised('KeyError')
                    return r_
                if name == 'evaluate_node':
                    log.append(('eval', getattr(args[0], 'name', args[0]) if args else None, repr(kwargs.get('prefix', args[1] if len(args) > 1 else None))))
                    return 'VALUE'
                if name == 'get_str_path':
                    return 'the.path'
                raise AnalysisError('XRefNode.on_evaluate_impl: unexpected call of %s' % name)
            f = FDE(repo, stubs={'get_node', 'evaluate_node', 'get_str_path'}, stub=stub)
            r = fde_guard(lambda: f.call(fi, xs[0], ['the', 'path'], Obj('ctx', 'EvalContext')))
            rows += 1
            what = 'a chain of %d reference(s) ending in %s' % (n, {'node': 'a plain node', 'null': 'a path already evaluated to None', 'missing': 'a missing path', 'cycle': 'its first reference again'}[end])
            gets = [x[1] for x in log if x[0] == 'get']
            evs = [x for x in log if x[0] == 'eval']
            if end in ('node', 'null'):
                want_t = 'target' if end == 'node' else None
                if r.raised:
                    bad.append('%s raises %s' % (what, r.raised))
                elif gets != [x.name for x in xs]:
                    bad.append('%s: looked up %s, expected every reference of the chain once (%s)' % (what, gets, [x.name for x in xs]))
                elif len(evs) != 1 or evs[0][1] != want_t:
                    bad.append('%s: evaluates %s, expected what the chain ends in' % (what, [e[1] for e in evs]))
                elif 'x%d' % n not in evs[0][2]:
                    bad.append('%s: the target is evaluated under the name %s, expected the text of the last reference (x%d)' % (what, evs[0][2], n))
                elif r.ret != 'VALUE':
                    bad.append('%s: the value of the target is not what the reference evaluates to (%r)' % (what, r.ret))
            else:
                if r.raised != 'ValueError':
                    bad.append('%s: %s, expected ValueError' % (what, 'raises ' + r.raised if r.raised else 'evaluates to %r' % (r.ret,)))
    run.table(rule, rows, 'reference chains of length 1..3 x (plain node / evaluated null / missing / cycle)')
    if bad:
        run.violation(rule, fi, 'reference chain table', bad[0] + (' [%d rows]' % len(bad) if len(bad) > 1 else ''), witness=bad[:4])
    else:
        run.ok(rule, fi, 'reference chains (%d rows)' % rows, 'every link looked up, target evaluated under the last reference\'s name, missing / circular -> ValueError')


def small_node_tables(repo, run, rule, which):
    """evaluated tables of one-line node methods: `required` - a !required node takes no value (ValueError otherwise) and hands the
    remaining arguments to the base constructor; `import` - an !import node evaluates to import_name(<its text>) after the safety
    check; `function-bool` - a function node is true exactly when it has a target"""
    bad = []
    if which == 'required':
        fi = repo.func('RequiredNode.__init__')
        for v in ('x', 0, None):
            log = []
            f = FDE(repo, stubs={'__init__'}, stub=lambda n, recv, a, k, log=log: log.append((list(a), dict(k))))
            r = fde_guard(lambda: f.call(fi, node_obj('r', 'RequiredNode'), v, idx=3))
            if v is None:
                if r.raised or len(log) != 1 or log[0][1].get('idx') != 3 or log[0][0] not in ([], [3]):
                    bad.append('a !required node without a value: %s' % ('raises ' + r.raised if r.raised else 'base constructor calls %s, expected one with the remaining arguments' % log))
            elif r.raised != 'ValueError':
                bad.append('a !required node given the value %r %s, expected ValueError' % (v, 'raises ' + r.raised if r.raised else 'is accepted (the value is dropped silently)'))
    elif which == 'import':
        fi = repo.func('ImportNode.ayns.on_evaluate_impl')
        log = []

        def stub(n, recv, a, k, log=log):
            log.append((n, [repr(x) for x in a]))
            return 'IMPORTED' if n == 'import_name' else None
        f = FDE(repo, stubs={'_require_safe', 'import_name'}, stub=stub)
        r = fde_guard(lambda: f.call(fi, node_obj('imp', 'ImportNode'), ['p'], Obj('ctx', 'EvalContext')))
        names = [x[0] for x in log]
        if r.raised or names != ['_require_safe', 'import_name'] or 'str(imp)' not in log[1][1][0] or len(log[1][1]) != 1:
            bad.append('an !import node: %s, expected the safety check followed by import_name(str(self))' % ('raises ' + r.raised if r.raised else 'calls %s' % log))
        elif r.ret != 'IMPORTED':
            bad.append('an !import node evaluates to %r, not to the imported entity' % (r.ret,))
    elif which == 'function-bool':
        fi = repo.func('FunctionNode.__bool__')
        for v, want in (('f', True), ('', False), (None, False)):
            r = fde_guard(lambda: FDE(repo).call(fi, node_obj('fn', 'CallNode', _func=v)))
            if r.raised or r.ret is not want:
                bad.append('bool(function node with target %r) is %r, expected %r (merging tests the truth of nodes)' % (v, r.raised or r.ret, want))
    else:
        raise AnalysisError('small_node_tables: %s' % which)
    if bad:
        run.violation(rule, fi, fi.qualname, '; '.join(bad[:2]))
    else:
        run.ok(rule, fi, fi.qualname + ' evaluated')


def add_source_table(repo, run, rule):
    """Builder.add_source evaluated over (raw_yaml in None/False/True) x (what opening the named file does: succeeds, FileNotFoundError,
    OSError 22 / 36 - the text cannot be a file name -, OSError 13) x (explicit filename or not): raw text is parsed as given and never
    opened; an opened file is parsed by content under its name; a missing file is an error when a file was asked for (raw_yaml=False:
    the include lookup relies on this to try the next directory) and falls back to parsing the text only when raw_yaml is None; other
    OS errors are never swallowed; an explicit filename names the parsed text; documents that are None are skipped; the current
    file is reset afterwards"""
    import pathlib
    fi = repo.func('Builder.add_source')
    bad = []
    rows = 0
    outcomes = {'ok': 'ok', 'missing': ('FileNotFoundError', None, {'errno': 2}), 'EINVAL': ('OSError', None, {'errno': 22}), 'ENAMETOOLONG': ('OSError', None, {'errno': 36}), 'EACCES': ('OSError', None, {'errno': 13})}
    for raw in (None, False, True):
        for oname, outcome in outcomes.items():
            for filename in (None, 'given.yaml'):
                for as_path in (False, True):
                    if as_path and (raw or oname != 'ok'):
                        continue
                    from .common import builder_obj
                    b = builder_obj(repo, stages=[], _current_file=None, _default_safe_flag=True)
                    log = []

                    def stub(n, recv, a, k, log=log):
                        if n == 'read':
                            return 'CONTENT'
                        if n in ('default_safe_flag', 'default_filename'):
                            log.append((n, a[0] if a else None))
                            return Opaque('cm')
                        raise Unsupported('call of ' + n)

                    def _open(name, mode='r', log=log, outcome=outcome, **open_options):
                        log.append(('open', name))
                        if outcome == 'ok':
                            return Obj('file', 'TextIO')
                        raise Raised(*outcome)

                    def _parse(src, bld=None, log=log, b=b):
                        log.append(('parse', src, b.f.get('_current_file')))
                        return ['DOC', None]
                    f = FDE(repo, stubs={'read', 'default_safe_flag', 'default_filename'}, stub=stub)
                    f.externals = {'pathlib.Path': pathlib.Path}
                    from .common import fs_extcalls
                    f.extcalls = dict(fs_extcalls(isfile=lambda p_, oname=oname: oname == 'ok'), **{'yaml.parse': _parse, 'parse': _parse, 'open': _open})
                    import os as _os
                    f.externals['os.PathLike'] = _os.PathLike
                    src = pathlib.PurePosixPath('a.yaml') if as_path else 'a.yaml'
                    r = fde_guard(lambda: f.call(fi, b, src, raw_yaml=raw, filename=filename))
                    rows += 1
                    what = 'add_source(%s, raw_yaml=%r%s) where opening the file %s' % ('Path' if as_path else 'text', raw, ', filename=%r' % filename if filename else '', {'ok': 'succeeds'}.get(oname, 'fails with ' + oname))
                    opened = [x for x in log if x[0] == 'open']
                    parsed = [x for x in log if x[0] == 'parse']
                    if raw:
                        want = ('parse', 'a.yaml', filename)
                        want_err = None
                        if opened:
                            bad.append('%s: the text is opened as a file although raw_yaml is set' % what)
                            continue
                    elif oname == 'ok':
                        want, want_err = ('parse', 'CONTENT', filename or 'a.yaml'), None
                    elif oname in ('missing', 'EINVAL', 'ENAMETOOLONG') and raw is None:
                        want, want_err = ('parse', 'a.yaml', filename), None
                    else:
                        want, want_err = None, outcome[0]
                    if want_err is not None:
                        if r.raised != want_err:
                            bad.append('%s: %s, expected %s to reach the caller' % (what, 'raises ' + r.raised if r.raised else 'goes on and parses %r' % (parsed[0][1] if parsed else None), want_err))
                        continue
                    if r.raised:
                        bad.append('%s: raises %s' % (what, r.raised))
                    elif parsed != [want]:
                        bad.append('%s: parses %s, expected the text %r under the file name %r' % (what, [(x[1], x[2]) for x in parsed], want[1], want[2]))
                    elif b.f.get('stages') != ['DOC']:
                        bad.append('%s: the stages are %r after a parse that yielded one document and one empty document' % (what, b.f.get('stages')))
                    elif b.f.get('_current_file') is not None:
                        bad.append('%s: the current file stays %r afterwards' % (what, b.f.get('_current_file')))
    # the same source added again is another document sequence appended to the stages: (base, experiment, base) is a different history
    # from (base, experiment) - the second `base` is the latest writer among equals
    for raw, exists in ((True, False), (None, False), (None, True), (False, True)):
        from .common import builder_obj, fs_extcalls
        b = builder_obj(repo, stages=[], _current_file=None, _default_safe_flag=True)
        n_parsed = []

        def stub2(n, recv, a, k):
            if n == 'read':
                return 'CONTENT'
            if n in ('default_safe_flag', 'default_filename'):
                return Opaque('cm')
            raise Unsupported('call of ' + n)

        def _open2(name, mode='r', exists=exists, **open_options):
            if exists:
                return Obj('file', 'TextIO')
            raise Raised('FileNotFoundError', None, {'errno': 2})

        def _parse2(src, bld=None, n_parsed=n_parsed):
            n_parsed.append(src)
            return ['DOC%d' % len(n_parsed)]
        rs = []
        for again in range(2):
            f = FDE(repo, stubs={'read', 'default_safe_flag', 'default_filename'}, stub=stub2)
            import os as _os
            f.externals = {'pathlib.Path': pathlib.Path, 'os.PathLike': _os.PathLike}
            f.extcalls = dict(fs_extcalls(isfile=lambda p_, exists=exists: exists), **{'yaml.parse': _parse2, 'parse': _parse2, 'open': _open2})
            rs.append(fde_guard(lambda: f.call(fi, b, 'a.yaml', raw_yaml=raw)))
        rows += 1
        what = 'the same %s added twice (raw_yaml=%r)' % ('file' if exists else 'text', raw)
        if any(r_.raised for r_ in rs):
            bad.append('%s: raises %s' % (what, [r_.raised for r_ in rs]))
        elif b.f.get('stages') != ['DOC1', 'DOC2']:
            bad.append('%s: the stages are %r, expected the documents of both additions [DOC1, DOC2] - a repeated source is the latest writer again' % (what, b.f.get('stages')))
    run.table(rule, rows, 'add_source over raw_yaml x outcome of opening the file x explicit filename')
    if bad:
        run.violation(rule, fi, 'source interpretation table', bad[0] + (' [%d rows]' % len(bad) if len(bad) > 1 else ''), witness=bad[:4])
    else:
        run.ok(rule, fi, 'source interpretation (%d rows)' % rows, 'raw text never opened; missing file: error for raw_yaml=False, fallback for None; other OS errors propagate')


def list_merge_keys_table(repo, run, rule):
    """ConfigList.on_merge_impl evaluated for a mapping merged onto a list of length 0 / 1 / 3, over key sets: the merge goes on to the
    key-wise container merge exactly when every key addresses an existing element (-len <= key < len); any other key - including
    key 0 of an empty list - is a MergeError and nothing is merged"""
    from ..fde import NodeInt
    fi = repo.func('ConfigList.ayns.on_merge_impl')
    bad = []
    rows = 0
    for L in ((0, 1, 2, 3, 4, 6) if thorough() else (0, 1, 3)):
        keysets = [[0], [0, 1], [L], [-1], [-L], [-L - 1], [0, L], [L + 2], [1, 0], []]
        if thorough():
            import itertools
            keysets += [list(c) for c in itertools.combinations(range(-L - 1, L + 2), 2)] + [[k] for k in range(-L - 2, L + 3)]
        if L:
            keysets += [[L - 1], [L - 1, L], [-L, L - 1]]
        for keys in keysets:
            me = node_obj('lst', 'ConfigList', _children={i: node_obj('e%d' % i) for i in range(L)})
            other = node_obj('other', 'ConfigDict', _children={})
            knodes = [NodeInt(k) for k in keys]
            log = []

            def stub(name, recv, a, k, log=log, knodes=knodes):
                if name == 'children_names':
                    return list(knodes)
                if name == 'names':
                    return list(knodes)
                if name in ('filter_nodes',):
                    log.append(name)
                    return None
                if name == 'on_merge_impl':
                    log.append('merge')
                    return 'MERGED'
                raise Unsupported('call of ' + name)
            f = FDE(repo, stubs={'children_names', 'filter_nodes', 'on_merge_impl'}, stub=stub)
            r = fde_guard(lambda: f.call(fi, me, ['p'], other))
            rows += 1
            valid = all(-L <= k < L for k in keys)
            what = 'a mapping with the keys %s merged onto a list of %d element(s)' % (keys, L)
            if valid:
                if r.raised or 'merge' not in log:
                    bad.append('%s: %s, expected the key-wise merge' % (what, 'raises ' + r.raised if r.raised else 'does not reach the container merge'))
            elif r.raised != 'MergeError':
                off = [k for k in keys if not -L <= k < L]
                bad.append('%s: %s, expected MergeError (key %d addresses no existing element)' % (what, 'raises ' + r.raised if r.raised else 'goes on to the key-wise merge, where the value is appended as a new element', off[0]))
            elif 'merge' in log:
                bad.append('%s: merged before the MergeError' % what)
    run.table(rule, rows, 'mapping keys x list length')
    if bad:
        run.violation(rule, fi, 'mapping-onto-list key table', bad[0] + (' [%d rows]' % len(bad) if len(bad) > 1 else ''), witness=bad[:4])
    else:
        run.ok(rule, fi, 'mapping-onto-list keys (%d rows)' % rows, 'exactly the keys -len..len-1 are accepted')


def first_not_missing_table(repo, run, rule):
    """ComposedNode.ayns.get_first_not_missing_node evaluated on a small tree (the path walk is the library's own, evaluated too):
    the answer is the deepest node that exists along the path - the node itself when the whole path exists, whatever it holds
    (a node holding 0 or an empty container is a node), else the last existing ancestor; with intermediate=True the chain of
    existing nodes from the root. Pruning under a deleting node compares every older node with this counterpart."""
    from ..fde import NodeInt
    fi = repo.func('ComposedNode.ayns.get_first_not_missing_node')
    bad = []
    rows = 0
    for leaf in (NodeInt(7, 'seven'), NodeInt(0, 'zero')):
        empty = node_obj('empty', 'ConfigDict', _children={})
        a = node_obj('a', 'ConfigDict', _children={'keep': leaf, 'e': empty})
        root = node_obj('root', 'ConfigDict', _children={'a': a})
        cases = [(['a', 'keep'], [root, a, leaf]), (['a', 'zzz'], [root, a]), (['zzz'], [root]), (['zzz', 'deeper'], [root]), (['a', 'keep', 'deeper'], [root, a, leaf]), ([], [root]),
                 (['a', 'e'], [root, a, empty]), (['a', 'e', 'x'], [root, a, empty]), (['a'], [root, a])]
        for path, chain in cases:
            for inter in (False, True):
                f = FDE(repo, stubs={'get_list_path'}, stub=lambda n, recv, a_, k: ([] if not a_ or (len(a_) == 1 and a_[0] is None) else list(a_[0]) if len(a_) == 1 and isinstance(a_[0], (list, tuple)) else list(a_)))
                r = fde_guard(lambda: f.call(fi, root, path, intermediate=inter))
                rows += 1
                want = chain if inter else chain[-1]
                got = r.ret
                same = (not r.raised) and (isinstance(got, list) and len(got) == len(want) and all(x is y for x, y in zip(got, want)) if inter else got is want)
                if not same:
                    bad.append('path %s in {a: {keep: %s, e: {}}}%s gives %s, expected %s' % (path, int(leaf), ' (intermediate)' if inter else '', 'an exception: ' + r.raised if r.raised else got, want))
    run.table(rule, rows, 'paths x leaf value (7 / 0) x intermediate')
    if bad:
        run.violation(rule, fi, 'deepest existing node table', bad[0] + (' [%d rows]' % len(bad) if len(bad) > 1 else '') + ': an existing node that holds a false value is skipped, so pruning compares older nodes with the wrong counterpart', witness=bad[:4])
    else:
        run.ok(rule, fi, 'deepest existing node (%d rows)' % rows, 'existing nodes are found whatever they hold; missing components fall back to the last existing ancestor')


def constructor_error_context(repo, run, rule):
    """the decorator of the tag constructors evaluated for both call shapes PyYAML uses - (loader, node) and (loader, tag suffix,
    node): the constructor runs inside errors.rethrow_point(ParsingError, <the YAML node>, ...) (so that an error is reported with
    the position of the offending node), receives the arguments unchanged, and its result is handed back"""
    fi = repo.func('yaml.rethrow_as_parsing_error')
    bad = []
    for shape in ('plain', 'multi'):
        log = []

        def func(*a, **k):
            log.append(('func', a, k))
            return 'RESULT'
        func._fde_ok = True

        def stub(n, recv, a, k):
            log.append((n, tuple(a), dict(k)))
            return Opaque('cm')
        f = FDE(repo, stubs={'rethrow_point'}, stub=stub)
        loader, node = Obj('loader', 'AwesomeyamlLoader'), Obj('ynode', 'yaml.Node')
        args = [loader, node] if shape == 'plain' else [loader, 'suffix', node]

        def go():
            w = f.call(fi, func)
            if w.raised:
                return w
            return f._apply(w.ret, list(args), {}, None)
        try:
            r = fde_guard(go)
        except Raised as ex:
            bad.append('%s constructor call raises %s' % (shape, ex.exc))
            continue
        if hasattr(r, 'raised') and getattr(r, 'raised', None):
            bad.append('the decorator itself raises %s' % r.raised)
            continue
        rp = [x for x in log if x[0] == 'rethrow_point']
        fc = [x for x in log if x[0] == 'func']
        if len(rp) != 1 or len(rp[0][1]) < 2 or rp[0][1][0] != ('class', 'ParsingError') or rp[0][1][1] is not node:
            bad.append('for a %s constructor call the error context is %s, expected rethrow_point(ParsingError, <the YAML node>, ...)' % (shape, [getattr(v, 'name', v) for v in rp[0][1]] if rp else 'not entered'))
        elif len(fc) != 1 or list(fc[0][1]) != args or fc[0][2] or log.index(rp[0]) > log.index(fc[0]):
            bad.append('for a %s constructor call the wrapped constructor is %s' % (shape, 'not called once with the arguments as given, inside the error context'))
        elif r != 'RESULT':
            bad.append('the result of the constructor is not handed back (%r)' % (r,))
    if bad:
        run.violation(rule, fi, 'rethrow_as_parsing_error', '; '.join(bad[:2]))
    else:
        run.ok(rule, fi, 'constructor decorator: error context carries the YAML node for both call shapes; arguments and result pass through')


def relative_import_calls(repo, run, rule):
    """every importlib.import_module call with a relative module name (leading dot) names the package it is relative to - without
    it the call raises TypeError whenever it is reached (the node classes behind some tags are imported this way, on first use)"""
    n = 0
    for fi in repo.all_functions(include_nested=True):
        for c in ast.walk(fi.node):
            if isinstance(c, ast.Call) and norm(c.func) in ('importlib.import_module', 'import_module') and c.args and isinstance(c.args[0], ast.Constant) and isinstance(c.args[0].value, str) \
                    and c.args[0].value.startswith('.'):
                n += 1
                pk = c.args[1] if len(c.args) > 1 else next((k.value for k in c.keywords if k.arg == 'package'), None)
                if pk is None or (isinstance(pk, ast.Constant) and pk.value is None):
                    run.violation(rule, fi, norm(c)[:80], 'relative import %r without a package: importlib raises TypeError when the call is reached (the tag that needs this module cannot be parsed)' % c.args[0].value, node=c)
                else:
                    run.ok(rule, (fi.file, c.lineno, fi.qualname), norm(c)[:80], 'relative to %s' % norm(pk)[:40])
    if n == 0:
        run.info(rule, ('awesomeyaml', 0, '<package>'), 'relative import_module calls', 'none in the package')


def dump_table(repo, run, rule):
    """yaml.dump evaluated (PyYAML's dump, open and the dumper class are stand-ins) over output in (None, an open stream, a file name) x
    exclude_metadata in (None, a set): the node tree and the stream reach PyYAML; the dumper PyYAML is told to create is an
    AwesomeyamlDumper built from PyYAML's own arguments, starting with an empty stack of inherited flags and the caller's set of
    excluded metadata (an empty set when none is given); the text is returned only when no output was given; a file the function
    opened itself is closed"""
    fi = repo.func('yaml.dump')
    bad = []
    rows = 0
    for out_kind in ('none', 'stream', 'filename'):
        for excl in (None, {'x'}):
            cap, made, log = [], [], []

            def ydump(data, stream=None, Dumper=None, cap=cap, **k):
                cap.append((data, stream, Dumper, k))
                return 'TEXT'

            def mk(*a, made=made, **k):
                o = Obj('dumper%d' % len(made), 'AwesomeyamlDumper')
                o.missing.add('metadata')
                o.missing.add('exclude_metadata')
                made.append((o, a, k))
                return o
            fobj = Obj('file', 'TextIO')

            def _open(name, mode='r', log=log, fobj=fobj, **open_options):
                log.append(('open', name, mode))
                return fobj

            def stub(n, recv, a, k, log=log):
                log.append((n, getattr(recv, 'name', recv)))
                return None
            f = FDE(repo, stubs={'close'}, stub=stub)
            f.extcalls = {'yaml.dump': ydump, 'open': _open}
            f.constructors = {'AwesomeyamlDumper': mk, 'ConfigNode': lambda x, **k: x}
            tree = node_obj('tree', 'ConfigDict')
            stream = Obj('stream', 'TextIO')
            output = {'none': None, 'stream': stream, 'filename': 'out.yaml'}[out_kind]
            what = 'dump(tree, output=%s, exclude_metadata=%s)' % ({'none': 'None', 'stream': '<stream>', 'filename': "'out.yaml'"}[out_kind], 'None' if excl is None else '{...}')
            rows += 1

            def go():
                r_ = f.call(fi, tree, output=output, exclude_metadata=excl, sort_keys=True)
                d_ = None
                if not r_.raised and len(cap) == 1 and cap[0][2] is not None:
                    d_ = f._apply(cap[0][2], ['STREAM'], {'width': 80}, None)
                return r_, d_
            try:
                r, d = fde_guard(go)
            except Raised as ex:
                bad.append('%s: the dumper factory raises %s' % (what, ex.exc))
                continue
            if r.raised:
                bad.append('%s raises %s' % (what, r.raised))
                continue
            if len(cap) != 1:
                bad.append('%s: PyYAML\'s dump is called %d times' % (what, len(cap)))
                continue
            data, st, D, kw = cap[0]
            want_stream = {'none': None, 'stream': stream, 'filename': fobj}[out_kind]
            if data is not tree:
                bad.append('%s: PyYAML receives %r, not the node tree' % (what, data))
            elif st is not want_stream:
                bad.append('%s: PyYAML writes to %r, expected %r' % (what, st, want_stream))
            elif kw.get('sort_keys') is not True:
                bad.append('%s: sort_keys does not reach PyYAML' % what)
            elif not isinstance(d, Obj) or not made or d is not made[-1][0] or made[-1][1] != ('STREAM',) or made[-1][2] != {'width': 80}:
                bad.append('%s: the dumper PyYAML creates is %r (constructed from %s), expected an AwesomeyamlDumper built from PyYAML\'s arguments' % (what, d, made[-1][1:] if made else 'nothing'))
            elif d.f.get('metadata') != [] or 'metadata' in d.missing:
                bad.append('%s: the dumper starts with the inherited-flags stack %r, expected []' % (what, d.f.get('metadata')))
            elif 'exclude_metadata' in d.missing or d.f.get('exclude_metadata') != (excl or set()) or not isinstance(d.f.get('exclude_metadata'), (set, frozenset)):
                bad.append('%s: the dumper\'s set of excluded metadata is %r, expected %r' % (what, d.f.get('exclude_metadata') if 'exclude_metadata' not in d.missing else '<unset>', excl or set()))
            elif r.ret != ('TEXT' if out_kind == 'none' else None):
                bad.append('%s returns %r' % (what, r.ret))
            elif out_kind == 'filename' and (('open', 'out.yaml', 'w') not in log or ('close', 'file') not in log):
                bad.append('%s: the file is not opened for writing and closed again (%s)' % (what, log))
            elif out_kind == 'stream' and ('close', 'stream') in log:
                bad.append('%s closes the caller\'s stream' % what)
    run.table(rule, rows, 'yaml.dump over output kind x exclude_metadata')
    if bad:
        run.violation(rule, fi, 'dump entry table', bad[0] + (' [%d rows]' % len(bad) if len(bad) > 1 else ''), witness=bad[:4])
    else:
        run.ok(rule, fi, 'dump entry (%d rows)' % rows, 'tree / stream / options reach PyYAML; dumper: own class, empty flag stack, caller\'s exclusions; text only without output; own file closed')


def _flat_call_args(repo, fi, call, names):
    """the arguments of a call as a positional list: keywords placed by the parameter names given, `*(a, b)` and `*Record(a, b)` (a
    private NamedTuple of the module, built in place) spliced in; None when something else is starred / unknown keywords are used"""
    out = []
    for a in call.args:
        if isinstance(a, ast.Starred):
            v = a.value
            if isinstance(v, (ast.Tuple, ast.List)):
                out.extend(v.elts)
                continue
            if isinstance(v, ast.Call) and isinstance(v.func, ast.Name) and not v.keywords and not any(isinstance(x, ast.Starred) for x in v.args):
                ci = repo.classes.get(v.func.id)
                if ci is not None and any(b.split('.')[-1] == 'NamedTuple' for b in ci.base_exprs):
                    out.extend(v.args)
                    continue
            return None
        out.append(a)
    for k in call.keywords:
        if k.arg is None or k.arg not in names or names.index(k.arg) != len(out):
            if k.arg in names and names.index(k.arg) > len(out):
                return None
            return None
        out.append(k.value)
    return out


def propagate_implicit_table(repo, run, rule, flags=('delete', 'allow_new')):
    """ComposedNode._propagate_implicit_values evaluated over (the node's explicit flag, the value it inherited, what a child has
    recorded as inherited) for delete and allow_new: a node WITHOUT an explicit flag hands the value it inherited on to its children
    (and, when that changed something, to theirs); a node WITH an explicit flag - true or false - leaves what its children recorded
    alone: they inherited the explicit flag when they were attached, the node's own inherited value must not replace it"""
    fi = repo.func('ComposedNode._propagate_implicit_values')
    bad = []
    rows = 0
    for flag in flags:
        for e in (None, True, False):
            for i in (None, True, False):
                for c in (None, True, False):
                    extras = (({}, {'_safe': True}, {'_safe': False, '_implicit_safe': False}, {'_delete' if flag != 'delete' else '_allow_new': False}, {'_priority': 1}) if thorough() else ({},))
                    if i is None:
                        # nothing inherited for THIS flag, while another inherited flag (an !unsafe / !new ancestor) makes the function go
                        # through the children: nothing is invented for this flag - the children keep deciding by their own type's default
                        extras = ({'_implicit_safe': False}, {'_implicit_allow_new' if flag == 'delete' else '_implicit_delete': True})
                    for extra in extras:
                        gc = node_obj('grandchild', 'ConfigNode', **{'_implicit_' + flag: c})
                        child = node_obj('child', 'ConfigDict', _children={'g': gc}, **{'_implicit_' + flag: c})
                        me = node_obj('node', 'ConfigDict', _children={'k': child}, **dict(extra, **{'_' + flag: e, '_implicit_' + flag: i}))
                        ev_ = FDE(repo)
                        r = fde_guard(lambda: ev_.call(fi, me))
                        rows += 1
                        want = i if e is None else c
                        got = child.f.get('_implicit_' + flag)
                        # (the evaluator records the recursive call instead of unfolding it: the change travels down when the child is re-propagated)
                        went_down = any(x[0] == 'call' and x[1] == '_propagate_implicit_values' and x[2] is child for x in ev_.effects)
                        got_g = want if went_down or got is c else gc.f.get('_implicit_' + flag)
                        what = 'a node with explicit %s=%r that inherited %r, child recorded %r' % (flag, e, i, c)
                        if r.raised:
                            bad.append('%s: raises %s' % (what, r.raised))
                        elif got is not want:
                            bad.append('%s: afterwards the child records %r as inherited, expected %r%s' % (what, got, want, ' (the explicit flag of the node is what its children inherit)' if e is not None else ''))
                        elif e is None and got_g is not want:
                            bad.append('%s: the child is updated but not re-propagated: its own children keep %r' % (what, got_g))
    run.table(rule, rows, 'explicit flag x inherited value x child record, for %s' % ' / '.join(flags))
    if bad:
        run.violation(rule, fi, 'propagation table', bad[0] + (' [%d rows]' % len(bad) if len(bad) > 1 else ''), witness=bad[:4])
    else:
        run.ok(rule, fi, 'propagation of inherited %s (%d rows)' % (' / '.join(flags), rows), 'only a node without an explicit flag passes its inherited value on')


def fstr_wrap_table(repo, run, rule):
    """what the !fstr constructor makes of the tagged text, evaluated (the node type it hands to _make_node is applied to texts; the
    FStrNode constructor's own validation decides whether a text is accepted as it is): a text that already is an f-string literal
    is taken verbatim; any other text becomes a Python f-string literal whose constant parts are exactly that text - for every text
    without backslashes, with or without apostrophes, double quotes and replacement fields (the result is parsed with the stdlib
    parser, not executed)"""
    fi = repo.func('yaml._fstr_constructor')
    init = repo.func('FStrNode.__init__')
    cap = []

    def stub(n, recv, a, k):
        if n == '_make_node':
            cap.append((k.get('node_type'), k.get('parse_scalars')))
            return 'NODE'
        return None

    def mk(value, *a, **k):
        f2 = FDE(repo, stubs={'__init__'}, stub=lambda *x: None)
        r_ = f2.call(init, node_obj('fs', 'FStrNode'), value)
        if r_.raised:
            raise Raised(r_.raised)
        return ('FSTR', value)
    f = FDE(repo, stubs={'_make_node'}, stub=stub)
    f.constructors = {'FStrNode': mk}
    r = fde_guard(lambda: f.call(fi, Obj('loader', 'AwesomeyamlLoader'), Obj('ynode', 'yaml.Node')))
    if r.raised or len(cap) != 1 or cap[0][0] is None:
        raise AnalysisError('%s: the node type the !fstr constructor hands to _make_node was not found' % rule)
    bad = []
    rows = 0
    if cap[0][1] is not False:
        bad.append('the tagged text is parsed as a YAML scalar first (parse_scalars=%r): `!fstr 1e3` would not reach the node as text' % (cap[0][1],))
    for text, fields in (('plain', 0), ("it's {x}", 1), ('say "hi"', 0), ("'", 0), ("a'b'c {n} d'", 1), ("{a}'{b}", 2), ("f'x {y}'", 1), ('f"z\'s"', 0), ('', 0), ('f', 0), ("f'", 0)):
        rows += 1
        try:
            v = fde_guard(lambda: f._apply(cap[0][0], [text], {}, None))
        except Raised as ex:
            bad.append('!fstr %r: %s' % (text, ex.exc))
            continue
        if not (isinstance(v, tuple) and len(v) == 2 and v[0] == 'FSTR' and isinstance(v[1], str)):
            raise AnalysisError('%s: result of the !fstr node type not recognised (%r)' % (rule, v))
        src = v[1]
        literal = len(text) >= 3 and text[0] == 'f' and text[1] in '"\'' and text[1] == text[-1]
        if literal:
            if src != text:
                bad.append('!fstr %r is already an f-string literal but is rewritten to %r' % (text, src))
            continue
        try:
            tree = ast.parse(src, mode='eval').body
        except SyntaxError:
            bad.append('!fstr %r becomes the source %s, which is not valid Python (the node fails with a SyntaxError when evaluated)' % (text, src))
            continue
        parts = tree.values if isinstance(tree, ast.JoinedStr) else [tree]
        const = ''.join(p_.value for p_ in parts if isinstance(p_, ast.Constant) and isinstance(p_.value, str))
        nf = sum(isinstance(p_, ast.FormattedValue) for p_ in parts)
        want_const = text
        import re as _re
        want_const = _re.sub(r'\{[^{}]*\}', '', text)
        if not isinstance(tree, (ast.JoinedStr, ast.Constant)) or const != want_const or nf != fields:
            bad.append('!fstr %r becomes %s: an f-string with the constant text %r and %d field(s), expected the text %r and %d field(s)' % (text, src, const, nf, want_const, fields))
    run.table(rule, rows, '!fstr texts (apostrophes, double quotes, fields, already literal)')
    if bad:
        run.violation(rule, fi, '!fstr text wrapping', bad[0] + (' [%d rows]' % len(bad) if len(bad) > 1 else ''), witness=bad[:4])
    else:
        run.ok(rule, fi, '!fstr text wrapping (%d rows)' % rows, 'f-string literals verbatim, other texts quoted with their apostrophes escaped')


def unquoted_scope_table(repo, run, rule):
    """AwesomeyamlDumper.serialize_node evaluated over (the node is one to be written unquoted or not) x (the dumper's unquoted mode
    before) x (PyYAML's serializer returns / raises): the unquoted mode is on while such a node is serialized, unchanged for any
    other node, and afterwards it is what it was before - also when the mode was off (False) and when serialization raises: a mode
    left on writes every later string in plain style, which changes how it parses"""
    fi = repo.func('AwesomeyamlDumper.serialize_node')
    bad = []
    rows = 0
    for special in (True, False):
        for before in (False, True):
            for outcome in ('returns', 'raises'):
                me = Obj('dumper', 'AwesomeyamlDumper', _unquoted=before)
                node = Obj('ynode', 'UnquotedNode' if special else 'yaml.ScalarNode')
                seen = []

                def stub(n, recv, a, k, me=me, seen=seen, outcome=outcome):
                    seen.append(me.f.get('_unquoted'))
                    if outcome == 'raises':
                        raise Raised('EmitterError')
                    return 'RET'
                f = FDE(repo, stubs={'serialize_node'}, stub=stub)
                r = fde_guard(lambda: f.call(fi, me, node, None, None))
                rows += 1
                what = 'serializing %s node with the unquoted mode %s before (PyYAML %s)' % ('an unquoted' if special else 'an ordinary', 'on' if before else 'off', outcome)
                if len(seen) != 1:
                    bad.append('%s: PyYAML\'s serializer is called %d times' % (what, len(seen)))
                elif seen[0] is not (True if special else before):
                    bad.append('%s: the mode is %r while the node is serialized' % (what, seen[0]))
                elif me.f.get('_unquoted') is not before:
                    bad.append('%s: afterwards the mode is %r, it was %r' % (what, me.f.get('_unquoted'), before))
                elif outcome == 'returns' and (r.raised or r.ret != 'RET'):
                    bad.append('%s: %s' % (what, 'raises ' + str(r.raised) if r.raised else 'the result of the serializer is not handed back'))
                elif outcome == 'raises' and r.raised != 'EmitterError':
                    bad.append('%s: the error does not reach the caller' % what)
    run.table(rule, rows, 'node kind x mode before x outcome')
    if bad:
        run.violation(rule, fi, 'unquoted mode scope', bad[0] + (' [%d rows]' % len(bad) if len(bad) > 1 else ''), witness=bad[:4])
    else:
        run.ok(rule, fi, 'unquoted mode scope (%d rows)' % rows, 'on exactly while an unquoted node is serialized; restored afterwards, also from off and on errors')


def adoption_order_table(repo, run, rule):
    """the metaclass branch that adopts an already built node as a child - ConfigNode(<node>, priority=..., implicit_...=...) -
    evaluated with the two propagation methods as recording stand-ins: every inherited field handed over is stored on the node
    BEFORE the corresponding propagation runs (what is pushed to the descendants is the new value, not the one the node had), a
    propagation runs exactly when its field was handed over, and the node itself is returned"""
    mc = repo.func('ConfigNodeMeta.__call__')
    bad = []
    rows = 0
    for kw in ({'priority': 1}, {'priority': -1, 'implicit_delete': True}, {'implicit_allow_new': False}, {'implicit_delete': False, 'implicit_allow_new': True, 'priority': 1}, {}):
        value = node_obj('value', 'ConfigDict', _children={'c': node_obj('c')}, _priority=None)
        seen = []

        def stub(n, recv, a, k, value=value, seen=seen):
            seen.append((n, {f_: value.f.get(f_) for f_ in ('_priority', '_implicit_delete', '_implicit_allow_new')}))
            return None
        f = FDE(repo, stubs={'_propagate_priority', '_propagate_implicit_values'}, stub=stub)
        r = fde_guard(lambda: f.call(mc, ('class', 'ConfigNode'), value, **kw))
        rows += 1
        what = 'adopting a built node with %s' % (', '.join('%s=%r' % x for x in kw.items()) or 'no inherited fields')
        if r.raised or r.ret is not value:
            bad.append('%s: %s' % (what, 'raises ' + str(r.raised) if r.raised else 'another object is returned'))
            continue
        names = [x[0] for x in seen]
        want_names = (['_propagate_priority'] if 'priority' in kw else []) + (['_propagate_implicit_values'] if any(k.startswith('implicit_') for k in kw) else [])
        if sorted(names) != sorted(want_names):
            bad.append('%s: propagations run: %s, expected %s' % (what, names, want_names))
            continue
        for n_, snap in seen:
            for k_, v_ in kw.items():
                if snap.get('_' + k_) is not v_:
                    bad.append('%s: %s runs while the node still has %s=%r - the descendants receive the old value, only the node itself gets %r' % (what, n_, k_, snap.get('_' + k_), v_))
                    break
    run.table(rule, rows, 'inherited fields handed over on adoption')
    if bad:
        run.violation(rule, mc, 'adoption of an already built child: order of store and propagation', bad[0] + (' [%d rows]' % len(bad) if len(bad) > 1 else ''), witness=bad[:4])
    else:
        run.ok(rule, mc, 'adoption order (%d rows)' % rows, 'fields stored first, then pushed down; propagation exactly for the fields handed over')


def adoption_keeps_own_priority(repo, run, rule):
    """ComposedNode.ayns.set_child evaluated down to the metaclass branch that adopts an already built node (the two propagation
    methods are recording stand-ins): merging attaches the nodes of later stages through set_child, so an already built node must
    come out with the priority it was written with - whatever explicit priority the receiving container carries - and its
    descendants are not re-stamped"""
    fi = repo.func('ComposedNode.ayns.set_child')
    mc = repo.func('ConfigNodeMeta.__call__')
    bad = []
    rows = 0
    for cp in (None, 1, -1):
        for vp in (None, 1, -1):
            if cp is None and vp is None and rows:
                continue
            me = node_obj('cont', 'ConfigDict', _children={}, _priority=cp, _default_delete=False, _default_allow_new=True)
            value = node_obj('value', 'ConfigDict', _children={'c': node_obj('c')}, _priority=vp)
            pushed = []

            def ctor(*a, **k):
                # (the evaluator hands constructor arguments over by position; the metaclass looks at them by name)
                names = repo.resolve('ConfigNode', '__init__').params()[1:]
                k = dict(k, **dict(zip(names[1:], a[1:])))
                a = a[:1]
                f2 = FDE(repo, stubs={'_propagate_priority', '_propagate_implicit_values'}, stub=lambda n, recv, a_, k_: pushed.append(n) if recv is value else None)
                r2 = f2.call(mc, ('class', 'ConfigNode'), *a, **k)
                if r2.raised:
                    raise Raised(r2.raised)
                return r2.ret
            f = FDE(repo, stubs={'_propagate_priority', '_propagate_implicit_values'}, stub=lambda n, recv, a_, k_: None, max_depth=8)
            f.constructors = {'ConfigNode': ctor}
            r = fde_guard(lambda: f.call(fi, me, 'k', value))
            rows += 1
            what = 'a node written with priority %r attached to a container with explicit priority %r' % (vp, cp)
            if r.raised:
                bad.append('%s: raises %s' % (what, r.raised))
            elif me.f['_children'].get('k') is not value:
                raise AnalysisError('%s: %s: the attached node was not found in the child map' % (rule, what))
            elif value.f.get('_priority') != vp:
                bad.append('%s comes out with priority %r: it no longer wins / loses against later stages as written' % (what, value.f.get('_priority')))
            elif '_propagate_priority' in pushed:
                bad.append('%s: the priority is pushed down to its descendants again' % what)
    run.table(rule, rows, 'container priority x priority of the attached node')
    if bad:
        run.violation(rule, fi, 'priority of an attached node', bad[0] + (' [%d rows]' % len(bad) if len(bad) > 1 else ''), witness=bad[:4])
    else:
        run.ok(rule, fi, 'attached nodes keep their own priority (%d rows)' % rows)


def child_lookup_exact(repo, run, rule):
    """ComposedNode.ayns.get_child / has_child evaluated on a mapping node with the children {0, '1', 'k'}: a child is found under exactly
    the key it was stored with - 0 and '0', 1 and '1', 'k' and 'K' are different keys (YAML mappings may hold both spellings; merging
    decides through these two accessors whether a key of the newer document already exists)"""
    bad = []
    rows = 0
    A, B, C = node_obj('A'), node_obj('B'), node_obj('C')
    D = Opaque('DEFAULT')
    for q in ('ComposedNode.ayns.get_child', 'ComposedNode.ayns.has_child'):
        fi = repo.func(q)
        for name, want in ((0, A), ('0', None), ('1', B), (1, None), ('k', C), ('K', None), ('01', None), (' k', None), (2, None), ('', None)):
            me = node_obj('map', 'ConfigDict', _children={0: A, '1': B, 'k': C})
            f = FDE(repo, max_depth=6)
            if q.endswith('get_child'):
                r = fde_guard(lambda: f.call(fi, me, name, D))
                exp = want if want is not None else D
            else:
                r = fde_guard(lambda: f.call(fi, me, name))
                exp = want is not None
            rows += 1
            if r.raised:
                bad.append('%s(%r) on children {0, \'1\', \'k\'} raises %s' % (q.split('.')[-1], name, r.raised))
            elif r.ret is not exp and r.ret != exp:
                bad.append('%s(%r) on a mapping with the children {0, \'1\', \'k\'} gives %r, expected %r: keys of different type / spelling are different keys' % (q.split('.')[-1], name, r.ret, exp))
    # the same through the path API: get_node([name]) finds exactly that key, any other spelling is a missing path (KeyError)
    from ..fde import PathVal
    gn = repo.func('ComposedNode.ayns.get_node')

    def pv(x):
        if isinstance(x, PathVal):
            return x
        return PathVal(list(x) if x is not None else [], '.'.join(map(str, x or [])))
    for name, want in ((0, A), ('0', None), ('1', B), (1, None), ('k', C), ('K', None)):
        me = node_obj('map', 'ConfigDict', _children={0: A, '1': B, 'k': C})
        f = FDE(repo, stubs={'get_list_path'}, stub=lambda n_, recv, a, k: pv(a[0] if a else None), max_depth=8)
        f.constructors = {'NodePath': lambda *a, **k: pv(a[0] if a else None)}
        try:
            r = f.call(gn, me, pv([name]))
        except Unsupported as e:
            raise AnalysisError('%s: get_node on a concrete mapping not evaluable: %s' % (rule, e))
        rows += 1
        if want is not None and (r.raised or r.ret is not want):
            bad.append('get_node([%r]) on a mapping with the children {0, \'1\', \'k\'} gives %s, expected the child stored under that key' % (name, r.raised or r.ret))
        elif want is None and r.raised != 'KeyError':
            bad.append('get_node([%r]) on a mapping with the children {0, \'1\', \'k\'} gives %s, expected KeyError: a path component of another type / spelling addresses another key (merging prunes and compares entries through this lookup)' % (name, r.raised or r.ret))
    run.table(rule, rows, 'get_child / has_child / get_node over stored and similar-looking keys')
    if bad:
        run.violation(rule, repo.func('ComposedNode.ayns.get_child'), 'child lookup by exact key', bad[0] + (' [%d rows]' % len(bad) if len(bad) > 1 else ''), witness=bad[:4])
    else:
        run.ok(rule, repo.func('ComposedNode.ayns.get_child'), 'children are found under exactly the key they were stored with (%d rows)' % rows)


def promotion_keeps_safety(repo, run, rule):
    """ConfigNode._maybe_promote evaluated for a plain container that won the merge over a !call / !bind node (which is then promoted to
    stand for it): the promoted node carries the safety state the merge has just combined on the winner - explicit, inherited and
    source-level - so an unsafe stage that empties a safe call (`f: !del {}`) leaves a call that is refused, not a safe one"""
    fi = repo.func('ConfigNode._maybe_promote')
    bad = []
    rows = 0
    for wcls, pcls in (('ConfigDict', 'BindNode'), ('ConfigDict', 'CallNode'), ('ConfigList', 'CallNode')):
        if wcls not in repo.classes or pcls not in repo.classes:
            continue
        for field in ('_default_safe', '_safe', '_implicit_safe'):
            winner = node_obj('winner', wcls, _children={}, **{'_default_safe': True, field: False})
            loser = node_obj('promoted', pcls, _children={}, _default_safe=True, _func='f')
            f = FDE(repo, stubs={'clear', 'update', 'extend', 'values'}, stub=lambda n, recv, a, k: [] if n == 'values' else None, max_depth=6)
            r = fde_guard(lambda: f.call(fi, winner, loser))
            rows += 1
            if r.raised:
                raise AnalysisError('%s: _maybe_promote(%s <- %s) not evaluable (%s)' % (rule, wcls, pcls, r.raised))
            if r.ret is loser and loser.f.get(field) is not False:
                bad.append('a %s that won the merge with %s=False is replaced by the promoted %s, which comes out with %s=%r: the unsafe origin of the merged result is forgotten and the call is evaluated without the safety check refusing it' % (wcls, field, pcls, field, loser.f.get(field)))
            elif r.ret is not loser and r.ret is not winner:
                raise AnalysisError('%s: _maybe_promote returned neither operand' % rule)
    if not rows:
        raise AnalysisError('%s: node classes not found' % rule)
    run.table(rule, rows, 'promotion over winner kind x promoted kind x unsafe flag')
    if bad:
        run.violation(rule, fi, 'safety state of a promoted node', bad[0] + (' [%d rows]' % len(bad) if len(bad) > 1 else ''), witness=bad[:4])
    else:
        run.ok(rule, fi, 'a promoted node carries the winner\'s safety flags (%d rows)' % rows)


def plain_container_table(repo, run, rule):
    """ConfigDict / ConfigList.ayns.on_evaluate_impl evaluated on a node with two (three) children, the context as a recording stand-in:
    every child is evaluated exactly once through ctx.evaluate_node, in child-map order, under the path of the container extended by
    its name (mapping keys are evaluated too, right before their value, without a path); the result pairs evaluated keys with evaluated
    values (a Bunch) / lists the evaluated values - whatever the shape of the code (comprehension, loop, generator helper)"""
    bad = []
    rows = 0
    for q, cls in (('ConfigDict.ayns.on_evaluate_impl', 'ConfigDict'), ('ConfigList.ayns.on_evaluate_impl', 'ConfigList')):
        fi = repo.func(q)
        for n in (0, 2, 3):
            nodes = [node_obj('N%d' % i) for i in range(n)]
            from ..fde import NodeInt
            # (mapping keys are nodes whatever their type: the last key of the 3-children mapping is an integer scalar node)
            names = (['k%d' % i for i in range(n)] if n < 3 else ['k0', 'k1', NodeInt(7)]) if cls == 'ConfigDict' else list(range(n))
            me = node_obj('me', cls, _children=dict(zip(names, nodes)))
            log = []

            from ..fde import PathVal

            def pv(x):
                if isinstance(x, PathVal):
                    return x
                return PathVal(list(x) if x is not None else [], '.'.join(map(str, x or [])))

            def stub(name, recv, a, k, log=log):
                if name == 'evaluate_node':
                    log.append((a[0], list(a[1]) if len(a) > 1 and a[1] is not None else None))
                    return ('EV', getattr(a[0], 'name', a[0]))
                if name == 'get_list_path':
                    return pv(a[0] if a else None)
                raise Unsupported('call of ' + name)
            f = FDE(repo, stubs={'evaluate_node', 'get_list_path'}, stub=stub, max_depth=10)
            f.constructors = {'Bunch': lambda *a, **k: ('Bunch', list(a[0].items()) if a and isinstance(a[0], dict) else (list(a[0]) if a else [])),
                              'NodePath': lambda *a, **k: pv(a[0] if a else None)}
            r = fde_guard(lambda: f.call(fi, me, pv(['p']), Obj('ctx', 'EvalContext')))
            rows += 1
            what = '%s with %d children' % (q.split('.')[0], n)
            if r.raised:
                bad.append('%s: raises %s' % (what, r.raised))
                continue
            want_log, want_ret = [], []
            for nm, nd in zip(names, nodes):
                if cls == 'ConfigDict':
                    want_log.append((nm, None))
                want_log.append((nd, ['p', nm]))
                want_ret.append((('EV', getattr(nm, 'name', nm)), ('EV', nd.name)) if cls == 'ConfigDict' else ('EV', nd.name))
            got_ret = r.ret[1] if isinstance(r.ret, tuple) and r.ret and r.ret[0] == 'Bunch' else r.ret
            if [(x[0] if not isinstance(x[0], Obj) else x[0].name, x[1]) for x in log] != [(x[0] if not isinstance(x[0], Obj) else x[0].name, x[1]) for x in want_log]:
                bad.append('%s: evaluates %s, expected %s (every child once, in order, under the container\'s path + its name)' % (what, [(getattr(x[0], 'name', x[0]), x[1]) for x in log], [(getattr(x[0], 'name', x[0]), x[1]) for x in want_log]))
            elif (cls == 'ConfigDict' and not (isinstance(r.ret, tuple) and r.ret and r.ret[0] == 'Bunch')) or list(got_ret if isinstance(got_ret, (list, tuple)) else []) != want_ret:
                bad.append('%s: the result is %r, expected %s of %s' % (what, r.ret, 'a Bunch' if cls == 'ConfigDict' else 'the list', want_ret))
    run.table(rule, rows, 'plain containers x number of children')
    if bad:
        run.violation(rule, repo.func('ConfigDict.ayns.on_evaluate_impl'), 'evaluation of plain containers', bad[0] + (' [%d rows]' % len(bad) if len(bad) > 1 else ''), witness=bad[:4])
    else:
        run.ok(rule, repo.func('ConfigDict.ayns.on_evaluate_impl'), 'plain containers evaluate every child once, in order, through the context (%d rows)' % rows)


def add_multiple_sources_table(repo, run, rule):
    """Builder.add_multiple_sources evaluated (add_source is a recording stand-in): source i is added with the i-th raw_yaml /
    filename / safe value when a sequence is given and with the single value when a scalar is given (a string counts as a scalar);
    sources are added in order; a sequence of the wrong length is a ValueError"""
    fi = repo.func('Builder.add_multiple_sources')
    bad = []
    rows = 0
    for safe in (None, False, True, [True, False], [False, None]):
        for raw in (None, [True, False]):
            for fname in (None, 'one.yaml', ['a.yaml', None]):
                log = []

                def stub(n, recv, a, k, log=log):
                    log.append((a[0] if a else k.get('source'), k.get('raw_yaml', a[1] if len(a) > 1 else None), k.get('filename', a[2] if len(a) > 2 else None), k.get('safe', a[3] if len(a) > 3 else None)))
                    return None
                f = FDE(repo, stubs={'add_source'}, stub=stub)
                r = fde_guard(lambda: f.call(fi, Obj('builder', 'Builder'), 'S0', 'S1', raw_yaml=raw, filename=fname, safe=safe))
                rows += 1

                def at(v, i):
                    return v[i] if isinstance(v, list) else v
                want = [('S%d' % i, at(raw, i), at(fname, i), at(safe, i)) for i in (0, 1)]
                if r.raised or log != want:
                    bad.append('add_multiple_sources(S0, S1, raw_yaml=%r, filename=%r, safe=%r): %s, expected %s' % (raw, fname, safe, 'raises ' + str(r.raised) if r.raised else 'adds %s' % log, want))
    f = FDE(repo, stubs={'add_source'}, stub=lambda *a: None)
    r = fde_guard(lambda: f.call(fi, Obj('builder', 'Builder'), 'S0', 'S1', safe=[True, False, True]))
    rows += 1
    if r.raised != 'ValueError':
        bad.append('three safe flags for two sources: %s, expected ValueError' % (r.raised or 'accepted'))
    run.table(rule, rows, 'add_multiple_sources over scalar / per-source raw_yaml, filename, safe')
    if bad:
        run.violation(rule, fi, 'per-source arguments', bad[0] + (' [%d rows]' % len(bad) if len(bad) > 1 else '') + ': a source declared unsafe must be parsed under its own flag', witness=bad[:4])
    else:
        run.ok(rule, fi, 'per-source arguments (%d rows)' % rows, 'scalars broadcast, sequences applied element-wise, in order')


def storage_receives_node(repo, run, rule):
    """the mutators that add an entry to a container node, evaluated (ComposedNode.ayns.set_child is a stand-in that answers with
    the wrapped node): what is put into the built-in list / dict storage is that very node - not the raw value the caller handed
    in - under the same index / key the child map was given"""
    bad = []
    n = 0
    for q, args, op in (('ConfigList.insert', (1, 'RAW'), 'list.insert'), ('ConfigList.append', ('RAW',), 'list.append'), ('ConfigList._set', (1, 'RAW'), 'list.__setitem__'),
                        ('ConfigDict._set', ('k', 'RAW'), 'dict.__setitem__')):
        if not repo.has_func(q):
            continue
        fi = repo.func(q)
        W = Obj('WRAPPED', 'ConfigScalar')
        keys = []

        def stub(name, recv, a, k, keys=keys, W=W):
            if name == 'set_child':
                keys.append(a[-2] if len(a) >= 2 else None)
                return W
            if name == '_validate_index':
                return a[0]
            return None
        f = FDE(repo, stubs={'set_child', '_validate_index', 'remove_child'}, stub=stub)
        f.extcalls = {'dir': lambda *a: []}
        me = node_obj('cont', q.split('.')[0], _children={0: node_obj('a'), 1: node_obj('b')} if 'List' in q else {'x': node_obj('a')})
        try:
            r = f.call(fi, me, *args)
            raised = r.raised
        except Unsupported:
            raised = None       # (the rebuild of the child map from the built-in storage is beyond the evaluator; the stores before it are recorded)
        stores = [e for e in f.effects if e[0] == 'call' and e[1] in ('list.insert', 'list.append', 'list.__setitem__', 'dict.__setitem__') and e[2] is me]
        n += 1
        what = '%s(%s)' % (q, ', '.join(map(repr, args)))
        if raised:
            bad.append('%s raises %s' % (what, raised))
        elif len(stores) != 1 or len(keys) != 1:
            raise AnalysisError('%s: %s: store into the built-in storage / child map not recognised (%d / %d)' % (rule, what, len(stores), len(keys)))
        elif stores[0][3][-1] is not W:
            bad.append('%s puts %r into the built-in %s storage while the child map holds the wrapped node: the two views no longer hold the same objects (entries that are not nodes)' % (what, stores[0][3][-1], 'list' if 'List' in q else 'dict'))
        elif len(stores[0][3]) == 2 and stores[0][3][0] != keys[0]:
            bad.append('%s stores under %r in the built-in storage and under %r in the child map' % (what, stores[0][3][0], keys[0]))
    if n < 3:
        raise AnalysisError('%s: container mutators not found' % rule)
    if bad:
        run.violation(rule, repo.func('ConfigList.insert') if repo.has_func('ConfigList.insert') else fi, 'what the built-in storage receives', '; '.join(bad[:2]))
    else:
        run.ok(rule, fi, 'insert / append / _set: the built-in storage receives the node the child map holds, under the same key (%d mutators)' % n)


def eval_namespace_views(repo, run, rule):
    """what the code of an !eval node is given to look at the config through: the `ayns` entry of a fresh namespace is built from the
    evaluating context and its EVALUATED view of the config (ctx.ecfg - values, never raw nodes), and the globals wrapper resolves
    names against the same view with the same context"""
    fi = repo.func('EvalNode.ayns.on_evaluate_impl')
    ctxp = fi.params()[2] if len(fi.params()) > 2 else 'ctx'
    bunches, wrappers = set(), set()
    for p in tr.paths_of(repo, fi, follow_exceptions=False, no_inline={'_patch_access_to_globals', '_require_safe', 'get_eval_symbols', 'evaluate_node'}):
        for e in p.events:
            if e.kind == 'call' and e.callee == 'Bunch' and e.args and e.args[0].items is not None:
                items = {k.const if k.const is not None else k.text: v.text for k, v in e.args[0].items}
                if 'cfg' in items or 'ctx' in items:
                    bunches.add((items.get('ctx'), items.get('cfg')))
            if e.kind == 'call' and e.callee == 'GlobalsWrapper' and len(e.args) >= 3:
                wrappers.add((e.args[1].text, e.args[2].text))
    if not bunches or not wrappers:
        raise AnalysisError('%s: the `ayns` entry / the globals wrapper of the evaluated code were not found' % rule)
    bad = []
    for c, g in sorted(bunches, key=str):
        if c != ctxp or g != ctxp + '.ecfg':
            bad.append('the code is given ayns.ctx = %s, ayns.cfg = %s; expected the evaluating context and its evaluated view %s.ecfg (through the raw tree, containers built from config values carry node objects into the result)' % (c, g, ctxp))
    for g, c in sorted(wrappers):
        if c != ctxp or g != ctxp + '.ecfg':
            bad.append('the globals wrapper resolves config names against %s with context %s; expected %s.ecfg and %s' % (g, c, ctxp, ctxp))
    if bad:
        run.violation(rule, fi, 'views handed to evaluated code', '; '.join(bad[:2]))
    else:
        run.ok(rule, fi, 'evaluated code sees the config through ctx.ecfg (ayns.cfg and the globals wrapper), with the evaluating context')


def deepcopy_keeps_inherited_flags(repo, run, rule):
    """a deep copy of a container node, evaluated for a list node and a mapping node whose child recorded an inherited delete flag
    that differs from what the container's *current* explicit flag would hand down (the state of a tree after a merge changed the
    container's flags): the copy of the child keeps what the original recorded, and the copy of the container has the original's
    state. Evaluated through ComposedNode.__deepcopy__ when the class has one, otherwise through the protocol copy.deepcopy applies to
    __reduce__: rebuild, restore the state, then re-attach the items through append / item assignment."""
    bad = []
    rows = 0
    for cls in ('ConfigList', 'ConfigDict'):
        for stale in (True, False):
            child = node_obj('child', 'ConfigList', _children={}, _implicit_delete=stale)
            key = 0 if cls == 'ConfigList' else 'k'
            me = node_obj('orig', cls, _children={key: child}, _delete=(not stale), _fde_storage=True)
            copies = {}

            def dc(x, memo=None, copies=copies):
                if isinstance(x, Obj):
                    if id(x) not in copies:
                        c = Obj(x.name + '-copy', x.cls)
                        c.f = dict(x.f)
                        c.missing = set(x.missing)
                        copies[id(x)] = c
                    return copies[id(x)]
                return dict(x) if isinstance(x, dict) else x
            new = Obj('new', cls, _children={}, _fde_storage=True)
            new.missing = set(k for k in node_obj('x', cls).f if k != '_children')
            f = FDE(repo, stubs={'_recreate'}, stub=lambda n, r_, a, k, new=new: new)
            f.extcalls = {'copy.deepcopy': dc, 'deepcopy': dc, 'dir': lambda *a: []}
            t = repo.resolve(cls, '__deepcopy__')
            rows += 1

            def go():
                if t is not None:
                    return f.call(t, me, {})
                # the generic protocol: y = _recreate(cls); y.__setstate__(deepcopy(state)); then y.append(item) / y[key] = value
                st = f.call(repo.resolve(cls, '__getstate__'), me)
                if st.raised:
                    return st
                r1 = f.call(repo.resolve(cls, '__setstate__'), new, dc(st.ret))
                if r1.raised:
                    return r1
                if cls == 'ConfigList':
                    r2 = f.call(repo.resolve(cls, 'append'), new, dc(child))
                else:
                    r2 = f.call(repo.resolve(cls, '__setitem__'), new, key, dc(child))
                r2.ret = new
                return r2
            r = fde_guard(go)
            how = 'ComposedNode.__deepcopy__' if t is not None else 'the __reduce__ protocol of copy.deepcopy (state restored, then children re-attached)'
            what = 'deep copy of a %s with explicit delete=%r whose child recorded inherited delete=%r, through %s' % ('list node' if cls == 'ConfigList' else 'mapping node', not stale, stale, how)
            if r.raised or r.ret is not new:
                bad.append('%s: %s' % (what, 'raises ' + str(r.raised) if r.raised else 'does not return the rebuilt object'))
                continue
            cc = copies.get(id(child))
            if cc is None or new.f.get('_children', {}).get(key) is not cc:
                bad.append('%s: the copy does not hold the copy of the child' % what)
            elif cc.f.get('_implicit_delete') is not stale:
                bad.append('%s: the copy of the child records inherited delete=%r - re-derived from the container\'s current flags instead of copied: the copy merges differently from the original when it is used as a later stage' % (what, cc.f.get('_implicit_delete')))
            elif new.f.get('_delete') is not (not stale) or '_delete' in new.missing:
                bad.append('%s: the state of the container is not restored on the copy' % what)
    run.table(rule, rows, 'container kind x stale inherited flag of the child')
    if bad:
        run.violation(rule, repo.func('ComposedNode.__reduce__'), 'deep copy of a merged tree', bad[0] + (' [%d rows]' % len(bad) if len(bad) > 1 else ''), witness=bad[:4])
    else:
        run.ok(rule, repo.func('ComposedNode.__reduce__'), 'deep copy keeps what the children recorded (%d rows)' % rows, 'children attached before the state is restored / flags copied, not re-derived')


def replace_self_propagates_result(repo, run, rule):
    """ConfigNode._replace_self evaluated (promotion and propagation are recording stand-ins), with and without promotions: the node
    whose inherited flags are pushed down to its children afterwards is the node that is returned - the survivor of the merge that
    stays in the tree - and only that one (the consumed node's child map may still list nodes that now live in the survivor)"""
    fi = repo.func('ConfigNode._replace_self')
    bad = []
    for promo, promoted in ((False, None), (True, 'self'), (True, 'other')):
        me = node_obj('self', 'ConfigDict', _children={}, _metadata={})
        other = node_obj('other', 'ConfigDict', _children={}, _metadata={}, _priority=1, _delete=True)
        log = []

        def stub(n, recv, a, k, log=log, me=me, other=other, promoted=promoted):
            log.append((n, getattr(recv, 'name', recv)))
            if n == '_maybe_promote':
                return me if promoted == 'self' else other
            return None
        f = FDE(repo, stubs={'_maybe_promote', '_propagate_implicit_values'}, stub=stub)
        r = fde_guard(lambda: f.call(fi, me, other, allow_promotions=promo))
        want = me if promoted in (None, 'self') else other
        what = '_replace_self(other, allow_promotions=%r)%s' % (promo, '' if promoted is None else ' where promotion answers %s' % promoted)
        props = [x[1] for x in log if x[0] == '_propagate_implicit_values']
        if r.raised or r.ret is not want:
            bad.append('%s: %s' % (what, 'raises ' + str(r.raised) if r.raised else 'returns %r' % (r.ret,)))
        elif props != [want.name]:
            bad.append('%s: inherited flags are re-propagated on %s, expected on the returned node (%s) only' % (what, props or 'no node', want.name))
        elif me.f.get('_priority') != 1 or me.f.get('_delete') is not True:
            bad.append('%s: the winner\'s priority / delete flag are not adopted' % what)
    if bad:
        run.violation(rule, fi, '_replace_self: which node is re-propagated', '; '.join(bad[:2]))
    else:
        run.ok(rule, fi, '_replace_self re-propagates inherited flags on the node it returns (3 rows)')


def map_nodes_memo(repo, run, rule):
    """ComposedNode.ayns.map_nodes evaluated on a container that holds the SAME child node under two names (a YAML alias) next to another
    child: the mapping function - the step that pre-processes / transforms a node - runs once per node object, both names receive the
    one result, and with cache_results=False it runs once per name"""
    mn = repo.func('ComposedNode.ayns.map_nodes')
    bad = []
    for cached in (True, False):
        shared = node_obj('shared', 'ConfigNode')
        other = node_obj('single', 'ConfigNode')
        # d / e: two different scalar nodes that hold equal values (`d: !force 1`, `e: 1`) - different nodes, each processed on its own
        eq1 = node_obj('eq1', 'ConfigScalar', _fde_payload=1, _priority=1)
        eq2 = node_obj('eq2', 'ConfigScalar', _fde_payload=1)
        me = node_obj('cont', 'ConfigDict', _children={'a': shared, 'b': other, 'c': shared, 'd': eq1, 'e': eq2})
        log = []

        def mapper(path, child, log=log):
            log.append(('map', child.name))
            return node_obj('new_%s_%d' % (child.name, len(log)), 'ConfigNode')
        mapper._fde_ok = True

        def stub(name, recv, args, kwargs, log=log, me=me):
            if name == 'named_children':
                return list(me.f['_children'].items())
            if name == 'get_list_path':
                return ['root']
            if name == 'persistent_id':
                return id(args[0]) if args else id(recv)
            if name == 'set_child':
                log.append(('set', args[0], getattr(args[1], 'name', args[1])))
                return args[1]
            return recv
        f = FDE(repo, stubs={'named_children', 'set_child', 'get_list_path', 'persistent_id'}, stub=stub)
        r = fde_guard(lambda: f.call(mn, me, mapper, cache_results=cached))
        maps = [x[1] for x in log if x[0] == 'map']
        sets = {x[1]: x[2] for x in log if x[0] == 'set'}
        what = 'map_nodes(cache_results=%r) over {a: X, b: Y, c: X}' % cached
        if r.raised:
            bad.append('%s raises %s' % (what, r.raised))
        elif cached and (maps.count('shared') != 1 or maps.count('single') != 1):
            bad.append('%s: the node held under two names is processed %d times (the memo is filled under another key than the one it is looked up by)' % (what, maps.count('shared')))
        elif cached and (sets.get('a') is None or sets.get('a') != sets.get('c')):
            bad.append('%s: the two names of one node receive different results (%s / %s)' % (what, sets.get('a'), sets.get('c')))
        elif maps.count('eq1') != 1 or maps.count('eq2') != 1 or sets.get('d') is None or sets.get('d') == sets.get('e'):
            bad.append('%s with d / e two different scalar nodes holding equal values: processed %s, results %s / %s - nodes that compare equal are taken for one node (the second keeps / receives what belongs to the first: flags, priority, position)' % (what, [m_ for m_ in maps if m_.startswith('eq')], sets.get('d'), sets.get('e')))
        elif not cached and maps.count('shared') != 2:
            bad.append('%s: expected one call per name, got %s' % (what, maps))
    if bad:
        run.violation(rule, mn, 'map_nodes memo', '; '.join(bad[:2]))
    else:
        run.ok(rule, mn, 'map_nodes: a node reached under two names is processed once and both names get the one result (2 rows)')


def get_node_after_mutation_table(repo, run, rule):
    """ComposedNode.ayns.get_node evaluated twice on the same tree object with a change of the tree in between (an intermediate
    container replaced / a leaf replaced / a leaf removed): the second answer is what the child maps say NOW - the lookup walks the
    tree each time, or whatever it remembers is validated along the whole path"""
    fi = repo.func('ComposedNode.ayns.get_node')
    bad = []
    rows = 0
    stubf = lambda n, recv, a_, k: ([] if not a_ or (len(a_) == 1 and a_[0] is None) else list(a_[0]) if len(a_) == 1 and isinstance(a_[0], (list, tuple)) else list(a_))     # noqa: E731
    for change in ('intermediate container replaced', 'leaf replaced', 'leaf removed', 'nothing'):
        x, y = node_obj('X', 'ConfigNode'), node_obj('Y', 'ConfigNode')
        a = node_obj('a', 'ConfigDict', _children={'b': node_obj('B', 'ConfigDict', _children={'c': x})})
        root = node_obj('root', 'ConfigDict', _children={'a': a})
        path = ['a', 'b', 'c']
        r1 = fde_guard(lambda: FDE(repo, stubs={'get_list_path'}, stub=stubf).call(fi, root, path))
        if r1.raised or r1.ret is not x:
            raise AnalysisError('%s: get_node on a three-level tree not evaluable (%s)' % (rule, r1.raised or r1.ret))
        want = x
        if change == 'intermediate container replaced':
            a.f['_children']['b'] = node_obj('B2', 'ConfigDict', _children={'c': y})
            want = y
        elif change == 'leaf replaced':
            a.f['_children']['b'].f['_children']['c'] = y
            want = y
        elif change == 'leaf removed':
            del a.f['_children']['b'].f['_children']['c']
            want = 'KeyError'
        r2 = fde_guard(lambda: FDE(repo, stubs={'get_list_path'}, stub=stubf).call(fi, root, path))
        rows += 1
        got = r2.raised or r2.ret
        if (want == 'KeyError' and r2.raised != 'KeyError') or (want != 'KeyError' and (r2.raised or r2.ret is not want)):
            bad.append('get_node(a.b.c) after %s gives %s, expected %s: the answer of an earlier lookup is served although the tree has changed' % (change, getattr(got, 'name', got), getattr(want, 'name', want)))
    run.table(rule, rows, 'get_node repeated after a change of the tree')
    if bad:
        run.violation(rule, fi, 'lookup after mutation', bad[0] + (' [%d rows]' % len(bad) if len(bad) > 1 else ''), witness=bad[:4])
    else:
        run.ok(rule, fi, 'get_node answers from the current child maps (%d rows)' % rows)


def node_identity_discipline(repo, run, rule):
    """in the container classes a child node is looked up in a collection by its identity (id(child) in memo), never by value: nodes
    compare by content (two `3`s, two equal mappings are ==), so `child in removed_children` confuses a node with an equal sibling -
    e.g. an element that survives a delete because of its priority is dropped together with an equal one that does not"""
    mods = {repo.classes[c].module for c in ('ComposedNode', 'ConfigList', 'ConfigDict') if c in repo.classes}
    n = 0
    for fi in repo.all_functions(include_nested=True):
        if fi.module not in mods:
            continue
        nodeish = set()

        def src_is_children(x):
            t = norm(x)
            return t in ('self', 'list.__iter__(self)') or t.endswith('._children.values()') or t.endswith('.ayns.children()') or t.endswith('.children()') or t == 'self.values()' or t == 'dict.values(self)'

        def src_is_items(x):
            t = norm(x)
            return t.endswith('._children.items()') or t.endswith('.named_children()') or t == 'self.items()' or t == 'dict.items(self)' or t == 'enumerate(self)'
        for node in ast.walk(fi.node):
            gens = []
            if isinstance(node, ast.For):
                gens.append((node.target, node.iter))
            if isinstance(node, (ast.ListComp, ast.SetComp, ast.GeneratorExp, ast.DictComp)):
                gens.extend((g.target, g.iter) for g in node.generators)
            for tgt, it in gens:
                if isinstance(tgt, ast.Name) and src_is_children(it):
                    nodeish.add(tgt.id)
                if isinstance(tgt, ast.Tuple) and len(tgt.elts) == 2 and isinstance(tgt.elts[1], ast.Name) and src_is_items(it):
                    nodeish.add(tgt.elts[1].id)
            if isinstance(node, ast.Assign) and len(node.targets) == 1 and isinstance(node.targets[0], ast.Name):
                v = node.value
                if (isinstance(v, ast.Subscript) and norm(v.value) in ('self', 'self._children')) or (isinstance(v, ast.Call) and isinstance(v.func, ast.Attribute) and v.func.attr == 'get_child'):
                    nodeish.add(node.targets[0].id)
        if not nodeish:
            continue
        stores = {}
        for x in ast.walk(fi.node):
            if isinstance(x, ast.Name) and isinstance(x.ctx, ast.Store):
                stores[x.id] = stores.get(x.id, 0) + 1
        for c in ast.walk(fi.node):
            if isinstance(c, ast.Compare) and len(c.ops) == 1 and isinstance(c.ops[0], (ast.In, ast.NotIn)) and isinstance(c.left, ast.Name) and c.left.id in nodeish and stores.get(c.left.id, 0) == 1:
                n += 1
                run.violation(rule, fi, norm(c)[:90], 'membership of the child node `%s` in %s is decided by value equality; nodes compare by content, so an equal but distinct node (a sibling holding the same value) is taken for it - the library\'s own bookkeeping uses id(node) for this' % (c.left.id, norm(c.comparators[0])[:50]), node=c)
            if isinstance(c, ast.Call) and isinstance(c.func, ast.Attribute) and c.func.attr in ('index', 'remove', 'count') and len(c.args) == 1 and isinstance(c.args[0], ast.Name) \
                    and c.args[0].id in nodeish and stores.get(c.args[0].id, 0) == 1 and not norm(c.func.value).endswith('_children'):
                n += 1
                run.violation(rule, fi, norm(c)[:90], 'the child node `%s` is searched for by value (%s): nodes compare by content, an equal sibling is found instead' % (c.args[0].id, c.func.attr), node=c)
    if n == 0:
        run.ok(rule, ('awesomeyaml/nodes/composed.py', 0, '<container classes>'), 'child nodes are never looked up in collections by value (identity discipline)')


def tag_spec(repo, run, rule, tags):
    """the constructor registered for each of the given tags builds the node class the tag stands for, with the documented data
    handling (which argument receives the YAML value, whether scalars are parsed, whether a mapping is the data or the arguments) - and
    the registration helpers do register with PyYAML, for the awesomeyaml loader / dumper"""
    from . import tagtable
    table = tagtable.constructors(repo)
    for tag in tags:
        want_cls, want_arg, want_parse, want_dict = TAG_SPEC[tag]
        e = table.get(tag)
        if e is None or e.make is None:
            run.violation(rule, ('awesomeyaml/yaml.py', 0, '<module>'), tag, 'tag %s is not registered with a constructor that builds a node' % tag)
            continue
        probs = []
        nt = e.node_type or ''
        if want_cls is not None and not (nt == want_cls or nt.endswith('.' + want_cls)):
            probs.append('builds %s, expected %s' % (e.node_type or 'a plain (deduced) node', want_cls))
        if want_cls is None and not e.node_type:
            probs.append('builds a plain (deduced) node')
        if e.multi != tag.endswith(':') and tag not in ('!rec:',):
            probs.append('registered as %s constructor' % ('prefix' if e.multi else 'plain'))
        if want_arg is not None and e.data_arg_name != want_arg:
            probs.append('the YAML value is passed as %r, expected %r' % (e.data_arg_name, want_arg))
        if e.parse_scalars is not want_parse:
            probs.append('parse_scalars=%r, expected %r (%s)' % (e.parse_scalars, want_parse, 'the text must reach the node verbatim' if not want_parse else 'scalars keep their YAML type'))
        if e.dict_is_data is not want_dict:
            probs.append('dict_is_data=%r, expected %r' % (e.dict_is_data, want_dict))
        if tag == '!path' and e.kwargs != {'ref_point': None}:
            probs.append('the plain !path tag does not construct the node with the implicit reference point (kwargs %s)' % (e.kwargs,))
        if probs:
            run.violation(rule, e.fi, '%s -> %s' % (tag, unparse_(e.make)), '; '.join(probs), node=e.make)
        else:
            run.ok(rule, (e.fi.file, e.make.lineno, e.fi.qualname), '%s -> %s' % (tag, want_cls or e.node_type), 'documented node class and data handling')
        md = table.get(tag + ':') if not tag.endswith(':') and (tag + ':') not in TAG_SPEC else None
        if md is not None and md.make is not None:
            # the form carrying encoded metadata (!tag:<hex>): same node, same data handling, and the decoded metadata are the arguments
            probs = []
            mt_ = md.node_type or ''
            if want_cls is not None and not (mt_ == want_cls or mt_.endswith('.' + want_cls)):
                probs.append('builds %s, expected %s' % (md.node_type or 'a plain (deduced) node', want_cls))
            if md.parse_scalars is not want_parse or md.dict_is_data is not want_dict or (want_arg is not None and md.data_arg_name != want_arg):
                probs.append('data handling differs from the plain tag (data_arg_name=%r parse_scalars=%r dict_is_data=%r)' % (md.data_arg_name, md.parse_scalars, md.dict_is_data))
            if not any('_decode_metadata(' in x for x in (md.kwargs_dynamic or [])):
                probs.append('the metadata decoded from the tag suffix are not passed to the node')
            if probs:
                run.violation(rule, md.fi, '%s: -> %s' % (tag, unparse_(md.make)), '; '.join(probs), node=md.make)
            else:
                run.ok(rule, (md.fi.file, md.make.lineno, md.fi.qualname), '%s:<metadata> -> %s with the decoded metadata' % (tag, want_cls or md.node_type))
    for helper, target, kw, obj in (('add_constructor', 'yaml.add_constructor', 'Loader', 'AwesomeyamlLoader'), ('add_multi_constructor', 'yaml.add_multi_constructor', 'Loader', 'AwesomeyamlLoader'),
                                    ('add_representer', 'yaml.add_representer', 'Dumper', 'AwesomeyamlDumper'), ('add_multi_representer', 'yaml.add_multi_representer', 'Dumper', 'AwesomeyamlDumper'),
                                    ('add_implicit_resolver', 'yaml.add_implicit_resolver', 'Loader', 'AwesomeyamlLoader')):
        q = 'yaml.' + helper
        if q not in repo.functions:
            continue
        fi = repo.func(q)
        ps = fi.params()
        ok = False
        for p in tr.paths_of(repo, fi, follow_exceptions=False):
            for ev in p.events:
                if ev.kind == 'call' and ev.callee == target and [a.text for a in ev.args] == ps and ev.kw.get(kw) is not None and ev.kw[kw].text == obj:
                    ok = True
        if not ok:
            run.violation(rule, fi, helper, '%s does not register with PyYAML (%s(%s, %s=%s)): every tag / representer declared through it is silently missing' % (helper, target, ', '.join(ps), kw, obj))
        else:
            run.ok(rule, fi, '%s -> %s(..., %s=%s)' % (helper, target, kw, obj))


def unparse_(n):
    from ..srcmodel import unparse
    return unparse(n)[:80]


def make_node_table(repo, run, rule):
    """yaml._make_node evaluated over node kind (mapping / sequence / scalar) x dict_is_data x data_arg_name x parse_scalars: containers
    are constructed deep; a scalar is parsed or taken verbatim as asked; a mapping becomes the keyword arguments only when
    dict_is_data is off; otherwise the value is the first argument or the named one; the current file and (except for the
    keyword-arguments form) the next stage index are supplied; the caller's kwargs reach the node"""
    import yaml as _y
    fi = repo.func('yaml._make_node')
    bad = []
    rows = 0
    for kind in ('mapping', 'sequence', 'scalar'):
        for dict_is_data in (True, False):
            for data_arg in (None, 'args'):
                for parse in (True, False):
                    calls, made = [], []

                    def stub(name, recv, a, k, calls=calls):
                        if name in ('construct_mapping', 'construct_sequence', 'construct_scalar'):
                            calls.append((name, dict(k)))
                            return {'construct_mapping': {'k': 'v'}, 'construct_sequence': ['e'], 'construct_scalar': 'text'}[name]
                        if name == 'parse_scalar':
                            calls.append((name, {}))
                            return 42
                        if name == 'get_current_file':
                            return 'cur.yaml'
                        if name == 'get_next_stage_idx':
                            return 9
                        raise AnalysisError('_make_node: unexpected stub ' + name)
                    ev = _fde(repo, stubs={'construct_mapping', 'construct_sequence', 'construct_scalar', 'parse_scalar', 'get_current_file', 'get_next_stage_idx'}, stub=stub)
                    ev.externals.update({'yaml.MappingNode': _y.MappingNode, 'yaml.SequenceNode': _y.SequenceNode, 'yaml.ScalarNode': _y.ScalarNode})
                    from ..fde import TypedOpaque
                    ynode = TypedOpaque({'mapping': _y.MappingNode, 'sequence': _y.SequenceNode, 'scalar': _y.ScalarNode}[kind])

                    def node_type(*a, **k):
                        made.append((a, k))
                        return 'NODE'
                    node_type._fde_ok = True
                    loader = Obj('loader', 'AwesomeyamlLoader', context=Obj('ctx', 'Builder'))
                    try:
                        r = ev.call(fi, loader, ynode, node_type=node_type, kwargs={'delete': True}, data_arg_name=data_arg, dict_is_data=dict_is_data, parse_scalars=parse)
                    except Unsupported as e:
                        raise AnalysisError('_make_node: finite-domain evaluator refused: %s' % e)
                    rows += 1
                    what = '%s node, dict_is_data=%r, data_arg_name=%r, parse_scalars=%r' % (kind, dict_is_data, data_arg, parse)
                    if r.raised or len(made) != 1 or r.ret != 'NODE':
                        bad.append('%s: %s' % (what, 'raises %s' % r.raised if r.raised else 'node built %d times / not returned' % len(made)))
                        continue
                    a, k = made[0]
                    data = {'mapping': {'k': 'v'}, 'sequence': ['e'], 'scalar': 42 if parse else 'text'}[kind]
                    want_call = {'mapping': 'construct_mapping', 'sequence': 'construct_sequence', 'scalar': 'parse_scalar' if parse else 'construct_scalar'}[kind]
                    if [c[0] for c in calls] != [want_call]:
                        bad.append('%s: the YAML value is obtained through %s, expected %s' % (what, [c[0] for c in calls], want_call))
                    elif kind != 'scalar' and calls[0][1].get('deep') is not True:
                        bad.append('%s: the container is not constructed deep' % what)
                    if k.get('delete') is not True or k.get('source_file') != 'cur.yaml':
                        bad.append('%s: the caller\'s arguments / the current file do not reach the node (%s)' % (what, {x: k.get(x) for x in ('delete', 'source_file')}))
                    if kind == 'mapping' and not dict_is_data:
                        if a or k.get('k') != 'v':
                            bad.append('%s: the mapping is not spread into keyword arguments (positional %r, keywords %s)' % (what, a, sorted(k)))
                    elif data_arg is None:
                        if list(a) != [data] or k.get('idx') != 9:
                            bad.append('%s: expected node_type(<value>, idx=<next stage index>, ...), got positional %r, idx=%r' % (what, a, k.get('idx')))
                    elif a or k.get(data_arg) != data or k.get('idx') != 9:
                        bad.append('%s: expected node_type(%s=<value>, idx=<next stage index>, ...), got positional %r, %s=%r, idx=%r' % (what, data_arg, a, data_arg, k.get(data_arg), k.get('idx')))
    if bad:
        run.violation(rule, fi, 'yaml._make_node', '; '.join(bad[:3]))
    else:
        run.ok(rule, fi, '_make_node evaluated on %d rows (node kind x dict_is_data x data_arg_name x parse_scalars)' % rows, 'deep containers; scalar parsed / verbatim; mapping as kwargs only when asked; value positional or named; file and stage index supplied')


def metadata_syntax_table(repo, run, rule):
    """yaml._encode_all_metadata evaluated on concrete texts (the stdlib tokenizer and regex engine run on the text; the pickling of the
    metadata is a recording stand-in): every `!tag{{ <python mapping> }}` becomes `!tag:<encoded mapping>`, the rest of the text is
    untouched - also with several occurrences, nested braces and text after them; an unterminated `{{` is an error"""
    import ast as _ast
    import re as _re
    import token as _token
    import tokenize as _tokenize
    fi = repo.func('yaml._encode_all_metadata')
    cases = [
        ('a: 1\nb: [1, 2]\n', 'a: 1\nb: [1, 2]\n'),
        ("a: !metadata{{'k': 1}} 5\n", "a: !metadata:<{'k': 1}> 5\n"),
        ("a: !force{{'k': {'n': [1, 2]} }} 5\nb: 2\n", "a: !force:<{'k': {'n': [1, 2]}}> 5\nb: 2\n"),
        ("a: !del{{'x': 1}} {p: 1}\nb: !weak{{'y': 'z'}} 7\nc: 3\n", "a: !del:<{'x': 1}> {p: 1}\nb: !weak:<{'y': 'z'}> 7\nc: 3\n"),
        ("x: !call:f{{'delete': False}} {a: 1}\n", "x: !call:f:<{'delete': False}> {a: 1}\n"),
        # three and four blocks whose replacements differ in length from what they replace (by different amounts): the accumulated shift matters
        ("a: !del{{'x': 1}} {p: 1}\nb: !weak{{'a_much_longer_key': 'z'}} 7\nc: !force{{'q': [1, 2, 3]}} 3\nd: 4\n", "a: !del:<{'x': 1}> {p: 1}\nb: !weak:<{'a_much_longer_key': 'z'}> 7\nc: !force:<{'q': [1, 2, 3]}> 3\nd: 4\n"),
        ("k: [!new{{'i': 0}} 1, !new{{'i': 11}} 2, !new{{'i': 222}} 3, !new{{'i': 3333}} 4]\n", "k: [!new:<{'i': 0}> 1, !new:<{'i': 11}> 2, !new:<{'i': 222}> 3, !new:<{'i': 3333}> 4]\n"),
        ("a: !metadata{{'k': 1 5\n", 'ValueError'),
    ]
    bad = []
    for text, want in cases:
        ev = _fde(repo, stubs={'_encode_metadata'}, stub=lambda name, recv, a, k: '<%r>' % ((([recv] if recv is not None else []) + list(a))[0],))
        ev.generators = False

        def tok(readline):
            return _tokenize.tokenize(ev.as_callable(readline))
        tok._fde_ok = True
        rc = lambda *a: _re.compile(*a)      # noqa: E731
        rc._fde_ok = True
        le = lambda s_: _ast.literal_eval(s_.strip())      # noqa: E731
        le._fde_ok = True
        ev.extcalls.update({'tokenize.tokenize': tok, 're.compile': rc})
        ev.values.update({'token.OP': _token.OP})
        ev.free['eval'] = le
        try:
            r = ev.call(fi, text)
        except Unsupported as e:
            raise AnalysisError('_encode_all_metadata: finite-domain evaluator refused: %s' % e)
        if want == 'ValueError':
            if r.raised not in ('ValueError', 'TokenError', 'SyntaxError'):
                bad.append('unterminated metadata in %r: %s (expected an error)' % (text[:30], r.raised or 'accepted as %r' % (r.ret,)))
        elif r.raised or r.ret != want:
            bad.append('%r becomes %s, expected %r' % (text, r.raised or repr(r.ret), want))
    if bad:
        run.violation(rule, fi, '{{...}} metadata syntax', '; '.join(bad[:2]))
    else:
        run.ok(rule, fi, '_encode_all_metadata evaluated on %d texts' % len(cases), 'each !tag{{mapping}} rewritten to !tag:<encoded>; everything else untouched; unterminated block rejected')


def version_test_table(repo, run, rule):
    """utils.python_is_at_least evaluated against interpreter versions around the thresholds the bytecode patcher uses"""
    fi = repo.func('utils.python_is_at_least')
    bad = []
    for ver in ((3, 7, 9), (3, 10, 0), (3, 11, 4), (3, 12, 1), (4, 0, 0), (2, 7, 18)):
        for major, minor in ((3, 8), (3, 10), (3, 11), (3, 12), (3, 13)):
            ev = _fde(repo)
            ev.values['sys.version_info'] = ver
            try:
                r = ev.call(fi, major, minor)
            except Unsupported as e:
                raise AnalysisError('python_is_at_least: finite-domain evaluator refused: %s' % e)
            want = ver[:2] >= (major, minor)
            if r.raised or bool(r.ret) is not want:
                bad.append('on Python %d.%d, python_is_at_least(%d, %d) gives %s, expected %s' % (ver[0], ver[1], major, minor, r.raised or r.ret, want))
    if bad:
        run.violation(rule, fi, 'utils.python_is_at_least', '; '.join(bad[:3]) + ' (the bytecode patcher picks operand encodings and code-object layouts with it)')
    else:
        run.ok(rule, fi, 'python_is_at_least evaluated on 6 interpreter versions x 5 thresholds')


def path_tag_table(repo, run, rule):
    """the tag a !path node is written with carries its reference point (none for the implicit one)"""
    fi = repo.classes['PathNode'].ayns.get('tag')
    if fi is None:
        raise AnalysisError('PathNode.ayns.tag not found')
    bad = []
    for ref, want in (('', '!path'), ('file', '!path:file'), ('parent(2)', '!path:parent(2)'), ('abs(/x)', '!path:abs(/x)')):
        ev = _fde(repo)
        try:
            r = ev.call(fi, Obj('p', 'PathNode', ref_point=ref))
        except Unsupported as e:
            raise AnalysisError('PathNode.ayns.tag: finite-domain evaluator refused: %s' % e)
        if r.raised or r.ret != want:
            bad.append('reference point %r is written as %r, expected %r' % (ref, r.raised or r.ret, want))
    if bad:
        run.violation(rule, fi, 'PathNode tag', '; '.join(bad))
    else:
        run.ok(rule, fi, 'PathNode tag for 4 reference points')


def namespace_reuse_guard(repo, run, rule):
    """EvalNode.on_evaluate_impl: the globals of a node are taken from sys.modules only when the node is persistent and its module
    is there; otherwise a fresh namespace is built"""
    fi = repo.func('EvalNode.ayns.on_evaluate_impl')
    n = 0
    bad = set()
    for p in tr.paths_of(repo, fi, no_inline={'_require_safe', '_patch_access_to_globals', 'evaluate_node', 'get_eval_symbols'}, follow_exceptions=False):
        for e in p.events:
            if e.kind == 'call' and e.callee in ('exec', 'eval') and len(e.args) >= 2:
                G = e.args[1].text
                reused = G.startswith('sys.modules[')
                pers = [pol for t, pol in e.facts if t.endswith('.persistent_namespace')]
                present = [(not pol) if ' not in sys.modules' in t else pol for t, pol in e.facts if ' in sys.modules' in t]
                n += 1
                if reused and not (pers and pers[0] and present and present[0]):
                    bad.add('the namespace is taken from sys.modules on a path where the node is not known to be persistent with its module present (facts: %s)' % [t for t, _ in e.facts][:3])
                if not reused and pers and pers[0] and present and present[0]:
                    bad.add('a persistent node whose module exists gets a fresh namespace: what earlier lines defined is lost')
    if not n:
        raise AnalysisError('EvalNode.on_evaluate_impl: exec / eval not found')
    if bad:
        run.violation(rule, fi, 'reuse of a published namespace', '; '.join(sorted(bad)))
    else:
        run.ok(rule, fi, 'published namespace reused iff persistent_namespace and the module is in sys.modules (%d run sites)' % n)


def import_name_table(repo, run, rule):
    """utils.import_name evaluated against a model of importable modules: a dotted name is resolved by importing as long as
    modules are found and by attribute access from then on; a name that does not resolve is an ImportError, an empty / dangling
    name a ValueError"""
    from ..fde import ExcValue
    fi = repo.func('utils.import_name')
    MAKE, FN, ATTR = 'pkg.mod.Cls.make', 'pkg.mod.fn', 'pkg.attr'
    cls = Obj('Cls', '<class>', make=MAKE)
    cls.missing.update({'nofn', 'x'})
    # an attribute that is a false value (an empty container object) with attributes of its own: found is found, whatever its truth
    EMPTY_ATTR = 'pkg.mod.empty.marker'
    empty = node_obj('empty', 'ConfigDict', _children={}, marker=EMPTY_ATTR)
    m_mod = Obj('pkg.mod', '<module>', __name__='pkg.mod', fn=FN, Cls=cls, empty=empty)
    m_mod.missing.update({'nofn', 'missing', 'make', 'Cls2'})
    m_pkg = Obj('pkg', '<module>', __name__='pkg', attr=ATTR, mod=m_mod)
    m_pkg.missing.update({'missing', 'nofn', 'fn'})
    modules = {'pkg': m_pkg, 'pkg.mod': m_mod}
    cases = [('pkg.mod.empty.marker', EMPTY_ATTR), ('pkg.mod.empty', empty), ('pkg.mod.fn', FN), ('pkg.mod.Cls.make', MAKE), ('pkg.attr', ATTR), ('pkg.mod', m_mod), ('pkg', m_pkg), ('pkg.missing', 'ImportError'), ('pkg.mod.nofn', 'ImportError'),
             ('nopkg.x', 'ImportError'), ('pkg.mod.Cls.x', 'ImportError'), ('', 'ValueError'), ('pkg.', 'ValueError')]
    bad = []
    for name, want in cases:
        asked = []

        def imp(modname, package=None, asked=asked):
            asked.append((modname, package))
            full = (package + modname) if modname.startswith('.') and package else modname
            if modname.startswith('.') and not package:
                raise TypeError('relative import without package')
            if full in modules:
                return modules[full]
            raise ImportError(full)
        imp._fde_ok = True
        ev = _fde(repo, stubs={'_build_import_exception'}, stub=lambda n, r, a, k: ExcValue('ImportError', a))
        ev.extcalls['importlib.import_module'] = imp
        try:
            r = ev.call(fi, name)
        except Unsupported as e:
            if want == 'ImportError':
                continue      # the construction of the error report is beyond the evaluator: this row stays undecided
            raise AnalysisError('utils.import_name: finite-domain evaluator refused: %s' % e)
        if isinstance(want, str) and want.endswith('Error'):
            if r.raised != want:
                bad.append('%r: %s (expected %s)' % (name, r.raised or 'resolves to %r' % (r.ret,), want))
        elif r.raised or (r.ret is not want and r.ret != want):
            bad.append('%r resolves to %s, expected %s' % (name, r.raised or repr(r.ret), getattr(want, 'name', want)))
    if bad:
        run.violation(rule, fi, 'utils.import_name', '; '.join(bad[:3]))
    else:
        run.ok(rule, fi, 'import_name evaluated on %d names against a module model' % len(cases), 'import while modules are found (relative to the package found so far), then attributes; unresolved -> ImportError; empty -> ValueError')


def dump_entry(repo, run, rule):
    """yaml.dump on traces: PyYAML's dump is given a stream (the caller's output or what was opened for it - without one the text
    is only returned, never written), the caller's nodes and a dumper factory of the package"""
    fi = repo.func('yaml.dump')
    probs = set()
    n = 0
    for p in tr.paths_of(repo, fi, follow_exceptions=False):
        if p.status != 'return':
            continue
        calls = [e for e in p.events if e.kind == 'call' and e.callee == 'yaml.dump']
        if not calls:
            continue
        n += 1
        e = calls[-1]
        outp = [x for x in fi.params() if x in ('output', 'stream', 'file', 'fp')]
        if outp and not any(outp[0] in v.text for v in list(e.args) + list(e.kw.values())):
            probs.add('the caller\'s %s does not reach PyYAML: the text is only returned, never written' % outp[0])
        if not e.args or 'nodes' not in e.args[0].text:
            probs.add('what is dumped is not the caller\'s nodes')
        if e.kw.get('Dumper') is None:
            probs.add('PyYAML is not given the awesomeyaml dumper')
    if not n:
        raise AnalysisError('yaml.dump: no completing path through PyYAML\'s dump')
    if probs:
        run.violation(rule, fi, 'yaml.dump', '; '.join(sorted(probs)[:3]))
    else:
        run.ok(rule, fi, 'yaml.dump: nodes, a stream and the dumper factory are handed to PyYAML (%d paths)' % n)


def parse_errors(repo, run, rule):
    """yaml.parse on traces (default configuration of the errors module: rethrow and keep the original exception): whatever goes
    wrong while PyYAML loads the text is reported as a ParsingError built with all its arguments, the original exception as cause; a
    ParsingError raised below passes unchanged"""
    fi = repo.func('yaml.parse')
    n = 0
    probs = set()
    for p in tr.paths_of(repo, fi, no_inline={'_encode_all_metadata', 'global_ctx'}, follow_exceptions=True):
        ex = [t.split(':', 1)[1] for t, pol in p.facts if pol and t.startswith('exception:')]
        if not ex or not any(e.kind == 'call' and e.callee in ('yaml.load_all', 'yaml.load') for e in p.events):
            continue
        facts = dict(p.facts)
        fin = [e for e in p.events if e.kind == 'raise']
        if ex[-1].endswith('ParsingError'):
            if p.status != 'raise' or not fin or fin[-1].value.text != '<reraise>':
                probs.add('a ParsingError raised while loading is not passed on unchanged')
            continue
        if ex[-1] not in ('Exception', 'BaseException') or facts.get('errors.rethrow') is not True or facts.get('errors.include_original_exception') is not True:
            continue
        n += 1
        v = fin[-1].value.ast if fin else None
        if p.status != 'raise' or not isinstance(v, ast.Call) or not norm(v.func).endswith('ParsingError'):
            probs.add('with re-throwing enabled an exception raised while loading is not converted into a ParsingError (%s %s)' % (p.status, norm(v)[:40] if v is not None else ''))
            continue
        kw = {k.arg for k in v.keywords}
        if len(v.args) + len(kw & {'error_msg'}) < 1 or not ({'node'} <= kw or len(v.args) >= 2):
            probs.add('the ParsingError is built without its message / node argument (%s): building it fails with a TypeError instead' % norm(v)[:80])
        if fin[-1].target != 'caught_exception':
            probs.add('the original exception is not the cause of the ParsingError')
    if not n:
        raise AnalysisError('yaml.parse: no path converts a loading error under errors.rethrow / errors.include_original_exception')
    if probs:
        run.violation(rule, fi, 'yaml.parse error reporting', '; '.join(sorted(probs)[:3]))
    else:
        run.ok(rule, fi, 'yaml.parse: loading errors -> ParsingError(str(e), node=None, path=None) from e; ParsingError passes (%d paths)' % n)


def child_kwargs_table(repo, run, rule):
    """ComposedNode._get_child_kwargs evaluated for mappings and lists x (delete, implicit_delete, allow_new, implicit_allow_new): what a
    container hands to the children built under it is its explicit flag, else - for delete - its type default (lists: True) or the flag
    it inherited itself, - for allow_new - the flag it inherited"""
    import itertools
    fi = repo.func('ComposedNode._get_child_kwargs')
    bad = []
    rows = 0
    for cls, dflt in (('ConfigDict', False), ('ConfigList', True)):
        owner, e = repo.class_attr(cls, '_default_delete')
        from ..srcmodel import fold_const
        ok, v = fold_const(repo, e, owner) if e is not None else (False, None)
        if not ok or v is not dflt:
            continue          # (the class defaults themselves are C02.R5's business)
        for d, idl, an, ian in itertools.product((None, True, False), (None, True, False), (None, True, False), (None, True, False)):
            me = node_obj('c', cls, _delete=d, _implicit_delete=idl, _allow_new=an, _implicit_allow_new=ian)
            ev = _fde(repo)
            try:
                r = ev.call(fi, me)
            except Unsupported as e2:
                raise AnalysisError('_get_child_kwargs: finite-domain evaluator refused: %s' % e2)
            rows += 1
            want_d = d if d is not None else (dflt or idl)
            want_n = an if an is not None else ian
            if r.raised or not isinstance(r.ret, dict) or r.ret.get('implicit_delete', '<absent>') != want_d or r.ret.get('implicit_allow_new', '<absent>') != want_n:
                bad.append('%s(delete=%r, implicit_delete=%r, allow_new=%r, implicit_allow_new=%r) hands its children %s, expected implicit_delete=%r, implicit_allow_new=%r' % (
                    cls, d, idl, an, ian, r.raised or {k: r.ret.get(k, '<absent>') for k in ('implicit_delete', 'implicit_allow_new')}, want_d, want_n))
    if not rows:
        raise AnalysisError('_get_child_kwargs: class defaults of ConfigDict / ConfigList not as documented')
    if bad:
        run.violation(rule, fi, '_get_child_kwargs', '; '.join(bad[:2]))
    else:
        run.ok(rule, fi, '_get_child_kwargs evaluated on %d rows (mapping / list x delete x implicit_delete x allow_new x implicit_allow_new)' % rows)


def getter_table(repo, run, rule):
    """the plain merge-control getters of ConfigNode.ayns evaluated: each returns the field it is named after (explicit_delete the
    explicit delete flag, idx the stage index, source_file the recorded file ...)"""
    bad = []
    n = 0
    for name, field in (('explicit_delete', '_delete'), ('idx', '_idx'), ('source_file', '_source_file'), ('metadata', '_metadata')):
        fi = repo.classes['ConfigNode'].ayns.get(name)
        if fi is None:
            continue
        n += 1
        for val in ('V1', None, False):
            me = node_obj('n', 'ConfigNode', **{field: val})
            ev = _fde(repo)
            try:
                r = ev.call(fi, me)
            except Unsupported as e:
                raise AnalysisError('ConfigNode.ayns.%s: finite-domain evaluator refused: %s' % (name, e))
            if r.raised or r.ret is not val and r.ret != val:
                bad.append('ayns.%s gives %r for %s=%r' % (name, r.raised or r.ret, field, val))
    if n < 3:
        raise AnalysisError('ConfigNode.ayns getters not found')
    if bad:
        run.violation(rule, repo.classes['ConfigNode'].ayns['explicit_delete'], 'ConfigNode.ayns getters', '; '.join(bad[:3]))
    else:
        run.ok(rule, repo.classes['ConfigNode'].ayns['explicit_delete'], '%d plain getters return their field' % n)


def current_file_tracking(repo, run, rule):
    """Builder.add_source on traces: when the source names a file that is opened, the builder records that name as the file being
    parsed before the parser runs (nodes take their source file from it); Builder.current_stage marks the given stage for the
    duration of its block and puts the previous mark back"""
    fi = repo.func('Builder.add_source')
    src = fi.params()[1]
    n = 0
    bad = set()
    for p in tr.paths_of(repo, fi, follow_exceptions=False):
        opened = [i for i, e in enumerate(p.events) if e.kind == 'with_enter' and e.callee.startswith('open(')]
        parse = [i for i, e in enumerate(p.events) if e.kind == 'call' and e.attr == 'parse']
        if not opened or not parse:
            continue
        n += 1
        st = [e for e in p.events[opened[0]:parse[0]] if e.kind == 'store' and e.target == 'self._current_file' and e.value is not None and e.value.text in (src, 'str(%s)' % src)]
        if not st:
            bad.add('a source that is opened as a file is parsed without its name being recorded as the current file')
    if not n:
        raise AnalysisError('Builder.add_source: no path opens a file and parses it')
    cs = repo.func('Builder.current_stage')
    prm = cs.params()[1]
    m = 0
    for p in tr.paths_of(repo, cs, follow_exceptions=False):
        ys = [i for i, e in enumerate(p.events) if e.kind == 'yield']
        if not ys or p.status != 'return':
            continue
        m += 1
        sets = [(i, e) for i, e in enumerate(p.events) if e.kind == 'store' and e.target == 'self._current_stage']
        before = [e for i, e in sets if i < ys[0]]
        after = [e for i, e in sets if i > ys[-1]]
        if not before or before[-1].value is None or before[-1].value.text != prm:
            bad.add('current_stage(%s) does not mark stage %s while its block runs' % (prm, prm))
        if not after or after[-1].value is None or after[-1].value.text != 'self._current_stage':
            bad.add('current_stage does not put the previous mark back')
    if not m:
        raise AnalysisError('Builder.current_stage: no path through its yield')
    if bad:
        run.violation(rule, fi, 'current file / current stage', '; '.join(sorted(bad)))
    else:
        run.ok(rule, fi, 'an opened source file is recorded before parsing (%d paths); current_stage sets and restores its mark' % n)


def delegation_argument_order(repo, run, rule, names=('on_evaluate_impl', 'on_premerge_impl', 'on_preprocess_impl', 'on_merge_impl', 'on_evaluate', 'on_premerge', 'on_preprocess', 'on_merge')):
    """a node method that hands its own (path, <operand>) pair on to the next layer (super(), the result of a sub-build, a child) hands
    it on in the same order"""
    n = 0
    bad = []
    for fi in repo.all_functions(include_nested=False):
        if fi.name not in names or fi.cls is None:
            continue
        ps = fi.params()[1:]
        if len(ps) != 2:
            continue
        for c in calls_in_(fi.node):
            if isinstance(c.func, ast.Attribute) and c.func.attr in names and len(c.args) == 2 and not c.keywords:
                a = [norm(x) for x in c.args]
                if sorted(a) == sorted(ps):
                    n += 1
                    if a != ps:
                        bad.append((fi, c, a))
    if n < 4:
        raise AnalysisError('delegation of (path, operand) pairs: only %d sites found' % n)
    if bad:
        fi, c, a = bad[0]
        run.violation(rule, fi, norm(c)[:80], 'the (%s) pair is handed on as (%s): the next layer takes the operand for the path and the path for the operand' % (', '.join(fi.params()[1:]), ', '.join(a)), node=c)
    else:
        run.ok(rule, repo.func('ConfigNode.ayns.on_merge'), '%d delegations hand (path, operand) on in order' % n)


def calls_in_(node):
    from ..srcmodel import calls_in
    return calls_in(node)


def partial_child_getitem(repo, run, rule):
    """EvalContext.PartialChild.__getitem__ evaluated: an entry that is not there yet is evaluated from the config node of that key,
    under the path of the parent extended by the key, and is the result; an entry that is there is returned as stored - after the
    strict-mode re-check of its source when the context requires all safe"""
    q = 'EvalContext.PartialChild.__getitem__'
    if q not in repo.functions:
        raise AnalysisError('%s not found' % q)
    fi = repo.func(q)
    bad = []
    for present in (False, True):
        for strict in (False, True):
            log = []
            child_node = node_obj('cfg.k', 'ConfigNode')
            ctx = Obj('ctx', 'EvalContext', _require_all_safe=strict)

            def stub(name, recv, a, k, log=log):
                log.append((name, getattr(recv, 'name', None), tuple(getattr(x, 'name', x) if not isinstance(x, list) else tuple(x) for x in a)))
                if name == 'evaluate_node':
                    return 'EVALUATED'
                if name == '__getitem__':
                    return 'STORED'
                return None
            ev = _fde(repo, stubs={'evaluate_node', 'get_node', '__getitem__'}, stub=stub)
            me = Obj('pc', 'EvalContext.PartialChild', _path=['a'], _eval_ctx=ctx, _cfgobj={'k': child_node}, _fde_keys=({'k'} if present else set()))
            try:
                r = ev.call(fi, me, 'k')
            except Unsupported as e:
                raise AnalysisError('%s: finite-domain evaluator refused: %s' % (q, e))
            what = 'entry %s, strict mode %s' % ('present' if present else 'absent', 'on' if strict else 'off')
            evs = [x for x in log if x[0] == 'evaluate_node']
            gets = [x for x in log if x[0] == 'get_node']
            if r.raised:
                bad.append('%s: raises %s' % (what, r.raised))
            elif not present:
                if evs != [('evaluate_node', 'ctx', ('cfg.k', ('a', 'k')))] or r.ret != 'EVALUATED':
                    bad.append('%s: expected ctx.evaluate_node(<config node of the key>, <parent path> + [key]) as the result, got calls %s, result %r' % (what, evs, r.ret))
            else:
                if evs or r.ret != 'STORED':
                    bad.append('%s: expected the stored value, got %r (evaluations: %s)' % (what, r.ret, evs))
                if strict and gets != [('get_node', 'ctx', (('a', 'k'),))]:
                    bad.append('%s: the source of the stored value is not re-checked (get_node calls: %s)' % (what, gets))
    # get_or_set: the holder of the partial results of a container that is being evaluated is registered under the key and carries
    # the container's own path (parent path + [key]), the context and the container's config node
    q2 = 'EvalContext.PartialChild.get_or_set'
    if q2 in repo.functions:
        made, sets = [], []

        def mk(*a, **k):
            # (arguments by keyword are placed by the constructor's own parameter names)
            init_ = repo.resolve('EvalContext.PartialChild', '__init__')
            names_ = init_.params()[1:] if init_ is not None else []
            a, k = list(a), dict(k)
            while len(a) < len(names_) and names_[len(a)] in k:
                a.append(k.pop(names_[len(a)]))
            made.append((tuple(tuple(x) if isinstance(x, list) else getattr(x, 'name', x) for x in a), dict(k)))
            return Obj('holder', 'EvalContext.PartialChild')

        def stub2(name, recv, a, k):
            sets.append((name, getattr(recv, 'name', None), tuple(getattr(x, 'name', x) for x in a)))
            return a[1] if name == 'setdefault' and len(a) > 1 else None
        ev = _fde(repo, stubs={'setdefault'}, stub=stub2)
        ev.constructors = {'PartialChild': mk, 'EvalContext.PartialChild': mk}
        ev.extcalls = {'EvalContext.PartialChild': mk}
        ctx = Obj('ctx', 'EvalContext')
        sub = node_obj('cfg.k', 'ConfigDict')
        me = Obj('pc', 'EvalContext.PartialChild', _path=['a'], _eval_ctx=ctx, _cfgobj={'k': sub})
        try:
            r = ev.call(repo.func(q2), me, 'k')
        except Unsupported as e:
            raise AnalysisError('%s: finite-domain evaluator refused: %s' % (q2, e))
        if r.raised or len(made) != 1 or made[0][0] != (('a', 'k'), 'ctx', 'cfg.k') or made[0][1]:
            bad.append('get_or_set(key): the holder for the nested container is built from %s; expected (<own path> + [key], the context, the config node of the key) - a holder that carries another path evaluates / re-checks its entries under the wrong paths' % (made[0][0] if made else r.raised or 'nothing',))
        elif sets != [('setdefault', 'pc', ('k', 'holder'))] or getattr(r.ret, 'name', None) != 'holder':
            bad.append('get_or_set(key): the holder is not registered under the key with setdefault and returned (%s)' % (sets,))
    if bad:
        run.violation(rule, fi, 'PartialChild.__getitem__ / get_or_set', '; '.join(bad[:2]))
    else:
        run.ok(rule, fi, 'PartialChild.__getitem__ evaluated on 4 rows, get_or_set on 1', 'absent -> evaluate_node(cfg[key], path + [key]); present -> stored value, re-checked in strict mode; nested holders carry path + [key]')


def strict_block_errors(repo, run, rule):
    """EvalContext.require_all_safe on traces: strict mode is switched on for the block and the previous mode put back on every way
    out; an UnsafeError raised inside the block is never swallowed - it leaves the block as an error that names the requiring node,
    with the UnsafeError as cause"""
    fi = repo.func('EvalContext.require_all_safe')
    probs = set()
    n = 0
    if any(isinstance(c, ast.Call) and isinstance(c.func, ast.Attribute) and c.func.attr in ('callback', 'push', 'enter_context') for c in ast.walk(fi.node)) \
            or any(isinstance(c, ast.Call) and isinstance(c.func, ast.Name) and c.func.id == 'setattr' for c in ast.walk(fi.node)):
        raise AnalysisError('%s: require_all_safe restores the mode through a registered callback / setattr: not recognised' % rule)
    for p in tr.paths_of(repo, fi, follow_exceptions=True):
        ys = [i for i, e in enumerate(p.events) if e.kind == 'yield' or e.kind == 'exc']
        sets = [(i, e) for i, e in enumerate(p.events) if e.kind == 'store' and e.target == 'self._require_all_safe']
        if not sets:
            continue
        first = sets[0][1]
        if first.value is None or first.value.const is not True:
            probs.add('strict mode is not switched on for the block')
        last = sets[-1][1]
        if len(sets) < 2 or last.value is None or 'self._require_all_safe' not in last.value.text:
            probs.add('the previous mode is not put back on a way out of the block [%s]' % tr.describe(p, 2))
        exc = [t for t, pol in p.facts if pol and t.startswith('exception:') and 'UnsafeError' in t]
        if exc:
            n += 1
            fin = [e for e in p.events if e.kind == 'raise']
            if p.status != 'raise' or not fin:
                probs.add('an UnsafeError raised inside the block is swallowed: the dynamic node goes on as if its dependency had been safe')
            elif fin[-1].value.text != '<reraise>' and fin[-1].target != 'caught_exception':
                probs.add('the error that leaves the block does not carry the UnsafeError as its cause')
    if not n:
        raise AnalysisError('EvalContext.require_all_safe: no handler for UnsafeError found on the traces')
    if probs:
        run.violation(rule, fi, 'EvalContext.require_all_safe', '; '.join(sorted(probs)))
    else:
        run.ok(rule, fi, 'strict block: mode on / restored; UnsafeError -> EvalError(..., node, path) from e')
