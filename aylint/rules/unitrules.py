"""Small evaluated tables for constructors / getters / overrides that the larger rules take for granted.

Each rule evaluates one function of the package (finite-domain evaluator or tracer) on a handful of inputs that span its
decision points and compares with what the property requires.  They exist because first-order mutants of these functions
(negated test, dropped call) pass the pinned test-suite: see tools/triage_mutants.py."""
import ast
import collections.abc as cabc
import importlib.util
import os

from ..fde import FDE, Obj, Opaque, Unsupported
from ..report import AnalysisError
from ..srcmodel import norm
from . import tr


def _fde(repo, stubs=(), stub=None):
    ev = FDE(repo, stubs=set(stubs), stub=stub)
    ev.externals.update({'Sequence': cabc.Sequence, 'cabc.Sequence': cabc.Sequence, 'collections.abc.Sequence': cabc.Sequence,
                         'Mapping': cabc.Mapping, 'cabc.Mapping': cabc.Mapping, 'MutableSequence': cabc.MutableSequence, 'cabc.MutableSequence': cabc.MutableSequence})
    return ev


def list_operator_init(repo, run, rule):
    """AppendNode / ExtendNode(value): a sequence other than str / bytes is the content as it is, anything else becomes the
    single element of the content"""
    for cls in ('AppendNode', 'ExtendNode'):
        fi = repo.func(cls + '.__init__')
        bad = []
        for value, wrapped in ((5, True), ('ab', True), (b'x', True), (None, True), ([1, 2], False), ((1, 2), False), ([], False)):
            got = []
            ev = _fde(repo, stubs={'__init__'}, stub=lambda name, recv, args, kwargs: got.append((args, kwargs)))
            me = Obj('node', cls)
            try:
                r = ev.call(fi, me, value)
            except Unsupported as e:
                raise AnalysisError('%s.__init__: finite-domain evaluator refused: %s' % (cls, e))
            if r.raised or len(got) != 1 or not got[0][0]:
                bad.append('%r: the list constructor is %s' % (value, 'not reached (%s)' % r.raised if r.raised else 'called %d times' % len(got)))
                continue
            content = got[0][0][0]
            want = [value] if wrapped else value
            if content != want or (not wrapped and content is not value):
                bad.append('%r becomes the content %r, expected %r' % (value, content, want))
        if bad:
            run.violation(rule, fi, '%s(value)' % cls, '; '.join(bad[:3]) + ' (a scalar / str / bytes is one element, a sequence is the elements)')
        else:
            run.ok(rule, fi, '%s(value): 7 value kinds evaluated' % cls, 'scalars, str, bytes, None wrapped into one element; lists / tuples taken as they are')


def clear_init(repo, run, rule):
    """ClearNode(value): !clear takes no argument - None constructs the node (base constructor called once), anything else is rejected"""
    fi = repo.func('ClearNode.__init__')
    bad = []
    for value in (None, 0, '', 'x', [], [1]):
        got = []
        ev = _fde(repo, stubs={'__init__'}, stub=lambda name, recv, args, kwargs: got.append((args, kwargs)))
        try:
            r = ev.call(fi, Obj('node', 'ClearNode'), value)
        except Unsupported as e:
            raise AnalysisError('ClearNode.__init__: finite-domain evaluator refused: %s' % e)
        if value is None:
            if r.raised or len(got) != 1:
                bad.append('!clear without argument: %s' % ('raises %s' % r.raised if r.raised else 'base constructor called %d times' % len(got)))
        elif r.raised != 'ValueError':
            bad.append('!clear with argument %r is not rejected with ValueError (%s)' % (value, r.raised or 'accepted'))
    if bad:
        run.violation(rule, fi, 'ClearNode(value)', '; '.join(bad[:3]))
    else:
        run.ok(rule, fi, 'ClearNode(value): None accepted, 5 other values rejected', 'ValueError for any argument; base constructor runs once')


def function_tags(repo, run, rule):
    """the tag a !call / !bind node is written with names its target: the stored name, or module.name of a stored callable"""
    for cls, prefix in (('CallNode', '!call:'), ('BindNode', '!bind:')):
        fi = repo.classes[cls].ayns.get('tag')
        if fi is None:
            raise AnalysisError('%s.ayns.tag not found' % cls)
        bad = []
        fn = Obj('fn', '<function>', __module__='pkg.mod', __name__='make')
        for func, want in (('pkg.mod.make', prefix + 'pkg.mod.make'), (fn, prefix + 'pkg.mod.make'), ('f', prefix + 'f')):
            ev = _fde(repo)
            try:
                r = ev.call(fi, Obj('node', cls, _func=func))
            except Unsupported as e:
                raise AnalysisError('%s.ayns.tag: finite-domain evaluator refused: %s' % (cls, e))
            if r.raised or r.ret != want:
                bad.append('target %s is written as %r, expected %r' % ('callable pkg.mod.make' if func is fn else repr(func), r.raised or r.ret, want))
        if bad:
            run.violation(rule, fi, '%s tag' % cls, '; '.join(bad[:3]))
        else:
            run.ok(rule, fi, '%s tag for a named and for a resolved target' % cls, prefix + '<module>.<name>')


def _pyyaml_method_names():
    spec = importlib.util.find_spec('yaml')
    if spec is None or not spec.origin:
        raise AnalysisError('PyYAML sources not found')
    names = set()
    d = os.path.dirname(spec.origin)
    for f in ('emitter.py', 'serializer.py', 'representer.py', 'resolver.py', 'constructor.py', 'composer.py', 'parser.py', 'scanner.py', 'reader.py', 'dumper.py', 'loader.py'):
        try:
            tree = ast.parse(open(os.path.join(d, f)).read())
        except OSError:
            continue
        for c in tree.body:
            if isinstance(c, ast.ClassDef):
                names.update(m.name for m in c.body if isinstance(m, ast.FunctionDef))
    if len(names) < 100:
        raise AnalysisError('PyYAML sources: only %d method names found' % len(names))
    return names


def overrides_delegate(repo, run, rule, cls, value_returning=True, floor=3):
    """every method of `cls` that overrides a PyYAML method hands its own arguments to the overridden method on every path that
    completes - except under the unquoted-output switch the class adds - and (for the dumper) returns what that method returned"""
    base = _pyyaml_method_names()
    n = 0
    for name, fi in sorted(repo.classes[cls].methods.items()):
        if name not in base or fi.is_contextmanager:
            continue
        n += 1
        params = fi.params()[1:]
        a = fi.node.args
        probs = []
        for p in tr.paths_of(repo, fi, follow_exceptions=False):
            if p.status != 'return':
                continue
            sup = [e for e in p.events if e.kind == 'call' and e.callee == 'super().' + name]
            switch = any(pol and '_unquoted' in t for t, pol in p.facts)
            if not sup:
                if not switch:
                    probs.append('a completing path never calls the PyYAML %s it overrides [%s]' % (name, tr.describe(p, 3) or 'unconditional'))
                continue
            if len(sup) > 1:
                probs.append('the overridden %s is called %d times on one path' % (name, len(sup)))
                continue
            e = sup[0]
            passed = [x.text for x in e.args] + ['%s=%s' % (k, v.text) for k, v in e.kw.items()]
            for i, prm in enumerate(params):
                if name == 'construct_object' and prm == 'convert':
                    continue          # the loader's own extra parameter
                ok = (i < len(e.args) and e.args[i].text == prm) or (prm in e.kw and e.kw[prm].text == prm)
                if not ok:
                    probs.append('argument %s is not handed on to the overridden %s (passed: %s)' % (prm, name, ', '.join(passed)[:80]))
            if a.vararg and not any(x.text == '*' + a.vararg.arg for x in e.args):
                probs.append('*%s is not handed on to the overridden %s' % (a.vararg.arg, name))
            if a.kwarg and not any(k.startswith('**') and v.text == a.kwarg.arg for k, v in e.kw.items()):
                probs.append('**%s is not handed on to the overridden %s' % (a.kwarg.arg, name))
            if value_returning and name != '__init__':
                fin = tr.final_event(p)
                rt = fin.value.text if fin is not None and fin.value is not None else 'None'
                has_return = any(isinstance(x, ast.Return) and x.value is not None for x in ast.walk(fi.node))
                if has_return and rt != e.result.text:
                    probs.append('%s returns %s, not what the overridden method returned' % (name, rt[:50]))
        if probs:
            run.violation(rule, fi, '%s.%s overrides PyYAML' % (cls, name), '; '.join(sorted(set(probs))[:3]))
        else:
            run.ok(rule, fi, '%s.%s delegates to the PyYAML method it overrides' % (cls, name), 'own arguments handed on, result returned; only the unquoted-output switch may answer by itself')
    if n < floor:
        raise AnalysisError('%s: only %d overrides of PyYAML methods found' % (cls, n))


def wrapped_node_origin(repo, run, rule):
    """AwesomeyamlLoader._convert: a node wrapped from a plain PyYAML value records the stage index and the file being parsed,
    but a node that already carries them (built by a tag constructor) keeps its own"""
    fi = repo.func('AwesomeyamlLoader._convert')
    bad = []
    for has_idx, has_file in ((False, False), (True, False), (False, True), (True, True)):
        made = Obj('made', 'ConfigNode', _idx=7 if has_idx else None, _source_file='own.yaml' if has_file else None)

        def stub(name, recv, args, kwargs, made=made):
            if name == 'get_next_stage_idx':
                return 3
            if name == 'get_current_file':
                return 'current.yaml'
            raise AnalysisError('_convert: unexpected stub ' + name)
        ev = _fde(repo, stubs={'get_next_stage_idx', 'get_current_file'}, stub=stub)
        loader = Obj('loader', 'AwesomeyamlLoader', context=Obj('ctx', 'Builder'))
        ynode = Obj('ynode', '<yaml node>', value='x')
        # ConfigNode(value, pyyaml_node=node) is the construction of the wrapper: stand-in = the prepared node
        ev.constructors['ConfigNode'] = lambda *a, **k: made
        try:
            r = ev.call(fi, loader, 'x', ynode)
        except Unsupported as e:
            raise AnalysisError('_convert: finite-domain evaluator refused: %s' % e)
        if r.raised:
            bad.append('wrapping raises %s' % r.raised)
            continue
        got = r.ret if isinstance(r.ret, Obj) else made
        want_idx, want_file = (7 if has_idx else 3), ('own.yaml' if has_file else 'current.yaml')
        if got.f.get('_idx') != want_idx:
            bad.append('stage index %r, expected %r (node %s an index)' % (got.f.get('_idx'), want_idx, 'had' if has_idx else 'had no'))
        if got.f.get('_source_file') != want_file:
            bad.append('source file %r, expected %r (node %s a source file)' % (got.f.get('_source_file'), want_file, 'had' if has_file else 'had no'))
    if bad:
        run.violation(rule, fi, 'AwesomeyamlLoader._convert', '; '.join(sorted(set(bad))[:3]))
    else:
        run.ok(rule, fi, '_convert: origin recorded on 4 node states', 'missing stage index / source file filled from the parse context, existing ones kept')
