"""C16 - !append / !extend / !prev move and grow existing content without loss."""
import ast

from .. import cfg as cfgmod
from ..mutate import Mutant, in_func, delete_stmt, rename_local
from ..report import AnalysisError
from ..srcmodel import unparse, norm, walk_no_nested, calls_in
from .common import is_method_call, cfg_of, get_kw, recv_of, name_defs, find_stmt_node
from . import pathrules as pr
from . import unitrules
from . import containers as ct
from . import tr
from .. import pathbase
from ..tracer import Tracer, callback_params

from .common import Guard  # noqa: E402

PROP = 'C16'
DECIDED = [
    'R1: detach before re-merge: a premerge implementation that returns a node fetched from the accumulated tree has removed it from that tree on the same path (exception: !clear returns the node it just emptied).',
    'R2: remove_child returns the addressed child in all three implementations (base pop by the requested key; dict via _del; list: element read at the requested index before shifting); remove_node dispatches to the parent\'s own remove_child (not the base-class function), so dict/list parents update both stores.',
    'R3: direction and locality: !append/!extend call <fetched older node>.extend(self) with the appended list itself as argument and return the fetched node; lookups on the merge root use the node\'s own absolute path (path-base typing); !append raises when the target is missing, !extend falls back to a plain ConfigList(self).',
    'R4: ConfigList.extend appends every element in iteration order (loop of append).',
    'R5: the container premerge visits every child unconditionally: ComposedNode.on_premerge_impl is a single map_nodes over the direct children calling child.on_premerge(child_path, into).',
    'R6: AppendNode / ExtendNode(value) evaluated on 7 value kinds: a scalar, str, bytes or None becomes the single element, a list / tuple is the content itself.',
    'R7: ComposedNode.ayns._remove_node evaluated against the lookup contract: a missing path yields None without removing anything, an existing one removes (parent, last name), the node itself is refused.',
]
UNDECIDED = ['frame preservation and composition of several operators as data;', 'detaching a list *element* shifts its siblings (index arithmetic of detach-then-remerge; noted in DESIGN, not claimed).']
PREMERGE_EXEMPT = {'ClearNode.ayns.on_premerge_impl': 'returns the node it just emptied; self-merge of an empty container is a no-op'}


FETCH = ('get_node', 'remove_node', 'get_first_not_missing_node')
PNI = set(pathbase.NI) | {'extend', 'append', '_validate_index', 'map_nodes'}


def _premerge_paths(repo, fi):
    # a subclass that delegates to its base (`super().ayns.on_premerge_impl(...)`) is followed into the base implementation
    return tr.paths_of(repo, fi, no_inline=PNI - {'on_premerge_impl'}, follow_exceptions=True)


def _fetch_events(p):
    return [e for e in p.events if e.kind == 'call' and e.attr in FETCH and e.recv is not None and e.recv.text in ('into.ayns', 'into')]


def r1(repo, run):
    """on every path of a premerge implementation that returns a node fetched from the accumulated tree, the node has
    been detached from that tree at the same path (or emptied: !clear)"""
    n = 0
    for fi in repo.cha('on_premerge_impl', ayns=True):
        if 'into' not in fi.params():
            continue
        done = set()
        for p in _premerge_paths(repo, fi):
            if p.status != 'return' or p.ret is None:
                continue
            src = [e for e in _fetch_events(p) if e.result is not None and e.result.text == p.ret.text]
            if not src:
                continue
            e = src[-1]
            i = tr.index_of(p, e)
            fin = tr.final_event(p)
            key = e.args[0].text if e.args else None
            construct = 'return <%s>' % e.callee[:80]
            if e.attr == 'remove_node':
                verdict = ('ok', 'obtained by detaching it')
            elif any(x.kind == 'call' and x.attr == 'remove_node' and x.recv is not None and x.recv.text in ('into.ayns', 'into') and x.args and x.args[0].text == key for x in p.events):
                verdict = ('ok', 'into.ayns.remove_node(%s) precedes on this path' % key)
            elif any(x.kind == 'call' and x.attr == 'clear' and x.recv is not None and x.recv.text == p.ret.text for x in p.events[i:]):
                verdict = ('ok', 'the node was emptied first: self-merge of an empty container is a no-op (!clear)')
            else:
                verdict = ('bad', 'a node still attached to the accumulated tree is returned for merging: it is then merged with itself (and emptied / duplicated)')
            k = (id(e.node), verdict)
            if k in done:
                continue
            done.add(k)
            n += 1
            if verdict[0] == 'ok':
                run.ok('C16.R1', tr.where(fi, fin), construct, verdict[1])
            else:
                run.violation('C16.R1', tr.where(fi, fin), construct, verdict[1] + ' [path: %s]' % tr.describe(p, 5))
    if n < 3:
        raise AnalysisError('C16.R1: expected >= 3 premerge returns of fetched nodes (append, extend, prev), found %d' % n)


def _all_return(paths, fi, what):
    rets = [p for p in paths if p.status == 'return']
    if not rets:
        raise AnalysisError('%s: no returning path' % fi.qualname)
    return rets


def r2(repo, run):
    base = repo.func('ComposedNode.ayns.remove_child')
    key = base.params()[1]
    bad = None
    for p in _all_return(tr.paths_of(repo, base), base, 'remove_child'):
        pops = [e for e in p.events if tr.is_call(e, attr='pop', recv='self._children') and e.args and e.args[0].text == key]
        if not pops or p.ret is None or p.ret.text != pops[0].result.text:
            bad = p
    if bad is not None:
        run.violation('C16.R2', base, 'return %s' % (bad.ret.text[:60] if bad.ret is not None else None), 'the generic remove_child does not return the child popped under the requested name')
    else:
        run.ok('C16.R2', base, 'return self._children.pop(%s, None)' % key)
    dd = repo.func('ConfigDict._del')
    bad = None
    for p in _all_return(tr.paths_of(repo, dd, no_inline={'remove_child'}), dd, '_del'):
        rm = [e for e in p.events if e.kind == 'call' and e.attr == 'remove_child' and e.args and e.args[-1].text == dd.params()[1]]
        if not rm or p.ret is None or p.ret.text != rm[0].result.text:
            bad = p
    if bad is not None:
        run.violation('C16.R2', dd, 'return %s' % (bad.ret.text[:60] if bad.ret is not None else None), 'ConfigDict._del does not return the child removed under the requested name')
    else:
        run.ok('C16.R2', dd, 'returns ComposedNode.ayns.remove_child(self, %s)' % dd.params()[1])
    ld = repo.func('ConfigList._del')
    idx = ld.params()[1]
    lp = _all_return(tr.paths_of(repo, ld, no_inline={'remove_child', '_validate_index', '_get', '__getitem__'}), ld, '_del')
    verdicts = set()
    for p in lp:
        IDX = [idx] + [e.result.text for e in p.events if e.kind == 'call' and e.attr == '_validate_index' and e.args and e.args[0].text == idx]
        ret = p.ret.text if p.ret is not None else 'None'
        reads = ['list.__getitem__(self, %s)' % i for i in IDX] + ['self[%s]' % i for i in IDX] + ['self._children[%s]' % i for i in IDX] + ['self._get(%s)' % i for i in IDX]
        muts = [j for j, e in enumerate(p.events) if (e.kind == 'store' and e.target.startswith(('self[', 'del self'))) or
                (e.kind == 'call' and (e.callee in ('list.__delitem__', 'list.pop', 'list.__setitem__', 'self._children.pop') or e.attr == 'remove_child'))]
        shifting = any(e.kind == 'store' and e.target.startswith('self[') for e in p.events)
        if ret in reads:
            rd = [j for j, e in enumerate(p.events) if (e.kind in ('call', 'subscr')) and e.result is not None and e.result.text == ret]
            if rd and muts and rd[0] > muts[0]:
                verdicts.add(('bad', 'the element at the requested index is read after the elements were shifted'))
            else:
                verdicts.add(('ok', 'element at the requested index read before the elements are shifted'))
            continue
        rm = [e for e in p.events if e.kind == 'call' and (e.attr == 'remove_child' or e.callee in ('list.pop', 'self._children.pop')) and e.result is not None and e.result.text == ret]
        if rm:
            a = rm[0].args[-1].text if rm[0].args else None
            if a in IDX and not shifting:
                verdicts.add(('ok', 'removes and returns the element at the requested index directly'))
            elif a not in IDX:
                verdicts.add(('bad', 'returns the child stored under %s, not the one at the requested index %s: after shifting the elements down that is the former last element (`q: !prev l[0]` moves the wrong element)' % (a, idx)))
            else:
                verdicts.add(('bad', 'the returned value is not a pre-mutation read of the element at the requested index'))
            continue
        if ret == 'None':
            verdicts.add(('bad', 'ConfigList._del returns nothing: remove_child / remove_node lose the detached element'))
        else:
            raise AnalysisError('ConfigList._del: returned value %s not recognised' % ret[:60])
    for v in sorted(verdicts):
        if v[0] == 'ok':
            run.ok('C16.R2', ld, 'ConfigList._del return value', v[1])
        else:
            run.violation('C16.R2', ld, 'ConfigList._del return value', v[1])
    for q in ('ConfigDict.ayns.remove_child', 'ConfigList.ayns.remove_child'):
        f = repo.func(q)
        okk = True
        for p in _all_return(tr.paths_of(repo, f, no_inline={'_del'}), f, 'remove_child'):
            d = [e for e in p.events if tr.is_call(e, attr='_del', recv='self') and e.args and e.args[0].text == f.params()[1]]
            if not d or p.ret is None or p.ret.text != d[0].result.text:
                okk = False
        if okk:
            run.ok('C16.R2', f, 'return self._del(%s)' % f.params()[1])
        else:
            run.violation('C16.R2', f, q, '%s does not return self._del(<name>)' % q)
    # remove_node: the removal is dispatched to the parent's own remove_child and its result is handed back
    rn = repo.func('ComposedNode.ayns.remove_node')
    rp = tr.paths_of(repo, rn, no_inline={'get_node', 'remove_child'}, follow_exceptions=False)
    n = 0
    verdicts = set()
    for p in rp:
        gets = [e for e in p.events if e.kind == 'call' and e.attr == 'get_node']
        rms = [e for e in p.events if e.kind == 'call' and e.attr == 'remove_child']
        if p.status != 'return':
            continue
        if not rms:
            if gets and (tr.fact(p, gets[0].result.text + ' is None', True)):
                continue
            raise AnalysisError('remove_node: a completing path without a removal (%s)' % tr.describe(p, 4))
        n += 1
        e = rms[-1]
        N = gets[0].result.text if gets else None
        recv = e.recv.text if e.recv is not None else ''
        if N is None or not gets[0].kw.get('intermediate') or gets[0].kw['intermediate'].const is not True:
            raise AnalysisError('remove_node: lookup of the chain of nodes (get_node(..., intermediate=True)) not recognised')
        if p.ret is None or p.ret.text != e.result.text:
            verdicts.add(('bad', 'the removed child is not handed back to the caller'))
        elif recv == '%s[-2][0].ayns' % N and e.args and e.args[0].text == '%s[-1][1]' % N:
            verdicts.add(('ok', 'parent.ayns.remove_child(name): dynamic dispatch to the parent\'s own remove_child (updates both stores of dict/list parents)'))
        elif recv.split('.')[0] in repo.classes and e.args and e.args[0].text == '%s[-2][0]' % N:
            verdicts.add(('bad', 'remove_node removes through %s.remove_child: an explicit (base-class) function bypasses ConfigDict/ConfigList.remove_child, leaving the detached child in the built-in storage of its parent' % recv))
        elif N in recv and _re_index_only(recv, e.args[0].text if e.args else '', N):
            verdicts.add(('bad', 'the removal is applied to %s with %s, not to the parent of the addressed node with its name' % (recv[:60], e.args[0].text[:40] if e.args else None)))
        elif N in recv:
            # the chain is taken apart some other way (unpacking, helper): which node the removal is applied to is decided by
            # evaluation (unitrules.remove_node_table, C16.R7)
            verdicts.add(('ok', 'removal through the looked-up chain (operands decided by the evaluated table)'))
        else:
            raise AnalysisError('remove_node: removal call %s not recognised' % e.callee[:80])
    if not n:
        raise AnalysisError('remove_node: no removing path')
    for v in sorted(verdicts):
        (run.ok if v[0] == 'ok' else run.violation)('C16.R2', rn, 'remove_node dispatch', v[1])


def _re_index_only(recv, arg, N):
    """receiver and argument are plain constant subscripts of the looked-up chain (N[i][j].ayns / N[i][j]): a shape the rule can judge"""
    import re
    pat = re.escape(N) + r'(\[-?\d+\])+'
    return bool(re.fullmatch(pat + r'(\.ayns)?', recv)) and bool(re.fullmatch(pat, arg))


def r3(repo, run):
    for q, missing_raises in (('AppendNode.ayns.on_premerge_impl', True), ('ExtendNode.ayns.on_premerge_impl', False)):
        fi = repo.func(q)
        paths = _premerge_paths(repo, fi)
        verdicts = set()
        n_ext = 0
        for p in paths:
            first = tr.fact(p, 'into is None', True)
            fetched = [e.result.text for e in _fetch_events(p)]
            exts = [e for e in p.events if e.kind == 'call' and e.attr == 'extend']
            ret = p.ret.text if p.ret is not None else None
            if first:
                if p.status != 'return' or ret != 'ConfigList(self)':
                    verdicts.add(('bad', 'first-stage %s does not become a plain ConfigList(self)' % fi.cls.name))
                continue
            for e in exts:
                n_ext += 1
                recv = e.recv.text if e.recv is not None else ''
                pr_ = []
                if recv not in fetched:
                    pr_.append('receiver %s of extend is not the node fetched from the accumulated tree' % recv[:50])
                if len(e.args) != 1 or e.args[0].text != 'self':
                    pr_.append('argument of extend is %s, not the appended list itself (elements filtered, reordered or copied selectively)' % (e.args[0].text[:60] if e.args else None))
                if p.status == 'return' and ret != recv:
                    pr_.append('the grown older node is not what gets returned')
                verdicts.add(('bad', '; '.join(pr_)) if pr_ else ('ok', 'older list grows by the new elements in order; it is returned'))
            missing = [f for f in fetched if tr.fact(p, f + ' is None', True)] or [t for t, pol in p.facts if t.startswith('exception:') and 'KeyError' in t and pol]
            if missing_raises:
                if missing and p.status != 'raise':
                    verdicts.add(('bad', '!append does not fail when there is no previous list at its path'))
                elif missing:
                    verdicts.add(('ok', 'missing target: raises'))
            else:
                unext = [f for f in fetched if tr.fact(p, "hasattr(%s, 'extend')" % f, False)]
                if (missing or unext) and not exts:
                    if p.status != 'return' or ret != 'ConfigList(self)':
                        verdicts.add(('bad', '!extend does not silently become ConfigList(self) when the target is missing (KeyError) or cannot be extended'))
                    else:
                        verdicts.add(('ok', 'missing / non-extendable target: plain ConfigList(self)'))
            if not missing_raises and p.status == 'return' and ret == 'ConfigList(self)' and not first and \
                    any(x.kind == 'call' and x.attr == 'remove_node' and x.recv is not None and x.recv.text in ('into.ayns', 'into') for x in p.events):
                verdicts.add(('bad', '!extend falls back to a plain ConfigList(self) on a path that has already detached the target from the accumulated tree: the older value is lost although nothing was extended [%s]' % tr.describe(p, 4)))
            if p.status == 'return' and not exts and not first and not missing and not (not missing_raises and [f for f in fetched if tr.fact(p, "hasattr(%s, 'extend')" % f, False)]):
                verdicts.add(('bad', 'a path returns %s without growing the older list [%s]' % (ret[:40] if ret else None, tr.describe(p, 4))))
        if not n_ext and not any(v[0] == 'bad' for v in verdicts):
            raise AnalysisError('%s: <node>.extend(...) not recognised' % q)
        if missing_raises and not any(v == ('ok', 'missing target: raises') for v in verdicts) and not any(v[0] == 'bad' for v in verdicts):
            verdicts.add(('bad', '!append does not fail when there is no previous list at its path'))
        if not missing_raises and not any(v[1].startswith('missing / non-extendable') for v in verdicts) and not any(v[0] == 'bad' for v in verdicts):
            verdicts.add(('bad', '!extend does not silently become ConfigList(self) when the target is missing (KeyError) or cannot be extended'))
        for v in sorted(verdicts):
            (run.ok if v[0] == 'ok' else run.violation)('C16.R3', fi, fi.cls.name + ' premerge', v[1])
    pr.typed_lookups(repo, run, 'C16.R3', only={'AppendNode.ayns.on_premerge_impl', 'ExtendNode.ayns.on_premerge_impl', 'PrevNode.ayns.on_premerge_impl', 'ClearNode.ayns.on_premerge_impl'})
    pv = repo.func('PrevNode.ayns.on_premerge_impl')
    okv = None
    for p in _premerge_paths(repo, pv):
        for f in [e.result.text for e in _fetch_events(p)]:
            if tr.fact(p, f + ' is None', True):
                okv = (p.status == 'raise') if okv is not False else False
    if not okv:
        run.violation('C16.R3', pv, '!prev of a missing path', '!prev does not fail when the referenced path does not exist')
    else:
        run.ok('C16.R3', pv, 'missing target: raises KeyError')


def r3c(repo, run):
    """lookups that answer None for a missing node are tested with `is None`, never by truth value: the previous value of a path may
    be an empty list / mapping, 0, '', null or false and still has to be moved / extended"""
    from .. import shared
    n = 0
    for fi, t, name, lookup in shared.lookup_truthiness(repo):
        n += 1
        run.violation('C16.R3', fi, 'truth test of `%s` (result of %s)' % (name, lookup), 'the node found by %s is tested by truth value: a node that exists but is empty or holds 0 / \'\' / null / false is treated as missing (`q: !prev p` with `p: []` fails, an empty list is not extended)' % lookup, node=t)
    if not n:
        run.ok('C16.R3', repo.func('PrevNode.ayns.on_premerge_impl'), 'no lookup result is tested by truth value (package-wide)')


def r4(repo, run):
    fi = repo.func('ConfigList.extend')
    src = fi.params()[1]
    paths = tr.paths_of(repo, fi, no_inline={'append', '_set', 'set_child'}, follow_exceptions=False)
    verdict = None
    for p in paths:
        apps = [e for e in p.events if e.kind == 'call' and e.in_loop and (tr.is_call(e, attr='append', recv='self') or e.callee == 'list.append')]
        if not any(e.in_loop for e in p.events):
            continue
        if len(apps) != 1:
            raise AnalysisError('ConfigList.extend: one append per element not recognised')
        a = apps[0]
        if a.callee == 'list.append':
            verdict = ('bad', 'elements are appended to the built-in storage only (the child map is bypassed)')
        elif a.args and a.args[0].text in ('each(%s)' % src, 'each(iter(%s))' % src, 'each(list(%s))' % src):
            verdict = verdict or ('ok', 'every element appended in iteration order')
        elif a.args and any(k in a.args[0].text for k in ('reversed', 'sorted', 'set(', '[1:]', '[:-1]', 'filter')):
            verdict = ('bad', 'extend appends %s (elements may be dropped or reordered)' % a.args[0].text[:60])
        else:
            raise AnalysisError('ConfigList.extend: appended value %s not recognised' % (a.args[0].text[:60] if a.args else None))
        if p.facts and any('comprehension-filter' in t or src in t for t, _ in p.facts if 'each(' in t):
            verdict = ('bad', 'elements are appended conditionally (%s)' % tr.describe(p, 3))
    if verdict is None:
        raise AnalysisError('ConfigList.extend: loop of append not recognised')
    (run.ok if verdict[0] == 'ok' else run.violation)('C16.R4', fi, 'for val in %s: self.append(val)' % src, verdict[1] if verdict[0] == 'ok' else 'extend is not `for val in other: self.append(val)`: ' + verdict[1])
    ct.pairing(repo, run, 'C16.R4', classes=('ConfigList',), ops=['append', 'extend'])


def r5(repo, run):
    fi = repo.func('ComposedNode.ayns.on_premerge_impl')
    path, into = fi.params()[1], fi.params()[2]
    paths = tr.paths_of(repo, fi, no_inline=PNI, follow_exceptions=False)
    probs = set()
    n = 0
    for p in paths:
        if p.status != 'return':
            continue
        maps = [e for e in p.events if tr.is_call(e, attr='map_nodes', recv='self.ayns')]
        if not maps:
            if tr.fact(p, 'self._children', False) or tr.fact(p, 'len(self._children) == 0', True):
                continue
            probs.add('the container premerge is not an unconditional map over its children: operators (!append/!extend/!prev/!clear) below some containers are never pre-merged [path: %s]' % tr.describe(p, 4))
            continue
        n += 1
        e = maps[0]
        cb = e.args[0] if e.args else e.kw.get('map_fn')
        if cb is None or cb.closure is None:
            raise AnalysisError('on_premerge_impl: map callback not recognised')
        t, cps = Tracer(repo, no_inline=PNI, follow_exceptions=False).trace_closure(cb, heap=e.heap)
        cps_ = callback_params(t)
        for q in cps:
            want = '%s.ayns.on_premerge(%s, %s)' % (cps_[1], cps_[0], into)
            if q.status != 'return' or q.ret is None or q.ret.text != want:
                probs.add('children are not pre-merged with child.ayns.on_premerge(child_path, into) (callback returns %s)' % (q.ret.text[:60] if q.ret is not None else None))
        pfx = e.kw.get('prefix')
        if pfx is None or pfx.text != path:
            probs.add('child paths are not prefixed with the container path')
        lo, rec = e.kw.get('leafs_only'), e.kw.get('recurse')
        if lo is None or lo.const is not False or rec is None or rec.const is not False:
            probs.add('map must visit every direct child itself (leafs_only=False, recurse=False); deeper levels are reached by each child\'s own on_premerge')
        if p.ret is None or p.ret.text != e.result.text:
            probs.add('the result of the map is not returned')
    if not n and not probs:
        raise AnalysisError('on_premerge_impl: map over the children not recognised')
    if probs:
        for pr_ in sorted(probs):
            run.violation('C16.R5', fi, 'container premerge', pr_)
    else:
        run.ok('C16.R5', fi, 'self.ayns.map_nodes(child.on_premerge(child_path, into), prefix=path, leafs_only=False, recurse=False)', 'every child pre-merged at its own path')
    mn = repo.func('ComposedNode.ayns.map_nodes')
    mp = tr.paths_of(repo, mn, no_inline={'named_children', 'set_child', 'map_nodes'}, follow_exceptions=False)
    if not any(e.kind == 'call' and e.callee == 'self.ayns.named_children' for p in mp for e in p.events):
        raise AnalysisError('map_nodes does not iterate named_children()')
    run.ok('C16.R5', mn, 'map_nodes iterates self.ayns.named_children()')


def check(repo, run, tier):
    g = Guard()
    g(r1, repo, run)
    g(r2, repo, run)
    g(pr.no_unpacked_list_paths, repo, run, 'C16.R2b')
    g(r3, repo, run)
    g(r3c, repo, run)
    g(r4, repo, run)
    g(r5, repo, run)
    g(unitrules.list_operator_init, repo, run, 'C16.R6')
    g(unitrules.remove_node_table, repo, run, 'C16.R7')
    g(unitrules.tag_spec, repo, run, 'C16.R1', ['!append', '!extend', '!prev', '!clear'])
    g.done()


def mutants(repo):
    return [
        Mutant('clear-tag-builds-plain-node', lambda r: in_func(r, 'yaml._clear_constructor', "_make_node(loader, node, node_type=ClearNode)", "_make_node(loader, node)"), ['C16.R1']),
        Mutant('remove-node-strict-lookup', lambda r: in_func(r, 'ComposedNode.ayns._remove_node', "names=True, incomplete=None)", "names=True)"), ['C16.R7']),
        Mutant('append-wraps-sequences', lambda r: in_func(r, 'AppendNode.__init__', "if not isinstance(value, Sequence) or isinstance(value, str) or isinstance(value, bytes):", "if not (not isinstance(value, Sequence) or isinstance(value, str) or isinstance(value, bytes)):"), ['C16.R6']),
        Mutant('extend-does-not-detach', lambda r: in_func(r, 'ExtendNode.ayns.on_premerge_impl', "            into.ayns.remove_node(path)\n", ""), ['C16.R1']),
        Mutant('prev-copies-instead-of-moving', lambda r: in_func(r, 'PrevNode.ayns.on_premerge_impl', "node = into.ayns.remove_node(self)", "node = into.ayns.get_node(self)"), ['C16.R1']),
        Mutant('F14-reverted-list-del-returns-last', lambda r: in_func(r, 'ConfigList._del',
               "        ret = list.__getitem__(self, index)\n        for i in range(index+1, len(self)):\n            self[i-1] = self[i]\n\n        ComposedNode.ayns.remove_child(self, len(self) - 1)",
               "        for i in range(index+1, len(self)):\n            self[i-1] = self[i]\n\n        ret = ComposedNode.ayns.remove_child(self, len(self) - 1)"), ['C16.R2']),
        Mutant('remove_node-uses-base-remove_child', lambda r: in_func(r, 'ComposedNode.ayns.remove_node',
               "            def remove_fn(node, component):\n                return node.ayns.remove_child(component)\n\n            return ComposedNode.ayns._remove_node(self, remove_fn, *path)", "            return ComposedNode.ayns._remove_node(self, ComposedNode.ayns.remove_child, *path)"), ['C16.R2']),
        Mutant('extend-deduplicates', lambda r: in_func(r, 'ExtendNode.ayns.on_premerge_impl', "node.extend(self)", "node.extend([child for child in self if child not in node])"), ['C16.R3']),
        Mutant('append-prepends', lambda r: in_func(r, 'AppendNode.ayns.on_premerge_impl', "        node.extend(self)\n        return node", "        self.extend(node)\n        return self"), ['C16.R3']),
        Mutant('prev-existence-by-truth-value', lambda r: in_func(r, 'PrevNode.ayns.on_premerge_impl', "        if node is None:", "        if not node:"), ['C16.R3']),
        Mutant('append-missing-target-tolerated', lambda r: in_func(r, 'AppendNode.ayns.on_premerge_impl', "        if node is None:\n            raise KeyError(f'Node {path!r} does not exist in the previous context (possibly deleted?)')\n", "        if node is None:\n            return ConfigList(self)\n"), ['C16.R3']),
        Mutant('list-extend-reversed', lambda r: in_func(r, 'ConfigList.extend', "for val in other:", "for val in reversed(list(other)):"), ['C16.R4']),
        Mutant('premerge-skips-new-subtrees', lambda r: in_func(r, 'ComposedNode.ayns.on_premerge_impl', "            return self.ayns.map_nodes(lambda child_path, node: node.ayns.on_premerge(child_path, into)",
               "            if into is not None and path and into.ayns.get_node(path, incomplete=None) is None:\n                return self\n            return self.ayns.map_nodes(lambda child_path, node: node.ayns.on_premerge(child_path, into)"), ['C16.R5']),
        Mutant('neutral-append-local-name', lambda r: rename_local(r, 'AppendNode.ayns.on_premerge_impl', "node", "older"), neutral=True),
        Mutant('neutral-remove-node-callback-lambda', lambda r: in_func(r, 'ComposedNode.ayns.remove_node',
               "            def remove_fn(node, component):\n                return node.ayns.remove_child(component)\n\n            return ComposedNode.ayns._remove_node(self, remove_fn, *path)",
               "            return ComposedNode.ayns._remove_node(self, lambda parent, key: parent.ayns.remove_child(key), *path)"), neutral=True),
        Mutant('clear-forgets-to-empty', lambda r: in_func(r, 'ClearNode.ayns.on_premerge_impl', "        node.clear()\n", ""), ['C16.R1']),
        Mutant('extend-fallback-raises', lambda r: in_func(r, 'ExtendNode.ayns.on_premerge_impl', "        except KeyError:\n            return ConfigList(self)", "        except KeyError:\n            raise"), ['C16.R3']),
    ]
