"""C16 - !append / !extend / !prev move and grow existing content without loss."""
import ast

from .. import cfg as cfgmod
from ..mutate import Mutant, in_func, delete_stmt
from ..report import AnalysisError
from ..srcmodel import unparse, norm, walk_no_nested, calls_in
from .common import is_method_call, cfg_of, get_kw, recv_of, name_defs, find_stmt_node
from . import pathrules as pr
from . import containers as ct

PROP = 'C16'
DECIDED = [
    'R1: detach before re-merge: a premerge implementation that returns a node fetched from the accumulated tree has removed it from that tree on the same path (exception: !clear returns the node it just emptied).',
    'R2: remove_child returns the addressed child in all three implementations (base pop by the requested key; dict via _del; list: element read at the requested index before shifting); remove_node dispatches to the parent\'s own remove_child (not the base-class function), so dict/list parents update both stores.',
    'R3: direction and locality: !append/!extend call <fetched older node>.extend(self) with the appended list itself as argument and return the fetched node; lookups on the merge root use the node\'s own absolute path (path-base typing); !append raises when the target is missing, !extend falls back to a plain ConfigList(self).',
    'R4: ConfigList.extend appends every element in iteration order (loop of append).',
    'R5: the container premerge visits every child unconditionally: ComposedNode.on_premerge_impl is a single map_nodes over the direct children calling child.on_premerge(child_path, into).',
]
UNDECIDED = ['frame preservation and composition of several operators as data;', 'detaching a list *element* shifts its siblings (index arithmetic of detach-then-remerge; noted in DESIGN, not claimed).']
PREMERGE_EXEMPT = {'ClearNode.ayns.on_premerge_impl': 'returns the node it just emptied; self-merge of an empty container is a no-op'}


def r1(repo, run):
    n = 0
    for fi in repo.cha('on_premerge_impl', ayns=True):
        if 'into' not in fi.params():
            continue
        g = cfg_of(fi)
        fetched = {}
        for s in walk_no_nested(fi.node):
            if isinstance(s, ast.Assign) and isinstance(s.targets[0], ast.Name) and isinstance(s.value, ast.Call) and is_method_call(s.value, recv='into', member=('get_node', 'remove_node', 'get_first_not_missing_node'), ayns=True):
                fetched[s.targets[0].id] = s.value
        for r in walk_no_nested(fi.node):
            if isinstance(r, ast.Return) and isinstance(r.value, ast.Name) and r.value.id in fetched:
                n += 1
                src = fetched[r.value.id]
                where = (fi.file, r.lineno, fi.qualname)
                if src.func.attr == 'remove_node':
                    run.ok('C16.R1', where, 'return %s  [%s]' % (r.value.id, unparse(src)), 'obtained by detaching it')
                    continue
                if fi.qualname in PREMERGE_EXEMPT:
                    run.ok('C16.R1', where, 'return %s  [%s]' % (r.value.id, unparse(src)), 'table: ' + PREMERGE_EXEMPT[fi.qualname])
                    continue
                node = [x for x in g.nodes if x.ast is r][0]
                key = norm(src.args[0]) if src.args else None
                seen, _ = cfgmod.must_have_seen(g, lambda c: is_method_call(c, recv='into', member='remove_node', ayns=True) and c.args and norm(c.args[0]) == key)
                if seen[node.id]:
                    run.ok('C16.R1', where, 'return %s  [%s]' % (r.value.id, unparse(src)), 'into.ayns.remove_node(%s) precedes on every path' % key)
                else:
                    run.violation('C16.R1', fi, 'return %s  [%s]' % (r.value.id, unparse(src)), 'a node still attached to the accumulated tree is returned for merging: it is then merged with itself (and emptied / duplicated)', node=r)
    if n < 3:
        raise AnalysisError('C16.R1: expected >= 3 premerge returns of fetched nodes (append, extend, prev), found %d' % n)


def r2(repo, run):
    base = repo.func('ComposedNode.ayns.remove_child')
    key = base.params()[1]
    rets = [s for s in walk_no_nested(base.node) if isinstance(s, ast.Return)]
    d = name_defs(base, norm(rets[0].value)) if rets and isinstance(rets[0].value, ast.Name) else []
    src = d[0][1] if d else (rets[0].value if rets else None)
    if not (isinstance(src, ast.Call) and norm(src.func) == 'self._children.pop' and norm(src.args[0]) == key):
        run.violation('C16.R2', base, norm(rets[0]) if rets else 'remove_child', 'the generic remove_child does not return the child popped under the requested name')
    else:
        run.ok('C16.R2', base, 'return self._children.pop(%s, None)' % key)
    dd = repo.func('ConfigDict._del')
    rets = [s for s in walk_no_nested(dd.node) if isinstance(s, ast.Return)]
    d = name_defs(dd, norm(rets[0].value)) if rets and isinstance(rets[0].value, ast.Name) else []
    if not d or not is_method_call(d[0][1], recv='ComposedNode', member='remove_child', ayns=True) or norm(d[0][1].args[1]) != dd.params()[1]:
        run.violation('C16.R2', dd, norm(rets[0]) if rets else '_del', 'ConfigDict._del does not return the child removed under the requested name')
    else:
        run.ok('C16.R2', dd, 'ret = ComposedNode.ayns.remove_child(self, %s); ...; return ret' % dd.params()[1])
    ld = repo.func('ConfigList._del')
    idx = ld.params()[1]
    rets = [s for s in walk_no_nested(ld.node) if isinstance(s, ast.Return)]
    if len(rets) != 1 or not isinstance(rets[0].value, ast.Name):
        raise AnalysisError('ConfigList._del: single `return <name>` not recognised')
    d = name_defs(ld, rets[0].value.id)
    if len(d) != 1:
        raise AnalysisError('ConfigList._del: returned name has %d definitions' % len(d))
    src, st = d[0][1], d[0][2]
    first_mut = min([s.lineno for s in walk_no_nested(ld.node) if isinstance(s, (ast.For, ast.Delete)) or (isinstance(s, ast.Expr) and isinstance(s.value, ast.Call) and norm(s.value.func) in ('list.__delitem__', 'ComposedNode.ayns.remove_child', 'list.pop'))] or [10 ** 9])
    reads_req = norm(src) in ('list.__getitem__(self, %s)' % idx, 'self[%s]' % idx, 'self._children[%s]' % idx, 'self._get(%s)' % idx)
    if reads_req and st.lineno < first_mut:
        run.ok('C16.R2', (ld.file, st.lineno, ld.qualname), norm(st), 'element at the requested index read before the elements are shifted')
    elif isinstance(src, ast.Call) and is_method_call(src, recv='ComposedNode', member='remove_child', ayns=True) and norm(src.args[1]) != idx:
        run.violation('C16.R2', ld, norm(st), 'returns the child stored under %s, not the one at the requested index %s: after shifting the elements down that is the former last element (`q: !prev l[0]` moves the wrong element)' % (norm(src.args[1]), idx), node=st)
    elif isinstance(src, ast.Call) and (is_method_call(src, recv='ComposedNode', member='remove_child', ayns=True) or norm(src.func) in ('list.pop', 'self._children.pop')) and norm(src.args[-1]) == idx and not any(isinstance(s, ast.For) for s in walk_no_nested(ld.node)):
        run.ok('C16.R2', (ld.file, st.lineno, ld.qualname), norm(st), 'removes and returns the element at the requested index directly')
    else:
        run.violation('C16.R2', ld, norm(st), 'the returned value is not a pre-mutation read of the element at the requested index', node=st)
    for q in ('ConfigDict.ayns.remove_child', 'ConfigList.ayns.remove_child'):
        f = repo.func(q)
        if [norm(s) for s in f.node.body] != ['return self._del(%s)' % f.params()[1]]:
            run.violation('C16.R2', f, norm(f.node.body[-1]), '%s does not return self._del(<name>)' % q)
        else:
            run.ok('C16.R2', f, 'return self._del(%s)' % f.params()[1])
    rn = repo.func('ComposedNode.ayns.remove_node')
    inner = rn.nested()
    call = [c for c in calls_in(rn.node) if norm(c.func) == 'ComposedNode.ayns._remove_node']
    if len(call) != 1 or len(call[0].args) < 2:
        raise AnalysisError('remove_node: delegation to _remove_node not recognised')
    fnarg = call[0].args[1]
    if isinstance(fnarg, ast.Name) and fnarg.id in inner:
        cb = inner[fnarg.id]
        body = [norm(s) for s in cb.node.body]
        p0, p1 = cb.params()[0], cb.params()[1]
        if body == ['return %s.ayns.remove_child(%s)' % (p0, p1)]:
            run.ok('C16.R2', cb, body[0], 'dynamic dispatch to the parent\'s own remove_child (updates both stores of dict/list parents)')
        else:
            run.violation('C16.R2', cb, ' ; '.join(body), 'the removal callback does not dispatch to the parent\'s own remove_child')
    else:
        run.violation('C16.R2', rn, unparse(call[0]), 'remove_node removes through %s: an explicit (base-class) function bypasses ConfigDict/ConfigList.remove_child, leaving the detached child in the built-in storage of its parent' % norm(fnarg), node=call[0])
    rmn = repo.func('ComposedNode.ayns._remove_node')
    last = rmn.node.body[-1]
    if norm(last) != 'return remove_fn(parent, name)':
        raise AnalysisError('_remove_node: `return remove_fn(parent, name)` not recognised')
    run.ok('C16.R2', rmn, norm(last), 'removal result handed back unchanged')


def r3(repo, run):
    for q, missing_raises in (('AppendNode.ayns.on_premerge_impl', True), ('ExtendNode.ayns.on_premerge_impl', False)):
        fi = repo.func(q)
        exts = [c for c in calls_in(fi.node) if isinstance(c.func, ast.Attribute) and c.func.attr == 'extend']
        if len(exts) != 1:
            raise AnalysisError('%s: single <node>.extend(...) not recognised' % q)
        c = exts[0]
        recv = norm(c.func.value)
        d = name_defs(fi, recv)
        from_into = d and isinstance(d[0][1], ast.Call) and is_method_call(d[0][1], recv='into', ayns=True)
        probs = []
        if not from_into:
            probs.append('receiver %s of extend is not the node fetched from the accumulated tree' % recv)
        if len(c.args) != 1 or norm(c.args[0]) != 'self':
            probs.append('argument of extend is %s, not the appended list itself (elements filtered, reordered or copied selectively)' % (norm(c.args[0]) if c.args else None))
        rets = [r for r in walk_no_nested(fi.node) if isinstance(r, ast.Return) and r.lineno > c.lineno]
        if not rets or norm(rets[0].value) != recv:
            probs.append('the grown older node is not what gets returned')
        if probs:
            run.violation('C16.R3', fi, unparse(c), '; '.join(probs), node=c)
        else:
            run.ok('C16.R3', (fi.file, c.lineno, fi.qualname), unparse(c), 'older list grows by the new elements in order; it is returned')
        # into is None -> plain list
        first = [s for s in fi.node.body if isinstance(s, ast.If) and norm(s.test) == 'into is None']
        if not first or norm(first[0].body[-1]) != 'return ConfigList(self)':
            run.violation('C16.R3', fi, 'if into is None', 'first-stage %s does not become a plain ConfigList(self)' % fi.cls.name)
        if missing_raises:
            g = [s for s in walk_no_nested(fi.node) if isinstance(s, ast.If) and norm(s.test) == '%s is None' % recv and any(isinstance(b, ast.Raise) for b in s.body)]
            if not g or g[0].lineno > c.lineno:
                run.violation('C16.R3', fi, 'missing target of !append', '!append does not fail when there is no previous list at its path')
            else:
                run.ok('C16.R3', (fi.file, g[0].lineno, fi.qualname), 'if %s is None: raise KeyError' % recv)
        else:
            tr = [s for s in walk_no_nested(fi.node) if isinstance(s, ast.Try)]
            okf = tr and any(h.type is not None and 'KeyError' in norm(h.type) and norm(h.body[-1]) == 'return ConfigList(self)' for h in tr[0].handlers)
            fall = norm(fi.node.body[-1]) == 'return ConfigList(self)'
            guard = [s for s in walk_no_nested(fi.node) if isinstance(s, ast.If) and norm(s.test) == "hasattr(%s, 'extend')" % recv]
            if not okf or not fall or not guard:
                run.violation('C16.R3', fi, '!extend fallbacks', '!extend does not silently become ConfigList(self) when the target is missing (KeyError) or cannot be extended')
            else:
                run.ok('C16.R3', (fi.file, tr[0].lineno, fi.qualname), 'except KeyError: return ConfigList(self); no extend(): return ConfigList(self)')
    pr.typed_lookups(repo, run, 'C16.R3', only={'AppendNode.ayns.on_premerge_impl', 'ExtendNode.ayns.on_premerge_impl', 'PrevNode.ayns.on_premerge_impl', 'ClearNode.ayns.on_premerge_impl'})
    pv = repo.func('PrevNode.ayns.on_premerge_impl')
    g = [s for s in walk_no_nested(pv.node) if isinstance(s, ast.If) and norm(s.test).endswith('is None') and any(isinstance(b, ast.Raise) for b in s.body)]
    if not g:
        run.violation('C16.R3', pv, '!prev of a missing path', '!prev does not fail when the referenced path does not exist')
    else:
        run.ok('C16.R3', (pv.file, g[0].lineno, pv.qualname), 'if node is None: raise KeyError')


def r4(repo, run):
    fi = repo.func('ConfigList.extend')
    body = [s for s in fi.node.body if not (isinstance(s, ast.Expr) and isinstance(s.value, ast.Constant))]
    ok = len(body) == 1 and isinstance(body[0], ast.For) and norm(body[0].iter) == fi.params()[1] and len(body[0].body) == 1 and norm(body[0].body[0]) == 'self.append(%s)' % norm(body[0].target)
    if ok:
        run.ok('C16.R4', fi, norm(body[0]), 'every element appended in iteration order')
    else:
        run.violation('C16.R4', fi, norm(fi.node)[:160], 'extend is not `for val in other: self.append(val)` (elements may be dropped, reordered or bypass the child map)')
    ct.pairing(repo, run, 'C16.R4', classes=('ConfigList',), ops=['append', 'extend'])


def r5(repo, run):
    fi = repo.func('ComposedNode.ayns.on_premerge_impl')
    body = [s for s in fi.node.body if not (isinstance(s, ast.Expr) and isinstance(s.value, ast.Constant))]
    path, into = fi.params()[1], fi.params()[2]
    if len(body) != 1 or not isinstance(body[0], ast.Return) or not is_method_call(body[0].value, recv='self', member='map_nodes', ayns=True):
        extra = [norm(s)[:80] for s in body[:-1]]
        run.violation('C16.R5', fi, ' ; '.join(extra) or norm(body[0])[:120], 'the container premerge is not an unconditional map over its children: operators (!append/!extend/!prev/!clear) below some containers are never pre-merged', node=body[0])
        return
    c = body[0].value
    lam = c.args[0] if c.args else None
    probs = []
    if not isinstance(lam, ast.Lambda) or norm(lam.body) != '%s.ayns.on_premerge(%s, %s)' % (lam.args.args[1].arg, lam.args.args[0].arg, into):
        probs.append('children are not pre-merged with child.ayns.on_premerge(child_path, into)')
    kws = {k.arg: norm(k.value) for k in c.keywords}
    if kws.get('prefix') != path:
        probs.append('child paths are not prefixed with the container path')
    if kws.get('leafs_only') != 'False' or kws.get('recurse') != 'False':
        probs.append('map must visit every direct child itself (leafs_only=False, recurse=False); deeper levels are reached by each child\'s own on_premerge')
    if probs:
        run.violation('C16.R5', fi, unparse(c)[:160], '; '.join(probs), node=c)
    else:
        run.ok('C16.R5', fi, unparse(c)[:160], 'every child pre-merged at its own path')
    mn = repo.func('ComposedNode.ayns.map_nodes')
    loops = [s for s in walk_no_nested(mn.node) if isinstance(s, ast.For) and norm(s.iter) == 'self.ayns.named_children()']
    if not loops:
        raise AnalysisError('map_nodes does not iterate named_children()')
    run.ok('C16.R5', mn, 'map_nodes iterates self.ayns.named_children()')


def check(repo, run, tier):
    r1(repo, run)
    r2(repo, run)
    r3(repo, run)
    r4(repo, run)
    r5(repo, run)


def mutants(repo):
    return [
        Mutant('extend-does-not-detach', lambda r: in_func(r, 'ExtendNode.ayns.on_premerge_impl', "            into.ayns.remove_node(path)\n", ""), ['C16.R1']),
        Mutant('prev-copies-instead-of-moving', lambda r: in_func(r, 'PrevNode.ayns.on_premerge_impl', "node = into.ayns.remove_node(self)", "node = into.ayns.get_node(self)"), ['C16.R1']),
        Mutant('F14-reverted-list-del-returns-last', lambda r: in_func(r, 'ConfigList._del',
               "        ret = list.__getitem__(self, index)\n        for i in range(index+1, len(self)):\n            self[i-1] = self[i]\n\n        ComposedNode.ayns.remove_child(self, len(self) - 1)",
               "        for i in range(index+1, len(self)):\n            self[i-1] = self[i]\n\n        ret = ComposedNode.ayns.remove_child(self, len(self) - 1)"), ['C16.R2']),
        Mutant('remove_node-uses-base-remove_child', lambda r: in_func(r, 'ComposedNode.ayns.remove_node',
               "            def remove_fn(node, component):\n                return node.ayns.remove_child(component)\n\n            return ComposedNode.ayns._remove_node(self, remove_fn, *path)", "            return ComposedNode.ayns._remove_node(self, ComposedNode.ayns.remove_child, *path)"), ['C16.R2']),
        Mutant('extend-deduplicates', lambda r: in_func(r, 'ExtendNode.ayns.on_premerge_impl', "node.extend(self)", "node.extend([child for child in self if child not in node])"), ['C16.R3']),
        Mutant('append-prepends', lambda r: in_func(r, 'AppendNode.ayns.on_premerge_impl', "        node.extend(self)\n        return node", "        self.extend(node)\n        return self"), ['C16.R3']),
        Mutant('append-missing-target-tolerated', lambda r: in_func(r, 'AppendNode.ayns.on_premerge_impl', "        if node is None:\n            raise KeyError(f'Node {path!r} does not exist in the previous context (possibly deleted?)')\n", "        if node is None:\n            return ConfigList(self)\n"), ['C16.R3']),
        Mutant('list-extend-reversed', lambda r: in_func(r, 'ConfigList.extend', "for val in other:", "for val in reversed(list(other)):"), ['C16.R4']),
        Mutant('premerge-skips-new-subtrees', lambda r: in_func(r, 'ComposedNode.ayns.on_premerge_impl', "            return self.ayns.map_nodes(lambda child_path, node: node.ayns.on_premerge(child_path, into)",
               "            if into is not None and path and into.ayns.get_node(path, incomplete=None) is None:\n                return self\n            return self.ayns.map_nodes(lambda child_path, node: node.ayns.on_premerge(child_path, into)"), ['C16.R5']),
        Mutant('neutral-append-local-name', lambda r: in_func(r, 'AppendNode.ayns.on_premerge_impl', "node", "older", None), neutral=True),
    ]
