"""Rules about the merge machinery shared by C02, C03, C04, C05, C08, C13 and C15.
Every function takes the rule id under which it reports, so that each property records its own obligations."""
import ast

from .. import cfg as cfgmod
from ..fde import FDE, Obj, Opaque
from ..report import AnalysisError
from ..srcmodel import unparse, norm, walk_no_nested, calls_in, fold_const
from .common import (cfg_of, node_obj, is_method_call, F3, PRIOS, product_dicts, fde_guard, facts_at,
                     find_stmt_node, get_kw, recv_of, name_defs)


def P(v):
    return 0 if v is None else v


# ---------------------------------------------------------------------------------------------------
def has_priority_over_table(repo, run, rule):
    fi = repo.func('ConfigNode.ayns.has_priority_over')
    bad = []
    rows = 0
    for a in PRIOS:
        for b in PRIOS:
            for ie in (False, True):
                me, ot = node_obj('self', _priority=a), node_obj('other', _priority=b)
                f = FDE(repo)
                r = fde_guard(lambda: f.call(fi, me, ot, if_equal=ie))
                rows += 1
                exp = ie if P(a) == P(b) else P(a) > P(b)
                if r.raised or bool(r.ret) != exp:
                    bad.append((a, b, ie, r.ret, r.raised))
    run.table(rule, rows, 'has_priority_over(self.priority, other.priority, if_equal) over {None,-1,0,1}^2 x {F,T}')
    if bad:
        a, b, ie, got, rz = bad[0]
        run.violation(rule, fi, 'has_priority_over truth table',
                      'priority %r over %r (if_equal=%r) gives %r%s; expected %r' % (a, b, ie, got, ' raises ' + rz if rz else '', ie if P(a) == P(b) else P(a) > P(b)), witness=bad[:6])
    else:
        run.ok(rule, fi, 'has_priority_over truth table (%d rows)' % rows, 'greater->True, less->False, equal->if_equal; None = STANDARD')
    for c in repo.subclasses('ConfigNode', strict=True):
        t = repo.resolve(c, 'has_priority_over', ayns=True)
        if t is not fi:
            run.violation(rule, t, 'override of has_priority_over in %s' % c, 'priority comparison overridden')
    # defaults
    owner, e = repo.class_attr('ConfigNode', '_default_priority')
    ok, v = fold_const(repo, e, owner) if e is not None else (False, None)
    consts = {n: fold_const(repo, repo.classes['ConfigNode'].attrs[n], 'ConfigNode')[1] for n in ('WEAK', 'STANDARD', 'FORCE') if n in repo.classes['ConfigNode'].attrs}
    if not ok or v != 0 or consts != {'WEAK': -1, 'STANDARD': 0, 'FORCE': 1}:
        run.violation(rule, ('awesomeyaml/nodes/node.py', 0, 'ConfigNode'), 'priority constants', 'WEAK/STANDARD/FORCE/_default_priority = %s / %s (expected -1/0/1, default 0)' % (consts, v))
    else:
        run.ok(rule, ('awesomeyaml/nodes/node.py', 0, 'ConfigNode'), 'WEAK < STANDARD < FORCE, default STANDARD')


def leaf_winner_table(repo, run, rule):
    fi = repo.func('ConfigNode.ayns.on_merge_impl')
    bad = []
    rows = 0
    for a in PRIOS:
        for b in PRIOS:
            me, ot = node_obj('self', _priority=a), node_obj('other', _priority=b)
            f = FDE(repo, stubs={'_replace_self', '_replace_other'})
            r = fde_guard(lambda: f.call(fi, me, ot and 'p', ot) if False else f.call(fi, me, 'p', ot))
            rows += 1
            exp = 'self' if P(a) > P(b) else 'other'
            calls = [e for e in r.effects if e[0] == 'call']
            got = getattr(r.ret, 'name', r.ret)
            okc = len(calls) == 1 and calls[0][1] == '_replace_other' and getattr(calls[0][2], 'name', None) == exp and \
                len(calls[0][3]) >= 1 and getattr(calls[0][3][0], 'name', None) == ('other' if exp == 'self' else 'self')
            if got != exp or not okc:
                bad.append((a, b, got, [(c[1], getattr(c[2], 'name', None)) for c in calls]))
    run.table(rule, rows, 'leaf on_merge_impl: returned node and _replace_* call over {None,-1,0,1}^2')
    if bad:
        a, b, got, calls = bad[0]
        run.violation(rule, fi, 'leaf merge winner table',
                      'older priority %r, newer %r: returns %s with calls %s; expected the %s node to survive via winner._replace_other(loser)' % (a, b, got, calls, 'older' if P(a) > P(b) else 'newer'), witness=bad[:6])
    else:
        run.ok(rule, fi, 'leaf merge winner table (%d rows)' % rows, 'older survives iff strictly higher priority; newer wins ties')


def composed_tail(repo):
    """the final priority decision of ComposedNode.ayns.on_merge_impl (last top-level If calling _replace_*)"""
    fi = repo.func('ComposedNode.ayns.on_merge_impl')
    cand = [s for s in fi.node.body if isinstance(s, ast.If) and '_replace_self' in unparse(s) and '_replace_other' in unparse(s)]
    if not cand:
        raise AnalysisError('ComposedNode.ayns.on_merge_impl: final _replace_self/_replace_other decision not found')
    return fi, cand[-1]


def composed_winner_table(repo, run, rule):
    fi, stmt = composed_tail(repo)
    bad = []
    rows = 0
    for a in PRIOS:
        for b in PRIOS:
            me, ot = node_obj('self', 'ComposedNode', _priority=a), node_obj('other', 'ComposedNode', _priority=b)
            f = FDE(repo, stubs={'_replace_self', '_replace_other'})
            f.effects = []
            fde_guard(lambda: f._run([stmt], {'self': me, 'other': ot, 'path': 'p'}, fi))
            rows += 1
            calls = [e for e in f.effects if e[0] == 'call']
            exp = '_replace_self' if P(b) >= P(a) else '_replace_other'
            if len(calls) != 1 or calls[0][1] != exp or getattr(calls[0][2], 'name', None) != 'self' or getattr(calls[0][3][0], 'name', None) != 'other':
                bad.append((a, b, [(c[1], getattr(c[2], 'name', None)) for c in calls], exp))
    run.table(rule, rows, 'container merge tail: which of self._replace_self/_replace_other(other) runs')
    if bad:
        a, b, calls, exp = bad[0]
        run.violation(rule, fi, 'container merge: final _replace_self/_replace_other decision',
                      'older priority %r, newer %r: calls %s, expected self.%s(other)' % (a, b, calls, exp), node=stmt, witness=bad[:6])
    else:
        run.ok(rule, (fi.file, stmt.lineno, fi.qualname), 'container merge tail table (%d rows)' % rows, 'self adopts other iff p(other) >= p(self)')


def function_node_priority_calls(repo, run, rule):
    fi = repo.func('FunctionNode.ayns.on_merge_impl')
    n = 0
    for c in calls_in(fi.node):
        if is_method_call(c, member='has_priority_over', ayns=True):
            n += 1
            ie = get_kw(c, 'if_equal')
            ok = unparse(recv_of(c)) == 'other' and c.args and unparse(c.args[0]) == 'self' and isinstance(ie, ast.Constant) and ie.value is True
            if ok:
                run.ok(rule, (fi.file, c.lineno, fi.qualname), unparse(c), 'newer node wins ties')
            else:
                run.violation(rule, fi, unparse(c), 'function-node merge must let the newer node win on equal priority (other over self, if_equal=True)', node=c)
    if n < 2:
        raise AnalysisError('FunctionNode.on_merge_impl: expected two priority tests (string and target branches), found %d' % n)


def survivor_fields(repo, run, rule):
    rs = repo.func('ConfigNode._replace_self')
    ro = repo.func('ConfigNode._replace_other')
    bad = []
    for a in PRIOS:
        for b in PRIOS:
            for fi in (rs, ro):
                me, ot = node_obj('self', _priority=a), node_obj('other', _priority=b)
                f = FDE(repo)
                fde_guard(lambda: f.call(fi, me, ot, allow_promotions=False))
                exp = b if fi is rs else a
                if me.f['_priority'] != exp:
                    bad.append((fi.name, a, b, me.f['_priority']))
    if bad:
        n, a, b, got = bad[0]
        run.violation(rule, rs if n == '_replace_self' else ro, '%s priority of the survivor' % n,
                      'self._priority=%r, other._priority=%r leaves %r (expected %r)' % (a, b, got, b if n == '_replace_self' else a), witness=bad[:6])
    else:
        run.ok(rule, rs, '_replace_self adopts other._priority; _replace_other keeps its own (32 rows)')
    # metadata spread order
    for fi, winner in ((rs, 'other'), (ro, 'self')):
        me, ot = node_obj('self'), node_obj('other')
        f = FDE(repo)
        fde_guard(lambda: f.call(fi, me, ot, allow_promotions=False))
        md = me.f['_metadata']
        okk = isinstance(md, tuple) and md[0] == 'dictdisplay' and len(md[1]) == 2 and all(p[0] == 'spread' for p in md[1])
        if not okk:
            run.violation(rule, fi, '%s metadata' % fi.name, 'metadata of the survivor is not built by spreading both operands (%r)' % (md,))
            continue
        names = [getattr(p[1], 'name', None) for p in md[1]]
        expect = ['md_self', 'md_other'] if winner == 'other' else ['md_other', 'md_self']
        if names != expect:
            run.violation(rule, fi, '%s metadata spread order' % fi.name, 'spreads %s; the winner (%s) must be spread last and both operands must be present' % (names, winner))
        else:
            run.ok(rule, fi, '%s: metadata = {**loser, **winner}' % fi.name, 'no key lost, winner (%s) overrides' % winner)


def inheritance_reach(repo, run, rule):
    """C03.R4: fields assigned to an already-built child in the adopt branch are pushed to all descendants"""
    m = repo.module('node')
    inh = m.globals.get('_kwargs_to_inherit')
    ok, names = fold_const(repo, inh) if inh is not None else (False, None)
    if not ok:
        raise AnalysisError('_kwargs_to_inherit is not a literal list')
    mc = repo.func('ConfigNodeMeta.__call__')
    adopt = None
    for s in walk_no_nested(mc.node):
        if isinstance(s, ast.If) and norm(s.test) == 'isinstance(value, ConfigNode)':
            adopt = s
    if adopt is None:
        raise AnalysisError('adopt branch `if isinstance(value, ConfigNode)` not found in ConfigNodeMeta.__call__')
    # generic assignment of every inherited kwarg present
    assigns_all = any(isinstance(c.func, ast.Name) and c.func.id == 'setattr' and unparse(c.args[0]) == 'value' for c in calls_in(ast.Module(body=adopt.body, type_ignores=[])))
    if not assigns_all:
        raise AnalysisError('adopt branch no longer assigns inherited kwargs via setattr(value, ...)')
    pushed = {}
    for c in calls_in(ast.Module(body=adopt.body, type_ignores=[])):
        if isinstance(c.func, ast.Attribute) and unparse(c.func.value) == 'value' and not c.args:
            meth = c.func.attr
            impl = repo.resolve('ComposedNode', meth)
            leaf = repo.resolve('ConfigNode', meth)
            if impl is None or leaf is None:
                continue
            fields = _pushed_fields(impl, meth)
            for fl in fields:
                pushed[fl] = (meth, c)
    for n in names:
        if n == 'pyyaml_node':
            run.ok(rule, mc, 'inherited kwarg pyyaml_node', 'exempt: diagnostic only (error marks)')
            continue
        fld = '_' + n
        if fld in pushed:
            run.ok(rule, (mc.file, pushed[fld][1].lineno, mc.qualname), 'inherited kwarg %s' % n, 'pushed to all descendants by value.%s()' % pushed[fld][0])
        else:
            run.violation(rule, mc, 'adoption of inherited kwarg %s' % n,
                          'the adopt branch assigns %s on the adopted child only; nothing propagates it to the child\'s own descendants, so a tag on a container stops one level down' % fld, node=adopt)
    return names


def _pushed_fields(impl, meth):
    """fields that ComposedNode.<meth> assigns on every child (loop over self._children.values()) and
    recurses with child.<meth>()"""
    out = set()
    for loop in walk_no_nested(impl.node):
        if not isinstance(loop, ast.For):
            continue
        it = norm(loop.iter)
        if it not in ('self._children.values()', 'self.ayns.children()', 'self._children.items()'):
            continue
        child = loop.target.id if isinstance(loop.target, ast.Name) else (loop.target.elts[-1].id if isinstance(loop.target, ast.Tuple) else None)
        recurses = any(isinstance(c.func, ast.Attribute) and c.func.attr == meth and unparse(c.func.value) == child for c in calls_in(loop))
        if not recurses:
            continue
        for s in ast.walk(loop):
            if isinstance(s, ast.Assign):
                for t in s.targets:
                    if isinstance(t, ast.Attribute) and unparse(t.value) == child:
                        out.add(t.attr)
    return out


def node_local_kwargs(repo, run, rule, inherit_names):
    fi = repo.func('ComposedNode.__init__')
    popped = set()
    for c in calls_in(fi.node):
        if is_method_call(c, recv='kwargs', member='pop') and c.args and isinstance(c.args[0], ast.Constant):
            popped.add(c.args[0].value)
    need = {'delete', 'allow_new', 'safe', 'metadata'}
    clash = popped & (set(inherit_names) | {'source_file'})
    if clash:
        run.violation(rule, fi, 'kwargs.pop(%s)' % sorted(clash), 'inheritable constructor arguments %s are removed before the children are built, so they never reach children built from raw values' % sorted(clash))
    elif not need <= popped:
        run.violation(rule, fi, 'node-local kwargs', 'node-local arguments %s are passed on to every child as if they were written on it' % sorted(need - popped))
    else:
        run.ok(rule, fi, 'node-local kwargs removed before children are built: %s' % sorted(popped), 'disjoint from inheritable %s' % sorted(inherit_names))
    # children are built with the remaining kwargs + _get_child_kwargs
    src = unparse(fi.node)
    if 'kwargs.update(self._get_child_kwargs())' not in src.replace(' ', '').replace('kwargs.update(self._get_child_kwargs())', 'kwargs.update(self._get_child_kwargs())') and '_get_child_kwargs' not in src:
        run.violation(rule, fi, 'children kwargs', 'children are not built with the implicit flags of the container (_get_child_kwargs)')


# ---------------------------------------------------------------------------------------------------
def flatten_fold(repo, run, rule):
    """C02.R1 left fold over all stages in Builder.flatten"""
    fi = repo.func('Builder.flatten')
    loops = [s for s in fi.node.body if isinstance(s, (ast.For, ast.While))]
    fold = None
    for lp in loops:
        if isinstance(lp, ast.For) and any(is_method_call(c, member='merge', ayns=True) for c in calls_in(lp)):
            fold = lp
    if fold is None:
        raise AnalysisError('Builder.flatten: fold loop (for ... acc = acc.ayns.merge(stage)) not recognised')
    body = [s for s in fold.body if not (isinstance(s, ast.Expr) and isinstance(s.value, ast.Constant))]
    if len(body) != 1 or not isinstance(body[0], ast.Assign) or not isinstance(body[0].value, ast.Call):
        raise AnalysisError('Builder.flatten: fold body is not a single assignment `acc = acc.ayns.merge(x)`')
    asg = body[0]
    call = asg.value
    acc = asg.targets[0].id if isinstance(asg.targets[0], ast.Name) else None
    recv = unparse(recv_of(call)) if is_method_call(call, member='merge', ayns=True) else None
    arg = call.args[0] if call.args else None
    problems = []
    if acc is None or recv != acc:
        problems.append('the accumulator is not the receiver of merge (%s = %s)' % (unparse(asg.targets[0]), unparse(call)))
    # iteration space
    it = fold.iter
    tgt = unparse(fold.target)
    stages = 'self.stages'
    elem_ok = False
    if isinstance(it, ast.Call) and unparse(it.func) == 'range':
        a = [unparse(x) for x in it.args]
        if a == ['1', 'len(%s)' % stages]:
            elem_ok = arg is not None and norm(arg) == '%s[%s]' % (stages, tgt)
            if not elem_ok:
                problems.append('merged element is %s, not %s[%s]' % (unparse(arg), stages, tgt))
        else:
            problems.append('fold visits range(%s) instead of range(1, len(self.stages))' % ', '.join(a))
    elif norm(it) == stages + '[1:]':
        elem_ok = arg is not None and norm(arg) == tgt
        if not elem_ok:
            problems.append('merged element is %s, not the loop variable' % unparse(arg))
    else:
        if any(k in norm(it) for k in ('reversed', 'sorted', '[::-1]', '[2:]', '[:-1]')):
            problems.append('fold iterates %s (not every later stage in order)' % norm(it))
        else:
            raise AnalysisError('Builder.flatten: iteration space %s not recognised' % norm(it))
    # accumulator initialised from stages[0] before the loop
    init = [d for d in name_defs(fi, acc or '')] if acc else []
    init0 = [d for d in init if d[0] == 'assign' and d[2].lineno < fold.lineno]
    if not init0 or norm(init0[-1][1]) != stages + '[0]':
        problems.append('accumulator is not initialised with self.stages[0] (%s)' % (norm(init0[-1][1]) if init0 else 'no initialisation'))
    # result replaces stages
    after = [s for s in fi.node.body if s.lineno > fold.lineno]
    if not any(isinstance(s, ast.Assign) and norm(s.targets[0]) == stages and norm(s.value) == '[%s]' % acc for s in after):
        problems.append('the folded result does not replace self.stages')
    if problems:
        run.violation(rule, fi, 'fold over stages: ' + norm(fold)[:200], '; '.join(problems), node=fold)
    else:
        run.ok(rule, (fi.file, fold.lineno, fi.qualname), norm(fold)[:160], 'left fold: acc=stages[0]; acc=acc.merge(stage_i) for i=1..n-1; stages=[acc]')
    # merge(): premerge then on_merge with an empty path
    mg = repo.func('ConfigNode.ayns.merge')
    src = [norm(s) for s in mg.node.body]
    if not any(s == 'other.ayns.premerge(self)' for s in src) or not any(s == 'return self.ayns.on_merge(NodePath(), other)' for s in src):
        raise AnalysisError('ConfigNode.ayns.merge: shape `other.ayns.premerge(self); return self.ayns.on_merge(NodePath(), other)` not recognised')
    run.ok(rule, mg, 'merge(other): other.premerge(self) then self.on_merge(NodePath(), other)')


def _key_loop(repo):
    fi = repo.func('ComposedNode.ayns.on_merge_impl')
    loops = [s for s in fi.node.body if isinstance(s, ast.For) and 'on_merge' in unparse(s)]
    if len(loops) != 1:
        raise AnalysisError('ComposedNode.ayns.on_merge_impl: key loop not recognised (%d candidates)' % len(loops))
    return fi, loops[0]


def key_loop_paths(repo, run, rule, rule_new=None):
    """C02.R2 / C08.R1: every key of the newer mapping lands; attachments are preceded by the new-path check"""
    fi, loop = _key_loop(repo)
    it = norm(loop.iter)
    if it not in ('other._children.items()', 'other.ayns.named_children()'):
        if any(k in it for k in ('reversed', 'sorted', '[', 'filter', ' if ')):
            run.violation(rule, fi, 'for ... in ' + it, 'the key loop does not visit every child of the newer mapping in order', node=loop)
        else:
            raise AnalysisError('key loop iterates %s (not recognised)' % it)
    if not (isinstance(loop.target, ast.Tuple) and len(loop.target.elts) == 2):
        raise AnalysisError('key loop target not (key, value)')
    key, value = [e.id for e in loop.target.elts]
    wrapper = ast.FunctionDef(name='_body', args=ast.arguments(posonlyargs=[], args=[], kwonlyargs=[], kw_defaults=[], defaults=[]),
                              body=loop.body, decorator_list=[], lineno=loop.lineno, col_offset=0)
    g = cfgmod.build(wrapper)
    paths = cfgmod.enumerate_paths(g, follow_exc=False)
    n = 0
    for p in paths:
        if p[-1][0] is not g.exit:
            continue
        n += 1
        facts = set()
        actions = []
        checked = set()     # names on which _require_all_new(path + [key]) was called
        merged_from = {}    # name -> receiver of on_merge
        for node, label in p:
            if node.kind == 'test' and label in ('true', 'false'):
                facts |= cfgmod.cond_facts(node.ast, label == 'true')
            for c in node.calls():
                if is_method_call(c, member='_require_all_new', ayns=True):
                    r = unparse(recv_of(c))
                    if c.args and norm(c.args[0]) == 'path + [%s]' % key:
                        checked.add((r, unparse(get_kw(c, 'include_self')) if get_kw(c, 'include_self') is not None else 'True'))
                if is_method_call(c, recv='self', member='set_child', ayns=True):
                    actions.append(('set', norm(c.args[0]), norm(c.args[1]), c))
                if is_method_call(c, recv='self', member='remove_child', ayns=True):
                    actions.append(('remove', norm(c.args[0]), None, c))
            if node.kind == 'stmt' and isinstance(node.ast, ast.Assign) and isinstance(node.ast.value, ast.Call) and \
                    is_method_call(node.ast.value, member='on_merge', ayns=True) and isinstance(node.ast.targets[0], ast.Name):
                mc = node.ast.value
                merged_from[node.ast.targets[0].id] = (unparse(recv_of(mc)), norm(mc.args[0]) if mc.args else None, norm(mc.args[1]) if len(mc.args) > 1 else None)
        desc = 'path[%s]' % ' & '.join('%s%s' % ('' if pol else 'not ', t) for t, pol in sorted(facts))[:200]
        child_name = None
        for d in name_defs(fi, 'child'):
            child_name = 'child'
        # classify
        if len(actions) > 1:
            run.violation(rule, fi, desc, 'more than one mutation of the older mapping for one key: %s' % [a[:3] for a in actions], node=actions[0][3])
            continue
        if not actions:
            kept = [m for m in merged_from if ('%s is %s' % (m, merged_from[m][0]), True) in facts or ('%s is %s' % (merged_from[m][0], m), True) in facts]
            if kept:
                run.ok(rule, (fi.file, loop.lineno, fi.qualname), desc, 'in-place merge result kept (%s is the existing child)' % kept[0])
            else:
                run.violation(rule, fi, desc, 'a key of the newer mapping is neither attached, merged in place nor removed on this path', node=loop)
            continue
        kind, k, v, call = actions[0]
        if k != key:
            run.violation(rule, fi, desc, '%s_child is applied to %s, not to the loop key %s' % (kind, k, key), node=call)
            continue
        if kind == 'remove':
            okd = any(t.endswith('.ayns.explicit_delete') and pol for t, pol in facts)
            if okd:
                run.ok(rule, (fi.file, call.lineno, fi.qualname), desc, 'removal only under an explicit delete flag')
            else:
                run.violation(rule, fi, desc, 'a key of the older mapping is removed on a path without an explicit delete flag of the newer node', node=call)
            continue
        # set
        if v == value and ('child is None', True) in facts:
            src = 'newer value attached under a new key'
            if rule_new:
                if (value, 'True') in checked:
                    run.ok(rule_new, (fi.file, call.lineno, fi.qualname), 'set_child(%s, %s) [new key]' % (key, value), '%s.ayns._require_all_new(path + [%s]) precedes' % (value, key))
                else:
                    run.violation(rule_new, fi, 'set_child(%s, %s) [new key]' % (key, value), 'newer content is attached under a key that did not exist without the new-path check on it', node=call)
            run.ok(rule, (fi.file, call.lineno, fi.qualname), desc, src)
        elif v in merged_from and merged_from[v][1] == 'path + [%s]' % key and merged_from[v][2] == value:
            run.ok(rule, (fi.file, call.lineno, fi.qualname), desc, 'merge result of child.on_merge(path+[key], value) attached')
            if rule_new:
                composed = ('isinstance(child, ComposedNode)', True) in facts or ('merge', True) in facts
                if composed:
                    run.ok(rule_new, (fi.file, call.lineno, fi.qualname), 'set_child(%s, %s) [container merged recursively]' % (key, v), 'recursion checks its own attachments')
                elif any(r == v for r, inc in checked):
                    run.ok(rule_new, (fi.file, call.lineno, fi.qualname), 'set_child(%s, %s) [leaf replaced]' % (key, v), '%s.ayns._require_all_new(path + [%s], include_self=False) precedes' % (v, key))
                else:
                    run.violation(rule_new, fi, 'set_child(%s, %s) [leaf replaced]' % (key, v), 'a replaced leaf brings new content without the new-path check below it', node=call)
        else:
            run.violation(rule, fi, desc, 'set_child(%s, %s): attached value is neither the newer value (new key) nor the result of merging the existing child with it' % (k, v), node=call)
    if n < 5:
        raise AnalysisError('key loop: only %d normal paths enumerated (expected >= 5)' % n)
    # recursion passes path + [key]
    for c in calls_in(loop):
        if is_method_call(c, member='on_merge', ayns=True):
            if not c.args or norm(c.args[0]) != 'path + [%s]' % key or norm(c.args[1]) != value or unparse(recv_of(c)) != 'child':
                run.violation(rule, fi, unparse(c), 'recursive merge must be child.on_merge(path + [key], value)', node=c)


def removal_guards(repo, run, rule):
    """C02.R3 / C04.R4: nothing is removed from the older tree without a delete flag"""
    fi = repo.func('ComposedNode.ayns.on_merge_impl')
    g = cfg_of(fi)
    n = 0
    for node in g.stmt_nodes():
        for c in node.calls():
            if is_method_call(c, recv='self', member=('remove_child', 'filter_nodes', 'clear', 'remove_node'), ayns=True) or \
                    is_method_call(c, recv='self', member=('clear', 'pop', 'popitem'), ayns=False) or \
                    (is_method_call(c, member=('clear', 'pop')) and unparse(recv_of(c)) == 'self._children'):
                n += 1
                facts = facts_at(g, node)
                ok = any((t == 'other.ayns.delete' and pol) or (t.endswith('.ayns.explicit_delete') and pol) for t, pol in facts)
                if ok:
                    run.ok(rule, (fi.file, c.lineno, fi.qualname), unparse(c)[:100], 'control-dependent on a delete flag of the newer node')
                else:
                    run.violation(rule, fi, unparse(c), 'removal from the older tree that is not control-dependent on other.ayns.delete / explicit_delete (facts: %s)' % sorted(facts)[:4], node=c)
    if n < 3:
        raise AnalysisError('removal guards: expected >= 3 removal sites in ComposedNode.on_merge_impl, found %d' % n)
    # list pre-filter: filters the *newer* tree, keeps every non-deleting node
    li = repo.func('ConfigList.ayns.on_merge_impl')
    cb = li.nested().get('keep_if_exists')
    filt = [c for c in calls_in(li.node) if is_method_call(c, member='filter_nodes', ayns=True)]
    if cb is None or len(filt) != 1:
        raise AnalysisError('ConfigList.on_merge_impl: pre-filter keep_if_exists / filter_nodes call not recognised')
    c = filt[0]
    if unparse(recv_of(c)) == 'self':
        run.violation(rule, li, unparse(c), 'the list pre-filter prunes the older list', node=c)
    first = cb.node.body[0]
    okf = isinstance(first, ast.If) and norm(first.test) == 'not node.ayns.delete' and len(first.body) == 1 and norm(first.body[0]) == 'return True'
    if okf:
        run.ok(rule, cb, 'keep_if_exists: `if not node.ayns.delete: return True` first', 'non-deleting nodes of the newer list are always kept')
    else:
        run.violation(rule, cb, norm(first)[:120], 'the pre-filter callback may drop non-deleting nodes (it must return True for them first thing)', node=first)


def strictness(repo, run, rule):
    """C04.R3: protecting comparison is strict; replacement comparisons let the newer node win ties"""
    fi = repo.func('ComposedNode.ayns.on_merge_impl')
    mk = fi.nested().get('maybe_keep')
    if mk is None:
        raise AnalysisError('maybe_keep callback not found')
    rets = [s for s in walk_no_nested(mk.node) if isinstance(s, ast.Return)]
    if len(rets) != 1 or not isinstance(rets[0].value, ast.Call) or not is_method_call(rets[0].value, member='has_priority_over', ayns=True):
        raise AnalysisError('maybe_keep does not end in `return node.ayns.has_priority_over(other_node)`')
    c = rets[0].value
    ie = get_kw(c, 'if_equal')
    strict = (ie is None and len(c.args) == 1) or (isinstance(ie, ast.Constant) and ie.value is False)
    params = mk.params()
    if unparse(recv_of(c)) != params[1]:
        run.violation(rule, mk, unparse(c), 'the protecting comparison must ask whether the *older* node outranks the newer one', node=c)
    elif not strict:
        run.violation(rule, mk, unparse(c), 'an older entry survives a deleting node on *equal* priority (comparison must be strict)', node=c)
    else:
        run.ok(rule, (mk.file, c.lineno, mk.qualname), unparse(c), 'older entry kept only on strictly higher priority')
    # wholesale replacement test and list pre-filter use if_equal=True for the newer node
    sites = []
    for s in walk_no_nested(fi.node):
        if isinstance(s, ast.If) and 'not self._children' in norm(s.test):
            for c2 in calls_in(s.test):
                if is_method_call(c2, member='has_priority_over', ayns=True):
                    sites.append((fi, c2, 'other', 'self'))
    li = repo.func('ConfigList.ayns.on_merge_impl')
    cb = li.nested().get('keep_if_exists')
    if cb is not None:
        for c2 in calls_in(cb.node):
            if is_method_call(c2, member='has_priority_over', ayns=True):
                sites.append((cb, c2, cb.params()[1], None))
    if len(sites) < 2:
        raise AnalysisError('replacement comparisons not found (got %d)' % len(sites))
    for f2, c2, recv, arg in sites:
        ie = get_kw(c2, 'if_equal')
        ok = unparse(recv_of(c2)) == recv and isinstance(ie, ast.Constant) and ie.value is True
        if ok:
            run.ok(rule, (f2.file, c2.lineno, f2.qualname), unparse(c2), 'newer node replaces on equal priority')
        else:
            run.violation(rule, f2, unparse(c2), 'replacement by the newer node must win ties (newer over older, if_equal=True)', node=c2)


def delete_resolution(repo, run, rule):
    """C04.R2: ayns.delete = explicit, else inherited, else type default; type defaults"""
    getter = repo.func('ConfigNode.ayns.delete')
    bad = []
    rows = 0
    for cls, dflt in (('ConfigDict', False), ('ConfigList', True), ('FunctionNode', True), ('ConfigNode', False)):
        for d in F3:
            for i in F3:
                o = node_obj('n', cls, _delete=d, _implicit_delete=i)
                f = FDE(repo)
                v = fde_guard(lambda: f.getter(o, 'delete'))
                rows += 1
                exp = d if d is not None else (i if i is not None else dflt)
                if v is not exp:
                    bad.append((cls, d, i, v, exp))
    run.table(rule, rows, 'ayns.delete over (_delete,_implicit_delete) x {ConfigDict,ConfigList,FunctionNode,ConfigNode}')
    if bad:
        cls, d, i, v, exp = bad[0]
        run.violation(rule, getter, 'ayns.delete resolution table', '%s with explicit=%r inherited=%r resolves to %r (expected %r)' % (cls, d, i, v, exp), witness=bad[:6])
    else:
        run.ok(rule, getter, 'ayns.delete resolution table (%d rows)' % rows, 'explicit > inherited > type default (list/function True, mapping False)')
    for c in repo.subclasses('ConfigNode', strict=True):
        t = repo.resolve(c, 'delete', ayns=True)
        if t is not getter:
            run.violation(rule, t, 'override of ayns.delete in %s' % c, 'delete resolution overridden')


def child_kwargs_keys(repo, run, rule):
    """what a container hands to a child it adopts (set_child, reconstruction): the implicit_* channel only"""
    gk = repo.func('ComposedNode._get_child_kwargs')
    keys = set()
    for s in ast.walk(gk.node):
        if isinstance(s, ast.Assign) and isinstance(s.targets[0], ast.Subscript) and norm(s.targets[0].value) == 'ret' and isinstance(s.targets[0].slice, ast.Constant):
            keys.add(s.targets[0].slice.value)
        if isinstance(s, ast.Dict) and s.keys:
            keys |= {k.value for k in s.keys if isinstance(k, ast.Constant)}
    want = {'implicit_delete', 'implicit_allow_new', 'implicit_safe'}
    extra = keys - want
    if extra:
        run.violation(rule, gk, '_get_child_kwargs keys %s' % sorted(keys), 'adopted / re-attached children are given %s by the container: every set_child during a merge (and reconstruction by copy/pickle) overwrites state that belongs to the child' % sorted(extra))
    elif keys != want:
        run.violation(rule, gk, '_get_child_kwargs keys %s' % sorted(keys), 'implicit flags %s are no longer handed to adopted children' % sorted(want - keys))
    else:
        run.ok(rule, gk, '_get_child_kwargs hands out exactly implicit_delete / implicit_allow_new / implicit_safe')


def propagation_table(repo, run, rule, flag):
    """inherited flags reach the children: for a container without an explicit <flag> whose inherited
    <flag> is v (not None), _propagate_implicit_values leaves every child with implicit <flag> == v
    (safe: an already-False child stays False), whatever the other explicit / inherited flags are, and
    recurses into a child whose flags changed."""
    fi = repo.func('ComposedNode._propagate_implicit_values')
    flags = ['delete', 'allow_new', 'safe']
    others = [f for f in flags if f != flag]
    bad = []
    rows = 0
    for exp in product_dicts(**{'_' + f: F3 for f in others}):
        for v in (True, False):
            for oi in product_dicts(**{'_implicit_' + f: F3 for f in others}):
                for cv in F3:
                    child = node_obj('child', 'ConfigNode', **{'_implicit_' + flag: cv})
                    before = dict(child.f)
                    parent = node_obj('parent', 'ComposedNode', _children={'k': child}, **{'_' + flag: None, '_implicit_' + flag: v}, **exp, **oi)
                    f = FDE(repo)
                    r = fde_guard(lambda: f.call(fi, parent))
                    rows += 1
                    got = child.f['_implicit_' + flag]
                    want = v if not (flag == 'safe' and cv is False) else False
                    if got is not want:
                        bad.append((dict(exp), v, dict(oi), cv, got, want))
                    changed = any(child.f[k] != before[k] for k in before if k.startswith('_implicit_'))
                    rec = any(e[0] == 'call' and e[1] == '_propagate_implicit_values' and getattr(e[2], 'name', None) == 'child' for e in r.effects)
                    if changed and not rec:
                        bad.append(('no recursion into changed child', dict(exp), v, cv))
    run.table(rule + ':propagate:' + flag, rows, '_propagate_implicit_values: parent explicit others x inherited %s x other inherited x child inherited %s' % (flag, flag))
    if bad:
        b = bad[0]
        if b[0] == 'no recursion into changed child':
            msg = 'a child whose inherited flags changed is not propagated into (%s)' % (b[1:],)
        else:
            msg = 'container with explicit flags %s, no explicit %s and inherited %s=%r (other inherited %s): child inherited %s %r stays/becomes %r, expected %r - the inherited flag does not reach the descendants' % (b[0], flag, flag, b[1], b[2], flag, b[3], b[4], b[5])
        run.violation(rule, fi, '_propagate_implicit_values / ' + flag, msg, witness=bad[:5])
    else:
        run.ok(rule, fi, '_propagate_implicit_values hands inherited %s to children (%d rows)' % (flag, rows), 'independent of other explicit flags; recursion on change')


def promotion_table(repo, run, rule):
    """type promotion of the surviving container (_maybe_promote): for every ordered pair of node classes the more
    specific kind survives and its content is taken from the winner (self) with the conversion matching the two
    built-in bases; decided from the source with the class relations of the parsed tree."""
    fi = repo.func('ConfigNode._maybe_promote')
    classes = [c for c in repo.subclasses('ConfigDict') + repo.subclasses('ConfigList')]
    classes += ['ConfigNode', 'RequiredNode', 'ClearNode']

    def kind(c):
        m_ = repo.mro(c)
        return 'list' if 'list' in m_ else ('dict' if 'dict' in m_ else None)
    bad = []
    rows = 0
    for S in classes:
        for O in classes:
            me, ot = node_obj('self', S), node_obj('other', O)
            f = FDE(repo, stubs={'clear', 'extend', 'update', '_propagate_implicit_values'})
            r = fde_guard(lambda: f.call(fi, me, ot))
            rows += 1
            calls = [(e[1], getattr(e[2], 'name', None), tuple(getattr(a, 'name', repr(a)) for a in e[3])) for e in r.effects if e[0] == 'call']
            composed = repo.is_subclass(S, 'ComposedNode') and repo.is_subclass(O, 'ComposedNode')
            plain = lambda c: c in ('ConfigDict', 'ConfigList')
            if S == O or not composed:
                want_other = False
            elif repo.is_subclass(O, S):
                want_other = True
            elif repo.is_subclass(S, O):
                want_other = False
            else:
                want_other = plain(S) and not plain(O)
            got_other = getattr(r.ret, 'name', None) == 'other'
            if got_other != want_other:
                bad.append((S, O, 'returns %s, expected %s' % (getattr(r.ret, 'name', r.ret), 'other (the more specific kind)' if want_other else 'self')))
                continue
            if not want_other:
                if calls:
                    bad.append((S, O, 'mutates although nothing is promoted: %s' % calls))
                continue
            # content transfer
            same_kind = kind(S) == kind(O)
            if kind(O) == 'list':
                want_arg = 'self' if same_kind else 'self.values()'
                want = [('clear', 'other', ()), ('extend', 'other', (want_arg,)), ('__dict__.update', 'other', ('self',))]
            else:
                want_arg = 'self' if same_kind else 'enumerate(self)'
                want = [('clear', 'other', ()), ('update', 'other', (want_arg,)), ('__dict__.update', 'other', ('self',))]
            if calls != want:
                bad.append((S, O, 'promotion performs %s, expected %s' % (calls, want)))
    run.table(rule, rows, '_maybe_promote over %d x %d node classes' % (len(classes), len(classes)))
    if bad:
        S, O, why = bad[0]
        run.violation(rule, fi, '_maybe_promote(%s <- %s)' % (S, O), 'winner of kind %s replacing a node of kind %s: %s [%d of %d pairs]' % (S, O, why, len(bad), rows), witness=bad[:6])
    else:
        run.ok(rule, fi, '_maybe_promote decision + content-transfer table (%d class pairs)' % rows, 'more specific kind survives, emptied and refilled from the winner with the conversion matching both built-in bases, attributes copied')
