"""Rules about the merge machinery shared by C02, C03, C04, C05, C08, C13 and C15.
Every function takes the rule id under which it reports, so that each property records its own obligations."""
import ast

from .. import cfg as cfgmod
from ..fde import FDE, Obj, Opaque
from ..report import AnalysisError
from ..srcmodel import unparse, norm, walk_no_nested, calls_in, fold_const
from . import mergetrace as mt
from .common import (cfg_of, node_obj, is_method_call, F3, PRIOS, product_dicts, fde_guard, facts_at,
                     find_stmt_node, get_kw, recv_of, name_defs)


def P(v):
    return 0 if v is None else v


# ---------------------------------------------------------------------------------------------------
def has_priority_over_table(repo, run, rule):
    fi = repo.func('ConfigNode.ayns.has_priority_over')
    bad = []
    rows = 0
    for a in PRIOS:
        for b in PRIOS:
            for ie in (False, True):
                me, ot = node_obj('self', _priority=a), node_obj('other', _priority=b)
                f = FDE(repo)
                r = fde_guard(lambda: f.call(fi, me, ot, if_equal=ie))
                rows += 1
                exp = ie if P(a) == P(b) else P(a) > P(b)
                if r.raised or bool(r.ret) != exp:
                    bad.append((a, b, ie, r.ret, r.raised))
    run.table(rule, rows, 'has_priority_over(self.priority, other.priority, if_equal) over {None,-1,0,1}^2 x {F,T}')
    if bad:
        a, b, ie, got, rz = bad[0]
        run.violation(rule, fi, 'has_priority_over truth table',
                      'priority %r over %r (if_equal=%r) gives %r%s; expected %r' % (a, b, ie, got, ' raises ' + rz if rz else '', ie if P(a) == P(b) else P(a) > P(b)), witness=bad[:6])
    else:
        run.ok(rule, fi, 'has_priority_over truth table (%d rows)' % rows, 'greater->True, less->False, equal->if_equal; None = STANDARD')
    for c in repo.subclasses('ConfigNode', strict=True):
        t = repo.resolve(c, 'has_priority_over', ayns=True)
        if t is not fi:
            run.violation(rule, t, 'override of has_priority_over in %s' % c, 'priority comparison overridden')
    # defaults
    owner, e = repo.class_attr('ConfigNode', '_default_priority')
    ok, v = fold_const(repo, e, owner) if e is not None else (False, None)
    consts = {n: fold_const(repo, repo.classes['ConfigNode'].attrs[n], 'ConfigNode')[1] for n in ('WEAK', 'STANDARD', 'FORCE') if n in repo.classes['ConfigNode'].attrs}
    if not ok or v != 0 or consts != {'WEAK': -1, 'STANDARD': 0, 'FORCE': 1}:
        run.violation(rule, ('awesomeyaml/nodes/node.py', 0, 'ConfigNode'), 'priority constants', 'WEAK/STANDARD/FORCE/_default_priority = %s / %s (expected -1/0/1, default 0)' % (consts, v))
    else:
        run.ok(rule, ('awesomeyaml/nodes/node.py', 0, 'ConfigNode'), 'WEAK < STANDARD < FORCE, default STANDARD')


def leaf_winner_table(repo, run, rule):
    fi = repo.func('ConfigNode.ayns.on_merge_impl')
    bad = []
    rows = 0
    # the decision may depend on the two priorities only: a tie-break computed from the operands makes "latest among equals"
    # depend on node content
    from . import tr
    for p in tr.paths_of(repo, fi, no_inline=set(mt.NI), follow_exceptions=False):
        for e in p.events:
            if e.kind == 'call' and e.attr == 'has_priority_over':
                ie = e.kw.get('if_equal') or (e.args[1] if len(e.args) > 1 else None)
                if ie is not None and ie.const not in (True, False):
                    run.violation(rule, tr.where(fi, e), 'leaf merge: ' + e.callee[:60], 'on equal priorities the winner depends on %s, not only on which node is newer (e.g. an overriding value that compares equal but has another type is dropped)' % ie.text[:60])
                    return
    # the leaf rule is evaluated for plain nodes and for scalar nodes holding equal / different values (hooks that a leaf class
    # overrides are resolved through the class of the operands)
    kinds = [('ConfigNode', {}, {})]
    if 'ConfigScalar' in repo.classes:
        kinds += [('ConfigScalar', {'_fde_payload': 1}, {'_fde_payload': 1}), ('ConfigScalar', {'_fde_payload': 1}, {'_fde_payload': True}), ('ConfigScalar', {'_fde_payload': 1}, {'_fde_payload': 1.0}), ('ConfigScalar', {'_fde_payload': 'a'}, {'_fde_payload': 'b'})]
    for cls_, fa, fb in kinds:
      for a in PRIOS:
        for b in PRIOS:
            me, ot = node_obj('self', cls_, _priority=a, **fa), node_obj('other', cls_, _priority=b, **fb)
            # (scalar operands are plain scalars of a built-in type: ConfigScalar(int), ConfigScalar(bool))
            f = FDE(repo, stubs={'_replace_self', '_replace_other', '_is_primary_type_dynamic'}, stub=lambda n, recv, a_, k_: True if n == '_is_primary_type_dynamic' else None)
            r = fde_guard(lambda: f.call(fi, me, 'p', ot))
            rows += 1
            exp = 'self' if P(a) > P(b) else 'other'
            calls = [e for e in r.effects if e[0] == 'call' and e[1] != '_is_primary_type_dynamic']
            got = getattr(r.ret, 'name', r.ret)
            okc = len(calls) == 1 and calls[0][1] == '_replace_other' and getattr(calls[0][2], 'name', None) == exp and \
                len(calls[0][3]) >= 1 and getattr(calls[0][3][0], 'name', None) == ('other' if exp == 'self' else 'self')
            if got != exp or not okc:
                bad.append((a, b, got, [(c[1], getattr(c[2], 'name', None)) for c in calls]))
    run.table(rule, rows, 'leaf on_merge_impl: returned node and _replace_* call over {None,-1,0,1}^2')
    if bad:
        a, b, got, calls = bad[0]
        run.violation(rule, fi, 'leaf merge winner table',
                      'older priority %r, newer %r: returns %s with calls %s; expected the %s node to survive via winner._replace_other(loser)' % (a, b, got, calls, 'older' if P(a) > P(b) else 'newer'), witness=bad[:6])
    else:
        run.ok(rule, fi, 'leaf merge winner table (%d rows)' % rows, 'older survives iff strictly higher priority; newer wins ties')


def composed_winner_table(repo, run, rule):
    mt.tail_decision(repo, run, rule)


def key_loop_paths(repo, run, rule, rule_new=None):
    mt.key_loop(repo, run, rule, rule_new)


def removal_guards(repo, run, rule):
    mt.removal_guards(repo, run, rule)


def strictness(repo, run, rule):
    mt.strictness(repo, run, rule)


def function_node_priority_calls(repo, run, rule):
    mt.function_node_decisions(repo, run, rule)


def survivor_fields(repo, run, rule):
    rs = repo.func('ConfigNode._replace_self')
    ro = repo.func('ConfigNode._replace_other')
    bad = []
    for a in PRIOS:
        for b in PRIOS:
            for fi in (rs, ro):
                me, ot = node_obj('self', _priority=a), node_obj('other', _priority=b)
                f = FDE(repo)
                fde_guard(lambda: f.call(fi, me, ot, allow_promotions=False))
                exp = b if fi is rs else a
                if me.f['_priority'] != exp:
                    bad.append((fi.name, a, b, me.f['_priority']))
    if bad:
        n, a, b, got = bad[0]
        run.violation(rule, rs if n == '_replace_self' else ro, '%s priority of the survivor' % n,
                      'self._priority=%r, other._priority=%r leaves %r (expected %r)' % (a, b, got, b if n == '_replace_self' else a), witness=bad[:6])
    else:
        run.ok(rule, rs, '_replace_self adopts other._priority; _replace_other keeps its own (32 rows)')
    # metadata spread order
    for fi, winner in ((rs, 'other'), (ro, 'self')):
        me, ot = node_obj('self'), node_obj('other')
        f = FDE(repo)
        fde_guard(lambda: f.call(fi, me, ot, allow_promotions=False))
        md = me.f['_metadata']
        okk = isinstance(md, tuple) and md[0] == 'dictdisplay' and len(md[1]) == 2 and all(p[0] == 'spread' for p in md[1])
        if not okk:
            run.violation(rule, fi, '%s metadata' % fi.name, 'metadata of the survivor is not built by spreading both operands (%r)' % (md,))
            continue
        names = [getattr(p[1], 'name', None) for p in md[1]]
        expect = ['md_self', 'md_other'] if winner == 'other' else ['md_other', 'md_self']
        if names != expect:
            run.violation(rule, fi, '%s metadata spread order' % fi.name, 'spreads %s; the winner (%s) must be spread last and both operands must be present' % (names, winner))
        else:
            run.ok(rule, fi, '%s: metadata = {**loser, **winner}' % fi.name, 'no key lost, winner (%s) overrides' % winner)


def inheritance_reach(repo, run, rule):
    """C03.R4: a field handed to an already-built child on adoption reaches all of its descendants.  Evaluated:
    (a) ConfigNode(<existing container>, <name>=v) through the metaclass call: the container is returned, its field
    is v, and a propagation method is invoked on it; (b) that method, evaluated on a container with a child, leaves
    the child with the same field value and recurses into it."""
    m = repo.module('node')
    inh = m.globals.get('_kwargs_to_inherit')
    ok, names = fold_const(repo, inh) if inh is not None else (False, None)
    if not ok:
        raise AnalysisError('_kwargs_to_inherit is not a literal list')
    mc = repo.func('ConfigNodeMeta.__call__')
    for n in names:
        if n == 'pyyaml_node':
            run.ok(rule, mc, 'inherited kwarg pyyaml_node', 'exempt: diagnostic only (error marks)')
            continue
        fld = '_' + n
        v = 1 if n == 'priority' else True
        value = node_obj('value', 'ComposedNode', _children={})
        f = FDE(repo)
        r = fde_guard(lambda: f.call(mc, ('class', 'ConfigNode'), value, **{n: v}))
        if r.raised or r.ret is not value:
            raise AnalysisError('adoption of an existing node through ConfigNode(value, %s=...) does not return the node (raised %s)' % (n, r.raised))
        if value.f.get(fld) is not v:
            raise AnalysisError('adopt branch no longer assigns inherited kwarg %s onto the adopted node' % n)
        meths = [e[1] for e in r.effects if e[0] == 'call' and e[2] is value and e[1] not in ('_maybe_promote',)]
        reached = None
        for meth in meths:
            impl = repo.resolve('ComposedNode', meth)
            if impl is None:
                continue
            child = node_obj('child', 'ComposedNode', _children={})
            parent = node_obj('parent', 'ComposedNode', _children={'k': child}, **{fld: v})
            f2 = FDE(repo, stubs={meth})
            r2 = fde_guard(lambda: f2.call(impl, parent))
            rec = any(e[0] == 'call' and e[1] == meth and e[2] is child for e in r2.effects)
            if child.f.get(fld) is v and rec:
                reached = meth
        if reached:
            run.ok(rule, mc, 'inherited kwarg %s' % n, 'pushed to all descendants by value.%s() (child receives it, recursion follows)' % reached)
        else:
            run.violation(rule, mc, 'adoption of inherited kwarg %s' % n,
                          'the adopt branch assigns %s on the adopted child only; nothing propagates it to the child\'s own descendants, so a tag on a container stops one level down' % fld)
    return names


def tls_objs(f):
    """the class-level thread-local slots read by ConfigNode.__init__, as empty objects (no `.value`)"""
    for a in ('_default_safe', '_default_filename'):
        o = Obj('threadlocal' + a, 'object')
        o.missing = {'value'}
        f.class_objs[('ConfigNode', a)] = o


def node_local_kwargs(repo, run, rule, inherit_names):
    """evaluated: ComposedNode.__init__ with every constructor argument given builds its children with the
    inheritable arguments and the implicit flag channel, and without the arguments that describe the container itself"""
    fi = repo.func('ComposedNode.__init__')
    me = node_obj('me', 'ComposedNode')
    given = dict(idx=3, metadata={'m': 1}, delete=True, allow_new=False, safe=False, priority=1, source_file='f', pyyaml_node=Opaque('yaml node'))
    f = FDE(repo)
    tls_objs(f)
    r = fde_guard(lambda: f.call(fi, me, {'k': Opaque('raw child')}, **given))
    inst = [e for e in r.effects if e[0] == 'instantiate' and e[1] == 'ConfigNode']
    if r.raised or len(inst) != 1:
        raise AnalysisError('ComposedNode.__init__: construction of one child per entry not recognised (raised %s, %d constructions)' % (r.raised, len(inst)))
    kw = dict(inst[0][3])
    local = {'idx', 'delete', 'allow_new', 'safe', 'metadata'}
    leaked = sorted(local & set(kw))
    lost = sorted(k for k in (set(inherit_names) - {'implicit_delete', 'implicit_allow_new', 'implicit_safe'}) | {'source_file'} if k not in kw or kw[k] is not given.get(k, kw.get(k)))
    want_impl = {'implicit_delete': True, 'implicit_allow_new': False, 'implicit_safe': False}
    if lost:
        run.violation(rule, fi, 'children kwargs', 'inheritable constructor arguments %s are removed before the children are built, so they never reach children built from raw values' % lost)
    elif leaked:
        run.violation(rule, fi, 'node-local kwargs', 'node-local arguments %s are passed on to every child as if they were written on it' % leaked)
    elif any(kw.get(k, 'absent') is not v for k, v in want_impl.items()):
        run.violation(rule, fi, 'children kwargs', 'children are not built with the implicit flags of the container (_get_child_kwargs): got %s' % {k: kw.get(k, 'absent') for k in want_impl})
    else:
        run.ok(rule, fi, 'children built with %s' % sorted(kw), 'node-local %s removed; inheritable arguments and the implicit flags of the container passed on' % sorted(local))


# ---------------------------------------------------------------------------------------------------
def flatten_fold(repo, run, rule):
    mt.flatten_fold(repo, run, rule)


def delete_resolution(repo, run, rule):
    """C04.R2: ayns.delete = explicit, else inherited, else type default; type defaults"""
    getter = repo.func('ConfigNode.ayns.delete')
    bad = []
    rows = 0
    for cls, dflt in (('ConfigDict', False), ('ConfigList', True), ('FunctionNode', True), ('ConfigNode', False)):
        for d in F3:
            for i in F3:
                o = node_obj('n', cls, _delete=d, _implicit_delete=i)
                f = FDE(repo)
                v = fde_guard(lambda: f.getter(o, 'delete'))
                rows += 1
                exp = d if d is not None else (i if i is not None else dflt)
                if v is not exp:
                    bad.append((cls, d, i, v, exp))
    run.table(rule, rows, 'ayns.delete over (_delete,_implicit_delete) x {ConfigDict,ConfigList,FunctionNode,ConfigNode}')
    if bad:
        cls, d, i, v, exp = bad[0]
        run.violation(rule, getter, 'ayns.delete resolution table', '%s with explicit=%r inherited=%r resolves to %r (expected %r)' % (cls, d, i, v, exp), witness=bad[:6])
    else:
        run.ok(rule, getter, 'ayns.delete resolution table (%d rows)' % rows, 'explicit > inherited > type default (list/function True, mapping False)')
    for c in repo.subclasses('ConfigNode', strict=True):
        t = repo.resolve(c, 'delete', ayns=True)
        if t is not getter:
            run.violation(rule, t, 'override of ayns.delete in %s' % c, 'delete resolution overridden')


def child_kwargs_keys(repo, run, rule):
    """what a container hands to a child it adopts (set_child, reconstruction): the implicit_* channel only
    (evaluated: the keys of the returned mapping over all flag valuations of the container)"""
    gk = repo.func('ComposedNode._get_child_kwargs')
    keys = set()
    always = None
    for v in product_dicts(_delete=F3, _allow_new=F3, _safe=F3, _priority=[None, 1]):
        parent = node_obj('parent', 'ComposedNode', **v)
        f = FDE(repo)
        r = fde_guard(lambda: f.call(gk, parent))
        if not isinstance(r.ret, dict):
            raise AnalysisError('_get_child_kwargs does not return a mapping')
        ks = set(r.ret.keys())
        keys |= ks
        always = ks if always is None else (always & ks)
    want = {'implicit_delete', 'implicit_allow_new', 'implicit_safe'}
    extra = keys - want
    if extra:
        run.violation(rule, gk, '_get_child_kwargs returns keys %s' % sorted(keys), 'adopted / re-attached children are given %s by the container: every set_child during a merge (and reconstruction by copy/pickle) overwrites state that belongs to the child' % sorted(extra))
    elif always != want:
        run.violation(rule, gk, '_get_child_kwargs returns keys %s' % sorted(always or ()), 'implicit flags %s are not always handed to a newly adopted child' % sorted(want - (always or set())))
    else:
        run.ok(rule, gk, '_get_child_kwargs hands out exactly implicit_delete / implicit_allow_new / implicit_safe (54 valuations)')


def propagation_table(repo, run, rule, flag):
    """inherited flags reach the children: for a container without an explicit <flag> whose inherited
    <flag> is v (not None), _propagate_implicit_values leaves every child with implicit <flag> == v
    (safe: an already-False child stays False), whatever the other explicit / inherited flags are, and
    recurses into a child whose flags changed."""
    fi = repo.func('ComposedNode._propagate_implicit_values')
    flags = ['delete', 'allow_new', 'safe']
    others = [f for f in flags if f != flag]
    bad = []
    rows = 0
    for exp in product_dicts(**{'_' + f: F3 for f in others}):
        for v in (True, False):
            for oi in product_dicts(**{'_implicit_' + f: F3 for f in others}):
                for cv, pcls in [(c_, k_) for c_ in F3 for k_ in ('ConfigDict', 'ConfigList')]:
                    child = node_obj('child', 'ConfigNode', **{'_implicit_' + flag: cv})
                    before = dict(child.f)
                    parent = node_obj('parent', pcls, _children={'k': child}, **{'_' + flag: None, '_implicit_' + flag: v}, **exp, **oi)
                    f = FDE(repo)
                    r = fde_guard(lambda: f.call(fi, parent))
                    rows += 1
                    got = child.f['_implicit_' + flag]
                    want = v if not (flag == 'safe' and cv is False) else False
                    if got is not want:
                        bad.append((dict(exp, parent_class=pcls), v, dict(oi), cv, got, want))
                    changed = any(child.f[k] != before[k] for k in before if k.startswith('_implicit_'))
                    rec = any(e[0] == 'call' and e[1] == '_propagate_implicit_values' and getattr(e[2], 'name', None) == 'child' for e in r.effects)
                    if changed and not rec:
                        bad.append(('no recursion into changed child', dict(exp), v, cv))
    run.table(rule + ':propagate:' + flag, rows, '_propagate_implicit_values: parent explicit others x inherited %s x other inherited x child inherited %s' % (flag, flag))
    if bad:
        b = bad[0]
        if b[0] == 'no recursion into changed child':
            msg = 'a child whose inherited flags changed is not propagated into (%s)' % (b[1:],)
        else:
            msg = 'container with explicit flags %s, no explicit %s and inherited %s=%r (other inherited %s): child inherited %s %r stays/becomes %r, expected %r - the inherited flag does not reach the descendants' % (b[0], flag, flag, b[1], b[2], flag, b[3], b[4], b[5])
        run.violation(rule, fi, '_propagate_implicit_values / ' + flag, msg, witness=bad[:5])
    else:
        run.ok(rule, fi, '_propagate_implicit_values hands inherited %s to children (%d rows)' % (flag, rows), 'independent of other explicit flags; recursion on change')


def promotion_table(repo, run, rule):
    """type promotion of the surviving container (_maybe_promote): for every ordered pair of node classes the more
    specific kind survives and its content is taken from the winner (self) with the conversion matching the two
    built-in bases; decided from the source with the class relations of the parsed tree."""
    fi = repo.func('ConfigNode._maybe_promote')
    classes = [c for c in repo.subclasses('ConfigDict') + repo.subclasses('ConfigList')]
    classes += ['ConfigNode', 'RequiredNode', 'ClearNode']

    def kind(c):
        m_ = repo.mro(c)
        return 'list' if 'list' in m_ else ('dict' if 'dict' in m_ else None)
    bad = []
    rows = 0
    for S in classes:
        for O in classes:
            state = dict(_priority=1, _delete=True, _allow_new=False, _safe=False, _implicit_delete=True, _implicit_allow_new=False, _implicit_safe=False, _default_safe=False)
            me, ot = node_obj('self', S, **state), node_obj('other', O)
            f = FDE(repo, stubs={'clear', 'extend', 'update', '_propagate_implicit_values'})
            r = fde_guard(lambda: f.call(fi, me, ot))
            rows += 1
            # (how the attributes travel - __dict__.update, a loop of setattr - is not judged: the state of the promoted node is)
            calls = [(e[1], getattr(e[2], 'name', None), tuple(getattr(a, 'name', repr(a)) for a in e[3])) for e in r.effects if e[0] == 'call' and e[1] != '__dict__.update']
            composed = repo.is_subclass(S, 'ComposedNode') and repo.is_subclass(O, 'ComposedNode')
            plain = lambda c: c in ('ConfigDict', 'ConfigList')
            if S == O or not composed:
                want_other = False
            elif repo.is_subclass(O, S):
                want_other = True
            elif repo.is_subclass(S, O):
                want_other = False
            else:
                want_other = plain(S) and not plain(O)
            got_other = getattr(r.ret, 'name', None) == 'other'
            if not want_other and r.ret is not me:
                bad.append((S, O, 'returns %s, expected the node itself' % (getattr(r.ret, 'name', r.ret),)))
                continue
            if got_other != want_other:
                bad.append((S, O, 'returns %s, expected %s' % (getattr(r.ret, 'name', r.ret), 'other (the more specific kind)' if want_other else 'self')))
                continue
            if not want_other:
                if calls:
                    bad.append((S, O, 'mutates although nothing is promoted: %s' % calls))
                continue
            # content transfer
            same_kind = kind(S) == kind(O)
            if kind(O) == 'list':
                want_arg = 'self' if same_kind else 'self.values()'
                want = [('clear', 'other', ()), ('extend', 'other', (want_arg,))]
            else:
                want_arg = 'self' if same_kind else 'enumerate(self)'
                want = [('clear', 'other', ()), ('update', 'other', (want_arg,))]
            if calls != want:
                bad.append((S, O, 'promotion performs %s, expected %s' % (calls, want)))
                continue
            lost = sorted(k for k, v in state.items() if ot.f.get(k) is not v and ot.f.get(k) != v)
            if lost:
                bad.append((S, O, 'the promoted node does not take over %s of the winner (merge-control flags and safety decide how it merges and evaluates from here on)' % ', '.join(lost)))
    run.table(rule, rows, '_maybe_promote over %d x %d node classes' % (len(classes), len(classes)))
    if bad:
        S, O, why = bad[0]
        run.violation(rule, fi, '_maybe_promote(%s <- %s)' % (S, O), 'winner of kind %s replacing a node of kind %s: %s [%d of %d pairs]' % (S, O, why, len(bad), rows), witness=bad[:6])
    else:
        run.ok(rule, fi, '_maybe_promote decision + content-transfer table (%d class pairs)' % rows, 'more specific kind survives, emptied and refilled from the winner with the conversion matching both built-in bases, attributes copied')
