"""rules about the evaluation machinery shared by C09 / C10 / C11 / C14"""
import ast

from .. import cfg as cfgmod
from ..report import AnalysisError
from ..srcmodel import unparse, norm, walk_no_nested, calls_in
from .common import cfg_of, facts_at, find_stmt_node, is_method_call, get_kw, recv_of, name_defs


def memo_discipline(repo, run, rule):
    fi = repo.func('EvalContext.evaluate_node')
    g = cfg_of(fi)
    evals = g.find_calls(lambda c: is_method_call(c, member='on_evaluate', ayns=True))
    if len(evals) != 1:
        raise AnalysisError('evaluate_node: expected exactly one <node>.ayns.on_evaluate call, found %d' % len(evals))
    node, call = evals[0]
    x = unparse(recv_of(call))
    facts = facts_at(g, node)
    miss = ('id(%s) in self._eval_cache_id' % x, False)
    if miss in facts:
        run.ok(rule, (fi.file, call.lineno, fi.qualname), unparse(call), 'reached only on a miss of the identity memo (%s)' % miss[0])
    else:
        run.violation(rule, fi, unparse(call), 'a node is evaluated on a path where membership of id(%s) in the identity memo has not been tested false: a memoised node (e.g. one whose result is None / falsy) is evaluated again' % x, node=call)
    # the hit branch returns the memoised value
    hits = [s for s in walk_no_nested(fi.node) if isinstance(s, ast.If) and norm(s.test) == miss[0]]
    if hits and not (isinstance(hits[0].body[-1], ast.Return) and norm(hits[0].body[-1].value) == 'self._eval_cache_id[id(%s)]' % x):
        run.violation(rule, fi, norm(hits[0])[:120], 'a memo hit does not return the memoised object itself', node=hits[0])
    elif hits:
        run.ok(rule, (fi.file, hits[0].lineno, fi.qualname), norm(hits[0])[:100], 'memo hit returns the stored object')
    # store on every normal path after the evaluation
    var = None
    if node.kind == 'stmt' and isinstance(node.ast, ast.Assign) and isinstance(node.ast.targets[0], ast.Name):
        var = node.ast.targets[0].id
    stores = []
    for n in g.stmt_nodes():
        s = n.ast
        if n.kind == 'stmt' and isinstance(s, ast.Assign) and isinstance(s.targets[0], ast.Subscript) and norm(s.targets[0].value) == 'self._eval_cache_id':
            stores.append((n, s))
    good = [(n, s) for n, s in stores if norm(s.targets[0].slice) in ('utils.persistent_id(%s)' % x, 'persistent_id(%s)' % x) and norm(s.value) == var]
    for n, s in stores:
        if (n, s) not in good:
            k = norm(s.targets[0].slice)
            why = 'keyed by %s: a plain id() does not keep the node alive, ids can be recycled within a build' % k if k == 'id(%s)' % x else 'key %s / value %s do not memoise the evaluated node under its identity' % (k, norm(s.value))
            run.violation(rule, fi, norm(s), why, node=s)
    good_ids = {n.id for n, _ in good}

    def transfer(n, facts_):
        if n.id == node.id:
            facts_ = facts_ | {'pending'}
        if n.id in good_ids:
            facts_ = facts_ - {'pending'}
        return facts_
    IN, reached = cfgmod.forward_may(g, transfer)
    if 'pending' in IN[g.exit.id]:
        run.violation(rule, fi, 'store into _eval_cache_id after %s' % unparse(call), 'there is a normal path from the evaluation of a node to the return on which the result is not stored in the identity memo: a second consumer evaluates the node again', node=call)
    elif good:
        run.ok(rule, (fi.file, good[0][1].lineno, fi.qualname), norm(good[0][1]), 'on every normal path after the evaluation; persistent_id keeps the node alive')
    rets = [s for s in walk_no_nested(fi.node) if isinstance(s, ast.Return) and s.value is not None and s.lineno > call.lineno]
    if not rets or any(norm(r.value) != var for r in rets):
        run.violation(rule, fi, 'return after evaluation', 'evaluate_node does not return the object it memoised (%s)' % [norm(r) for r in rets])


def who_may_evaluate(repo, run, rule):
    n = 0
    for fi in repo.all_functions():
        for c in calls_in(fi.node):
            if is_method_call(c, member='on_evaluate', ayns=True):
                n += 1
                if fi.qualname == 'EvalContext.evaluate_node':
                    run.ok(rule, (fi.file, c.lineno, fi.qualname), unparse(c), 'the memoising entry point')
                else:
                    run.violation(rule, fi, unparse(c), 'a node is evaluated directly, bypassing EvalContext.evaluate_node (memo, safety test, partial tree)', node=c)
            elif isinstance(c.func, ast.Attribute) and c.func.attr == 'on_evaluate_impl':
                n += 1
                r = norm(c.func.value)
                inside_impl = fi.name == 'on_evaluate_impl' or (fi.cls is not None and fi.name in ('on_evaluate',))
                deleg = r in ('super().ayns', 'self.ayns') or (r.endswith('.ayns') and r[:-5] in repo.classes and c.args and norm(c.args[0]) == 'self')
                helper = fi.cls is not None and repo.is_subclass(fi.cls.name, 'ConfigNode') and deleg and r != 'self.ayns'
                if (fi.qualname == 'ConfigNode.ayns.on_evaluate' and r == 'self.ayns') or (inside_impl and deleg and r != 'self.ayns') or helper:
                    run.ok(rule, (fi.file, c.lineno, fi.qualname), unparse(c)[:90], 'self-delegation inside the node\'s own evaluation')
                else:
                    run.violation(rule, fi, unparse(c), 'on_evaluate_impl is called from outside on_evaluate / another on_evaluate_impl of the same node', node=c)
    if n < 4:
        raise AnalysisError('who-may-evaluate: only %d call sites found' % n)


def per_build_caches(repo, run, rule):
    fi = repo.func('EvalContext.evaluate')
    caches = set()
    init = repo.func('EvalContext.__init__')
    for s in walk_no_nested(init.node):
        if isinstance(s, ast.Assign) and isinstance(s.targets[0], ast.Attribute) and s.targets[0].attr.startswith('_eval_cache'):
            caches.add(s.targets[0].attr)
    if len(caches) < 2:
        raise AnalysisError('EvalContext caches not found')
    call = [c for c in calls_in(fi.node) if is_method_call(c, recv='self', member='evaluate_node')]
    tries = [s for s in fi.node.body if isinstance(s, ast.Try)]
    if len(call) != 1 or len(tries) != 1:
        raise AnalysisError('EvalContext.evaluate: try/finally around evaluate_node not recognised')
    before = {norm(c.func.value)[5:] for s in fi.node.body if s.lineno < tries[0].lineno for c in calls_in(s) if isinstance(c.func, ast.Attribute) and c.func.attr == 'clear'}
    after = {norm(c.func.value)[5:] for s in tries[0].finalbody for c in calls_in(s) if isinstance(c.func, ast.Attribute) and c.func.attr == 'clear'}
    for cache in sorted(caches):
        if cache not in before or cache not in after:
            run.violation(rule, fi, 'self.%s.clear()' % cache, 'cache %s is not cleared %s the evaluation of a tree: values of one build leak into the next' % (cache, 'before' if cache not in before else 'after (finally)'))
        else:
            run.ok(rule, fi, 'self.%s cleared before evaluating and in finally' % cache)


def evaluate_a_copy(repo, run, rule):
    """on every path of Config.__init__ that evaluates, the tree handed to <ctx>.evaluate is copy.deepcopy(S) where S is the
    tree retained as self._source (decided on traces: locals substituted, helpers inlined)"""
    from . import tr
    fi = repo.func('Config.__init__')
    paths = tr.paths_of(repo, fi, no_inline={'evaluate', 'check_missing', '__init__'}, follow_exceptions=False)
    n = 0
    verdicts = {}
    for p in paths:
        evs = [e for e in p.events if e.kind == 'call' and e.attr == 'evaluate' and e.args]
        if not evs:
            continue
        if len(evs) != 1:
            raise AnalysisError('Config.__init__: more than one evaluate(...) on a path')
        n += 1
        e = evs[0]
        arg = e.args[0]
        src = [x for x in p.events if x.kind == 'store' and x.target == 'self._source']
        if len(src) != 1 or src[0].value is None:
            raise AnalysisError('Config.__init__: evaluate(...) / self._source = ... not recognised')
        kept = src[0].value.text
        a = arg.ast
        if isinstance(a, ast.Call) and norm(a.func) in ('copy.deepcopy', 'deepcopy') and a.args and norm(a.args[0]) == kept:
            verdicts.setdefault('ok', (e, 'evaluate(copy.deepcopy(S)); self._source = S'))
        else:
            shallow = isinstance(a, ast.Call) and norm(a.func) in ('copy.copy', 'dict', 'ConfigDict')
            verdicts.setdefault('bad', (e, 'the tree handed to the evaluator (%s) is not a deep copy of the retained source (%s)%s: evaluation (which re-parents and mutates nodes) changes what cfg.ayns.source keeps' % (arg.text[:50], kept[:40], ' (shallow copy: nested nodes are shared)' if shallow else '')))
    if not n:
        raise AnalysisError('Config.__init__: evaluate call not found')
    for k, (e, why) in verdicts.items():
        if k == 'ok':
            run.ok(rule, tr.where(fi, e), why, 'evaluated tree and retained source share no node')
        else:
            run.violation(rule, tr.where(fi, e), 'evaluate(...) / self._source', why)
