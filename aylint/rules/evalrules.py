"""rules about the evaluation machinery shared by C09 / C10 / C11 / C14"""
import ast
import re

from .. import cfg as cfgmod
from ..report import AnalysisError
from ..srcmodel import unparse, norm, walk_no_nested, calls_in
from .common import cfg_of, facts_at, find_stmt_node, is_method_call, get_kw, recv_of, name_defs, only_reached_from


MNI = {'on_evaluate', 'get_or_set', 'persistent_id', 'get_list_path'}


def memo_discipline(repo, run, rule):
    """identity memo of EvalContext.evaluate_node, on traces: a node is evaluated only on a miss; a hit returns the stored
    object; after an evaluation every completing path stores the result under persistent_id(node) and returns it"""
    from . import tr
    fi = repo.func('EvalContext.evaluate_node')
    paths = tr.paths_of(repo, fi, no_inline=MNI, follow_exceptions=False)
    n_eval = 0
    verdicts = {}

    def v(kind, ev, construct, why):
        verdicts.setdefault((kind, why), (ev, construct))
    for p in paths:
        evals = [e for e in p.events if e.kind == 'call' and e.attr == 'on_evaluate' and e.recv is not None and e.recv.text.endswith('.ayns')]
        if len(evals) > 1:
            raise AnalysisError('evaluate_node: more than one <node>.ayns.on_evaluate call on a path')
        hits = [t for t, pol in p.facts if pol and t.startswith('id(') and t.endswith(') in self._eval_cache_id')]
        shits = [t for t, pol in p.facts if not pol and t.startswith('self._eval_cache_id.get(id(') and ') is ' in t and _is_sentinel(fi, t.split(') is ', 1)[1])]
        if shits and not hits and not evals and p.status == 'return':
            got = shits[0].split(') is ', 1)[0] + ')'
            if p.ret is None or p.ret.text != got:
                v('bad', tr.final_event(p), 'memo hit', 'a memo hit does not return the memoised object itself (returns %s)' % (p.ret.text[:50] if p.ret is not None else None))
            else:
                v('ok', tr.final_event(p), 'memo hit', 'memo hit returns the stored object')
        if hits and not evals and p.status == 'return':
            x = hits[0][3:-len(') in self._eval_cache_id')]
            if p.ret is None or p.ret.text != 'self._eval_cache_id[id(%s)]' % x:
                v('bad', tr.final_event(p), 'memo hit', 'a memo hit does not return the memoised object itself (returns %s)' % (p.ret.text[:50] if p.ret is not None else None))
            else:
                v('ok', tr.final_event(p), 'memo hit', 'memo hit returns the stored object')
        if not evals and not hits and not shits and p.status == 'return' and p.ret is not None and re.search(r'\bself\._eval_cache(?!_id)\b', p.ret.text) \
                and ('isinstance(%s, ConfigNode)' % fi.params()[1], False) not in p.facts:
            v('bad', tr.final_event(p), 'return of a value memoised by path', 'evaluate_node answers for a node with a value looked up by the text of its path (%s) without an identity-memo hit: path texts are not unique (the key "a.b" and `a: {b: ..}`, the key "l[1]" and element 1 of l), so another node\'s value is returned' % p.ret.text[:60])
        if not evals:
            continue
        n_eval += 1
        e = evals[0]
        x = e.recv.text[:-5]
        miss = ('id(%s) in self._eval_cache_id' % x, False)
        # (the same test written with a module-level sentinel: `(v := memo.get(id(x), _MISSING)) is not _MISSING`)
        sent = [t for t, pol in e.facts if pol and t.startswith('self._eval_cache_id.get(id(%s), ' % x) and ') is ' in t
                and t.split(') is ', 1)[1] == t[len('self._eval_cache_id.get(id(%s), ' % x):].split(')', 1)[0] and _is_sentinel(fi, t.split(') is ', 1)[1])]
        if miss in e.facts or sent:
            v('ok', e, e.callee, 'reached only on a miss of the identity memo (%s)' % miss[0])
        else:
            v('bad', e, e.callee, 'a node is evaluated on a path where membership of id(%s) in the identity memo has not been tested false: a memoised node (e.g. one whose result is None / falsy) is evaluated again' % x)
        if p.status != 'return':
            continue
        R = e.result.text
        i = tr.index_of(p, e)
        stores = [s_ for s_ in p.events[i:] if s_.kind == 'store' and s_.target.startswith('self._eval_cache_id[')]
        good = [s_ for s_ in stores if s_.target in ('self._eval_cache_id[utils.persistent_id(%s)]' % x, 'self._eval_cache_id[persistent_id(%s)]' % x) and s_.value is not None and s_.value.text == R]
        for s_ in stores:
            if s_ not in good:
                k = s_.target[len('self._eval_cache_id['):-1]
                v('bad', s_, s_.target, 'keyed by %s: a plain id() does not keep the node alive, ids can be recycled within a build' % k if k == 'id(%s)' % x else 'key %s / value %s do not memoise the evaluated node under its identity' % (k[:40], s_.value.text[:40] if s_.value is not None else None))
        if not good:
            v('bad', e, 'store into _eval_cache_id after ' + e.callee, 'there is a normal path from the evaluation of a node to the return on which the result is not stored in the identity memo: a second consumer evaluates the node again [%s]' % tr.describe(p, 5))
        else:
            v('ok', good[0], good[0].target, 'on every normal path after the evaluation; persistent_id keeps the node alive')
        if p.ret is None or p.ret.text != R:
            v('bad', tr.final_event(p), 'return after evaluation', 'evaluate_node does not return the object it memoised (%s)' % (p.ret.text[:50] if p.ret is not None else None))
    if not n_eval:
        raise AnalysisError('evaluate_node: <node>.ayns.on_evaluate call not found')
    for (kind, why), (ev, construct) in verdicts.items():
        (run.ok if kind == 'ok' else run.violation)(rule, tr.where(fi, ev), construct[:100], why)


def who_may_evaluate(repo, run, rule):
    n = 0
    for fi in repo.all_functions():
        for c in calls_in(fi.node):
            if is_method_call(c, member='on_evaluate', ayns=True):
                n += 1
                if fi.qualname == 'EvalContext.evaluate_node':
                    run.ok(rule, (fi.file, c.lineno, fi.qualname), unparse(c), 'the memoising entry point')
                else:
                    run.violation(rule, fi, unparse(c), 'a node is evaluated directly, bypassing EvalContext.evaluate_node (memo, safety test, partial tree)', node=c)
            elif isinstance(c.func, ast.Attribute) and c.func.attr == 'on_evaluate_impl':
                n += 1
                r = norm(c.func.value)
                inside_impl = fi.name == 'on_evaluate_impl' or (fi.cls is not None and fi.name in ('on_evaluate',))
                deleg = r in ('super().ayns', 'self.ayns') or (r.endswith('.ayns') and r[:-5] in repo.classes and c.args and norm(c.args[0]) == 'self')
                helper = fi.cls is not None and repo.is_subclass(fi.cls.name, 'ConfigNode') and deleg and r != 'self.ayns'
                moved = False
                if not (inside_impl or helper) and r.endswith('.ayns') and r[:-5] in repo.classes and c.args and isinstance(c.args[0], ast.Name) and c.args[0].id in fi.params():
                    # the delegation was moved into a private helper that receives the node: still the node's own evaluation
                    # when the helper is reachable only from on_evaluate_impl implementations
                    impls = {f.qualname for f in repo.cha('on_evaluate_impl', ayns=True)}
                    moved = only_reached_from(repo, fi.qualname, impls)
                if (fi.qualname == 'ConfigNode.ayns.on_evaluate' and r == 'self.ayns') or (inside_impl and deleg and r != 'self.ayns') or helper or moved:
                    run.ok(rule, (fi.file, c.lineno, fi.qualname), unparse(c)[:90], 'self-delegation inside the node\'s own evaluation')
                else:
                    run.violation(rule, fi, unparse(c), 'on_evaluate_impl is called from outside on_evaluate / another on_evaluate_impl of the same node', node=c)
    if n < 4:
        raise AnalysisError('who-may-evaluate: only %d call sites found' % n)


def _is_sentinel(fi, name):
    g = fi.module.constant_binding(name) if name.isidentifier() else None
    return isinstance(g, ast.Call) and isinstance(g.func, ast.Name) and g.func.id == 'object' and not g.args and not g.keywords


def per_build_caches(repo, run, rule):
    """every cache the context creates is emptied before a tree is evaluated and on every way out (also when the evaluation raises)"""
    from . import tr
    fi = repo.func('EvalContext.evaluate')
    caches = set()
    init = repo.func('EvalContext.__init__')
    for p in tr.paths_of(repo, init, follow_exceptions=False):
        for e in p.events:
            if e.kind == 'store' and e.target.startswith('self._eval_cache'):
                caches.add(e.target[5:])
    from .. import shared
    shared_caches = [(c, a, m) for c, a, m in shared.class_mutables_via_self(repo) if c == 'EvalContext' and a.startswith('_eval_cache')]
    for c, a, m in shared_caches:
        run.violation(rule, m[0][0], '%s.%s' % (c, a), 'the evaluation cache %s is a class-level object that is never assigned per context: every EvalContext (nested builds, other threads) reads and clears the same memo, so a build that starts or finishes during another one wipes / pollutes its results' % a, node=m[0][1])
    if shared_caches:
        return
    if len(caches) < 2:
        raise AnalysisError('EvalContext caches not found')
    if _per_build_caches_evaluated(repo, run, rule, fi):
        return
    paths = tr.paths_of(repo, fi, no_inline={'evaluate_node'}, follow_exceptions=True)
    n = 0
    missing_before, missing_after = set(), set()
    for p in paths:
        evs = [i for i, e in enumerate(p.events) if tr.is_call(e, attr='evaluate_node', recv='self')]
        if len(evs) != 1:
            if evs:
                raise AnalysisError('EvalContext.evaluate: more than one evaluate_node call')
            continue
        n += 1

        def cleared(evts, base='self'):
            out = set()
            for e in evts:
                if e.kind == 'call' and e.attr == 'clear' and e.recv is not None and e.recv.text.startswith(base + '.'):
                    out.add(e.recv.text[len(base) + 1:])
                if e.kind == 'store' and e.target.startswith(base + '._eval_cache') and e.value is not None and e.value.text in ('{}', 'dict()'):
                    out.add(e.target[len(base) + 1:])
            return out

        def cm_clears(evts):
            # `with _helper(self, ...):` around the evaluation, _helper a private @contextmanager of the package that is handed the
            # context: what it clears before its yield happens before the body, what it clears after the yield on every way out
            # (normal and exceptional) happens after it
            before, after = set(), None
            for e in evts:
                if e.kind != 'with_enter' or not isinstance(e.value.ast, ast.Call) or not isinstance(e.value.ast.func, ast.Name):
                    continue
                g = fi.module.functions.get(e.value.ast.func.id)
                if g is None or not g.is_contextmanager:
                    continue
                call = e.value.ast
                params = g.params()
                bases = [params[i] for i, a in enumerate(call.args) if i < len(params) and norm(a) == 'self']
                if not bases:
                    continue
                for q in tr.paths_of(repo, g, follow_exceptions=True):
                    ys = [i for i, x in enumerate(q.events) if x.kind == 'yield']
                    if not ys:
                        continue
                    b_ = cleared(q.events[:ys[0]], bases[0])
                    a_ = cleared(q.events[ys[0]:], bases[0])
                    before = b_ if not before else before & b_ if False else (before | b_)
                    after = a_ if after is None else after & a_
            return before, (after or set())
        cb, ca = cm_clears(p.events[:evs[0]])
        missing_before |= caches - cleared(p.events[:evs[0]]) - cb
        missing_after |= caches - cleared(p.events[evs[0]:]) - ca
    if not n:
        raise AnalysisError('EvalContext.evaluate: evaluate_node call not recognised')
    for cache in sorted(caches):
        if cache in missing_before or cache in missing_after:
            run.violation(rule, fi, 'self.%s.clear()' % cache, 'cache %s is not cleared %s the evaluation of a tree: values of one build leak into the next' % (cache, 'before' if cache in missing_before else 'after (finally)'))
        else:
            run.ok(rule, fi, 'self.%s cleared before evaluating and on every way out (%d paths incl. exceptional)' % (cache, n))


def _per_build_caches_evaluated(repo, run, rule, fi):
    """EvalContext.evaluate evaluated on a context built by its own constructor whose dict-valued caches all hold a stale entry:
    when the tree is handed to evaluate_node (a stand-in that fills the caches and either returns or raises) every cache is empty,
    and after the call - on the normal and on the exceptional way out - every cache is empty again. Returns False when the
    evaluator cannot follow the code (the trace rule below then decides)."""
    from ..fde import FDE, Obj, Unsupported, Raised
    from .common import node_obj
    init = repo.func('EvalContext.__init__')
    bad = []
    names = None
    try:
        for mode in ('returns', 'raises'):
            ctx = Obj('ctx', 'EvalContext')
            f0 = FDE(repo, max_depth=6)
            f0.extcalls = {'copy.copy': lambda x: dict(x) if isinstance(x, dict) else x, 'copy.deepcopy': lambda x: dict(x) if isinstance(x, dict) else x}
            if f0.call(init, ctx).raised:
                return False
            names = sorted(k for k, v in ctx.f.items() if k.startswith('_eval_cache') and isinstance(v, dict))
            if len(names) < 2:
                return False
            for c in names:
                ctx.f[c]['stale'] = 'STALE'
            seen = []

            def stub(name, recv, a, k, ctx=ctx, seen=seen, mode=mode):
                if name == 'evaluate_node':
                    seen.append({c: dict(ctx.f[c]) if isinstance(ctx.f.get(c), dict) else ctx.f.get(c) for c in names})
                    for c in names:
                        if isinstance(ctx.f.get(c), dict):
                            ctx.f[c]['new'] = 'NEW'
                    if mode == 'raises':
                        raise Raised('EvalError')
                    return 'RESULT'
                raise Unsupported('call of ' + name)
            f = FDE(repo, stubs={'evaluate_node'}, stub=stub, max_depth=8)
            holder = lambda *a, **k: Obj('holder', 'EvalContext.PartialChild')      # noqa: E731
            f.constructors = {'Bunch': lambda *a, **k: ('Bunch',), 'PartialChild': holder, 'EvalContext.PartialChild': holder, 'NodePath': lambda *a, **k: []}
            r = f.call(fi, ctx, node_obj('tree', 'ConfigDict'))
            if len(seen) != 1 or (mode == 'returns' and (r.raised or r.ret != 'RESULT')) or (mode == 'raises' and not r.raised):
                return False
            for c in names:
                if seen[0][c]:
                    bad.append((c, 'before'))
                if ctx.f.get(c):
                    bad.append((c, 'after (%s)' % ('finally' if mode == 'raises' else 'normal return')))
    except (Unsupported, Raised, AnalysisError):
        return False
    run.table(rule, 2, 'EvalContext.evaluate with stale caches (evaluation returns / raises)')
    for c in names:
        w = sorted({x[1] for x in bad if x[0] == c})
        if w:
            run.violation(rule, fi, 'self.%s.clear()' % c, 'cache %s is not cleared %s the evaluation of a tree: values of one build leak into the next' % (c, ' / '.join(w)))
        else:
            run.ok(rule, fi, 'self.%s empty when the tree is evaluated and on every way out (evaluated)' % c)
    return True


def evaluate_a_copy(repo, run, rule):
    """on every path of Config.__init__ that evaluates, the tree handed to <ctx>.evaluate is copy.deepcopy(S) where S is the
    tree retained as self._source (decided on traces: locals substituted, helpers inlined)"""
    from . import tr
    fi = repo.func('Config.__init__')
    paths = tr.paths_of(repo, fi, no_inline={'evaluate', 'check_missing', '__init__'}, follow_exceptions=False)
    n = 0
    verdicts = {}
    for p in paths:
        evs = [e for e in p.events if e.kind == 'call' and e.attr == 'evaluate' and e.args]
        if not evs:
            continue
        if len(evs) != 1:
            raise AnalysisError('Config.__init__: more than one evaluate(...) on a path')
        n += 1
        e = evs[0]
        arg = e.args[0]
        src = [x for x in p.events if x.kind == 'store' and x.target == 'self._source']
        if len(src) != 1 or src[0].value is None:
            raise AnalysisError('Config.__init__: evaluate(...) / self._source = ... not recognised')
        kept = src[0].value.text
        a = arg.ast
        if isinstance(a, ast.Call) and norm(a.func) in ('copy.deepcopy', 'deepcopy') and a.args and norm(a.args[0]) == kept:
            verdicts.setdefault('ok', (e, 'evaluate(copy.deepcopy(S)); self._source = S'))
        else:
            shallow = isinstance(a, ast.Call) and norm(a.func) in ('copy.copy', 'dict', 'ConfigDict')
            verdicts.setdefault('bad', (e, 'the tree handed to the evaluator (%s) is not a deep copy of the retained source (%s)%s: evaluation (which re-parents and mutates nodes) changes what cfg.ayns.source keeps' % (arg.text[:50], kept[:40], ' (shallow copy: nested nodes are shared)' if shallow else '')))
    if not n:
        raise AnalysisError('Config.__init__: evaluate call not found')
    for k, (e, why) in verdicts.items():
        if k == 'ok':
            run.ok(rule, tr.where(fi, e), why, 'evaluated tree and retained source share no node')
        else:
            run.violation(rule, tr.where(fi, e), 'evaluate(...) / self._source', why)
