"""C10 - every dynamic node is evaluated exactly once, independent of layout."""
from ..mutate import Mutant, in_func, delete_stmt
from . import evalrules as er
from . import unitrules
from . import c07, c01, c19

from .common import Guard  # noqa: E402

PROP = 'C10'
DECIDED = [
    'R1: memo discipline of EvalContext.evaluate_node: the evaluation is reachable only on a miss of the identity memo; on every normal path after it the result is stored under persistent_id of the same node; hit and miss return the memoised object.',
    'R2: who may evaluate: <node>.ayns.on_evaluate is called only by evaluate_node; on_evaluate_impl only by on_evaluate or as self-delegation; node classes reach children only through ctx.evaluate_node.',
    'R3: both evaluation caches are per build (cleared before evaluating a tree and in finally).',
    'R4: plain containers evaluate every child once, in order (C01.R5).',
    'R5: cached values are not handed out around the strict-mode safety test (C07.R4) - the statically visible key-order dependence.',
    'R6: copying the tree before evaluation preserves sharing: any __deepcopy__ passes its memo on (C19.R5).',
    'R7: EvalContext.PartialChild.__getitem__ evaluated on 4 rows: an absent entry is evaluated from the config node of that key under the extended path and is the result; a present one is returned as stored (re-checked in strict mode).',
]
UNDECIDED = ['order independence and re-entrancy in general;', '"nodes deleted by later stages never run" (follows from evaluating only the merged tree; not checked).']


def check(repo, run, tier):
    g = Guard()
    g(er.memo_discipline, repo, run, 'C10.R1')
    g(er.who_may_evaluate, repo, run, 'C10.R2')
    g(er.per_build_caches, repo, run, 'C10.R3')
    g(c01.plain_container_eval, repo, run, 'C10.R4')
    g(_as, run, 'C07.R4', 'C10.R5', lambda: c07.r4(repo, run))
    g(_as, run, 'C19.R5', 'C10.R6', lambda: c19.r5(repo, run))
    g(unitrules.partial_child_getitem, repo, run, 'C10.R7')
    g(unitrules.map_nodes_memo, repo, run, 'C10.R8')
    g.done()


def _as(run, old, new, fn):
    """run a rule of another property and re-label its obligations for this property"""
    n0, v0 = len(run.obligations), len(run.violations)
    fn()
    from ..report import finding_key
    for o in run.obligations[n0:]:
        if o['rule'].startswith(old):
            run.rule_counts[o['rule']] -= 1
            o['rule'] = new + o['rule'][len(old):]
            run.rule_counts[o['rule']] = run.rule_counts.get(o['rule'], 0) + 1
    for v in run.violations[v0:]:
        if v['rule'].startswith(old):
            v['rule'] = new + v['rule'][len(old):]
            v['key'] = finding_key(run.prop, v['rule'], v['file'], v['qualname'], v['construct'])
    run.rule_counts = {k: c for k, c in run.rule_counts.items() if c > 0}
    run.floors = {(new + k[len(old):] if k.startswith(old) else k): f for k, f in run.floors.items()}


def mutants(repo):
    return [
        Mutant('map-memo-keyed-by-the-result', lambda r: in_func(r, 'ComposedNode.ayns.map_nodes', "cache[persistent_id(child)] = possibly_new_child", "cache[persistent_id(possibly_new_child)] = possibly_new_child"), ['C10.R8']),
        Mutant('nested-holder-carries-parent-path', lambda r: in_func(r, 'EvalContext.PartialChild.get_or_set', "EvalContext.PartialChild(self._path + [key],", "EvalContext.PartialChild(self._path,"), ['C10.R7']),
        Mutant('lazy-entry-path', lambda r: in_func(r, 'EvalContext.PartialChild.__getitem__', "self._eval_ctx.evaluate_node(node, self._path + [key])", "self._eval_ctx.evaluate_node(node, self._path)"), ['C10.R7']),
        Mutant('memo-get-none-is-miss', lambda r: in_func(r, 'EvalContext.evaluate_node',
               "        if id(cfgobj) in self._eval_cache_id:\n            return self._eval_cache_id[id(cfgobj)]", "        cached = self._eval_cache_id.get(id(cfgobj))\n        if cached is not None:\n            return cached"), ['C10.R1']),
        Mutant('memo-only-for-containers', lambda r: in_func(r, 'EvalContext.evaluate_node',
               "        self._eval_cache_id[utils.persistent_id(cfgobj)] = evaluated_cfgobj", "        if not cfgobj.ayns.is_leaf:\n            self._eval_cache_id[utils.persistent_id(cfgobj)] = evaluated_cfgobj"), ['C10.R1']),
        Mutant('memo-plain-id', lambda r: in_func(r, 'EvalContext.evaluate_node', "self._eval_cache_id[utils.persistent_id(cfgobj)]", "self._eval_cache_id[id(cfgobj)]"), ['C10.R1']),
        Mutant('list-evaluates-scalars-directly', lambda r: in_func(r, 'ConfigList.ayns.on_evaluate_impl', "ctx.evaluate_node(value, path+[key])", "(value.ayns.on_evaluate(path+[key], ctx) if not isinstance(value, ComposedNode) else ctx.evaluate_node(value, path+[key]))"), ['C10.R2', 'C10.R4']),
        Mutant('cache-not-cleared-after', lambda r: in_func(r, 'EvalContext.evaluate', "        finally:\n            self._eval_cache.clear()\n            self._eval_cache_id.clear()", "        finally:\n            self._eval_cache.clear()"), ['C10.R3']),
        Mutant('dict-eval-values-twice', lambda r: in_func(r, 'ConfigDict.ayns.on_evaluate_impl', "for key, value in self.ayns.named_children())", "for key, value in list(self.ayns.named_children()) * 1)"), ['C10.R4']),
        Mutant('cache-hit-before-safety-test', lambda r: in_func(r, 'EvalContext.get_node', "            if self._require_all_safe:\n", "            if False:\n"), ['C10.R5']),
        Mutant('neutral-local-alias', lambda r: in_func(r, 'EvalContext.evaluate_node', "        evaluated_parent = None\n", "        evaluated_parent = None\n        _n = len(self._eval_stack)\n"), neutral=True),
    ]
