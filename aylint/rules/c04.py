"""C04 - !del / list replacement is exact; !merge element-wise; !clear empties."""
import ast

from ..mutate import Mutant, in_func, delete_stmt, in_module
from ..report import AnalysisError
from ..srcmodel import unparse, norm, walk_no_nested, calls_in
from .common import is_method_call, recv_of
from . import mergerules as mr
from . import unitrules
from . import pathrules as pr
from .tagtable import check_flag_tags

from .common import Guard  # noqa: E402

PROP = 'C04'
DECIDED = [
    'R1: path-base typing of every pruning / premerge lookup in the merge functions (peer lookups need a relative path, root lookups an absolute one); the removed-set and the new-path walk share one base.',
    'R2: ayns.delete resolution table: explicit > inherited > type default (lists and function nodes True, mappings False).',
    'R3: the protecting comparison in the pruning callback is strict; wholesale replacement and the list pre-filter let the newer node win ties.',
    'R4: removals are control-dependent on a delete flag; a key is removed only when the merge result is empty and the newer node carries an explicit delete flag.',
    'R5: !clear fetches the node at its own absolute path from the merge root, empties it and returns that same object.',
    'R7: type promotion table (_maybe_promote) over all pairs of node classes: the more specific kind survives, is emptied and refilled from the winner with the conversion matching the two built-in bases (list <- mapping: values(); mapping <- list: enumerate()), attributes copied from the winner.',
    'R6: !del / !merge constructors set exactly delete=True / False on a plain node.',
    'R8: ClearNode(value) evaluated: !clear accepts no argument (ValueError for any value other than None) and constructs its base exactly once.',
    'R9: ComposedNode.ayns.filter_nodes evaluated for all 32 verdict tables of the condition on a two-level tree: an entry survives iff the condition keeps it or it is a container that is non-empty after filtering; every removed path is reported. R7 also requires the container merge to end in _replace_*(..., allow_promotions=True).',
    'R10: ConfigList.ayns.set_child stores non-strictly (index == len appends: element-wise !merge can grow a list), the list interface strictly; _set validates once with its strict flag and stores at the validated position. R7 also: _replace_self / _replace_other attempt a promotion exactly when allowed.',
]
UNDECIDED = ['interplay of three-level flag inheritance with concrete data.']


def r5(repo, run):
    """!clear premerge on traces: every returning path fetched the node at the operator's own path from the accumulated tree, called
    .clear() on it and returns that very node"""
    from . import tr
    from .. import pathbase
    fi = repo.func('ClearNode.ayns.on_premerge_impl')
    path, into = fi.params()[1], fi.params()[2]
    paths = [p for p in tr.paths_of(repo, fi, no_inline=set(pathbase.NI), follow_exceptions=False) if p.status == 'return']
    if not paths:
        raise AnalysisError('ClearNode.on_premerge_impl: no returning path')
    probs = set()
    for p in paths:
        fetch = [e for e in p.events if e.kind == 'call' and e.attr in ('get_node', 'get_first_not_missing_node') and e.recv is not None and e.recv.text in (into + '.ayns', into)]
        if len(fetch) != 1:
            raise AnalysisError('ClearNode.on_premerge_impl: `node = into.ayns.get_node(path)` not recognised')
        F = fetch[0].result.text
        if not fetch[0].args or fetch[0].args[0].text != path:
            probs.add('fetches %s instead of its own path' % (fetch[0].args[0].text[:40] if fetch[0].args else None))
        clears = [e for e in p.events if e.kind == 'call' and e.attr == 'clear' and e.recv is not None and e.recv.text == F and not e.args]
        if not clears:
            other = sorted({e.callee[len(F):][:40] for e in p.events if e.kind == 'call' and e.recv is not None and e.recv.text.startswith(F)})
            probs.add('the fetched node is not emptied with .clear() on every path to the return (other operations on the node: %s): the container is not always left empty' % other)
        if p.ret is None or p.ret.text != F:
            probs.add('does not return the fetched node itself (kind must be preserved)')
    if probs:
        run.violation('C04.R5', fi, '!clear premerge', '; '.join(sorted(probs)))
    else:
        run.ok('C04.R5', fi, '!clear: node = into.get_node(path); node.clear(); return node')
    for cls in ('ConfigDict', 'ConfigList'):
        c = repo.resolve(cls, 'clear')
        src = norm(c.node)
        base = 'dict' if cls == 'ConfigDict' else 'list'
        if 'ComposedNode.ayns.clear(self)' not in src or '%s.clear(self)' % base not in src:
            run.violation('C04.R5', c, '%s.clear' % cls, 'clear() does not empty both the child map and the built-in storage')
        else:
            run.ok('C04.R5', c, '%s.clear empties child map and %s storage' % (cls, base))


def r3b(repo, run):
    """the counterpart of an older entry inside the deleting node is the deepest *existing* node along its path"""
    fi = repo.func('ComposedNode.ayns.get_first_not_missing_node')
    looks = [c for c in calls_in(fi.node) if is_method_call(c, recv='self', member='get_node', ayns=True)]
    if len(looks) != 1:
        raise AnalysisError('get_first_not_missing_node: lookup not recognised')
    c = looks[0]
    from .common import get_kw
    inc, inter = get_kw(c, 'incomplete'), get_kw(c, 'intermediate')
    pops = [x for x in calls_in(fi.node) if is_method_call(x, member='pop', ayns=False) and not x.args]
    if isinstance(inc, ast.Constant) and inc.value is True and isinstance(inter, ast.Constant) and inter.value is True and pops:
        run.ok('C04.R3', (fi.file, c.lineno, fi.qualname), unparse(c)[:100] + ' ; nodes.pop() of the missing tail', 'returns the deepest existing node on the path')
    elif isinstance(inc, ast.Constant) and inc.value is None:
        run.violation('C04.R3', fi, unparse(c), 'when the path does not fully exist the lookup gives up (incomplete=None) and falls back to the start node instead of the deepest existing ancestor: an older entry is then compared with the deleting node itself, not with its real counterpart (e.g. a !weak intermediate node)', node=c)
    else:
        raise AnalysisError('get_first_not_missing_node: idiom not recognised (incomplete=%s)' % (norm(inc) if inc is not None else None))


def check(repo, run, tier):
    g = Guard()
    g(r3b, repo, run)
    g(pr.typed_lookups, repo, run, 'C04.R1')
    g(pr.removed_set_bases, repo, run, 'C04.R1')
    g(mr.delete_resolution, repo, run, 'C04.R2')
    g(mr.propagation_table, repo, run, 'C04.R2', 'delete')
    g(mr.strictness, repo, run, 'C04.R3')
    g(mr.removal_guards, repo, run, 'C04.R4')
    g(r5, repo, run)
    g(check_flag_tags, repo, run, 'C04.R6', tags={'!del', '!merge'})
    g(mr.promotion_table, repo, run, 'C04.R7')
    g(unitrules.filter_nodes_table, repo, run, 'C04.R9')
    g(unitrules.promotions_enabled, repo, run, 'C04.R7')
    g(unitrules.clear_init, repo, run, 'C04.R8')
    g(unitrules.clear_premerge, repo, run, 'C04.R8')
    g(unitrules.promotion_guard, repo, run, 'C04.R7')
    g(unitrules.list_child_store, repo, run, 'C04.R10')
    g(unitrules.child_kwargs_table, repo, run, 'C04.R2')
    g(unitrules.getter_table, repo, run, 'C04.R2')
    g(unitrules.first_not_missing_table, repo, run, 'C04.R11')
    g(unitrules.propagate_implicit_table, repo, run, 'C04.R2', ('delete',))
    g(unitrules.node_identity_discipline, repo, run, 'C04.R12')
    g.done()


def mutants(repo):
    return [
        Mutant('child-looked-up-by-value', lambda r: in_func(r, 'ComposedNode.ayns.nodes_with_paths', "if child is None or (id(child) in memo and not allow_duplicates):", "if child is None or (child in memo and not allow_duplicates):"), ['C04.R12']),
        Mutant('explicit-merge-overwritten-by-inherited-delete', lambda r: in_func(r, 'ComposedNode._propagate_implicit_values', "            if self._delete is None:", "            if not self._delete:"), ['C04.R2']),
        Mutant('falsy-counterpart-counts-as-missing', lambda r: in_func(r, 'ComposedNode.ayns.get_first_not_missing_node', "            if _get_node(nodes[-1]) is not None:", "            if _get_node(nodes[-1]):"), ['C04.R11']),
        Mutant('explicit-delete-getter', lambda r: in_func(r, 'ConfigNode.ayns.explicit_delete', "return self._delete", "return None"), ['C04.R2']),
        Mutant('list-children-lose-default-delete', lambda r: in_func(r, 'ComposedNode._get_child_kwargs', "self._default_delete or self._implicit_delete", "self._implicit_delete"), ['C04.R2']),
        Mutant('merge-cannot-grow-lists', lambda r: in_func(r, 'ConfigList.ayns.set_child', "return self._set(index, value, strict=False)", "return self._set(index, value)"), ['C04.R10']),
        Mutant('promotion-when-not-allowed', lambda r: in_func(r, 'ConfigNode._replace_self', "        if allow_promotions:\n            ret = self._maybe_promote(other)", "        if not allow_promotions:\n            ret = self._maybe_promote(other)"), ['C04.R7']),
        Mutant('filter-drops-kept-containers', lambda r: in_func(r, 'ComposedNode.ayns.filter_nodes', "keep = keep or bool(possibly_new_child)", "keep = keep and bool(possibly_new_child)"), ['C04.R9']),
        Mutant('merge-without-promotion', lambda r: in_func(r, 'ComposedNode.ayns.on_merge_impl', "ret = self._replace_self(other, allow_promotions=True)", "ret = self._replace_self(other)"), ['C04.R7']),
        Mutant('clear-of-missing-target', lambda r: in_func(r, 'ClearNode.ayns.on_premerge_impl', "if node is None:", "if node is not None:"), ['C04.R8', 'C04.R5']),
        Mutant('clear-accepts-arguments', lambda r: in_func(r, 'ClearNode.__init__', "if value is not None:", "if value is None:"), ['C04.R8']),
        Mutant('F5-reverted-absolute-lookup-in-other', lambda r: in_func(r, 'ComposedNode.ayns.on_merge_impl', "get_first_not_missing_node(path[_prefix_len:])", "get_first_not_missing_node(path)"), ['C04.R1']),
        Mutant('prefilter-absolute-prefix', lambda r: in_func(r, 'ConfigList.ayns.on_merge_impl', "other.ayns.filter_nodes(keep_if_exists)", "other.ayns.filter_nodes(keep_if_exists, prefix=prefix)"), ['C04.R1']),
        Mutant('append-relative-on-root', lambda r: in_func(r, 'AppendNode.ayns.on_premerge_impl', "into.ayns.remove_node(path)", "into.ayns.remove_node(path[len(path):])"), ['C04.R1']),
        Mutant('require-new-different-prefix', lambda r: in_func(r, 'ComposedNode.ayns.on_merge_impl', "self.ayns.filter_nodes(maybe_keep, prefix=path, removed=removed)", "self.ayns.filter_nodes(maybe_keep, removed=removed)"), ['C04.R1']),
        Mutant('delete-getter-swallows-inherited', lambda r: in_func(r, 'ConfigNode.ayns.delete',
               "            if self._delete is None:\n                if self._implicit_delete is not None:\n                    return self._implicit_delete\n                return self._default_delete\n\n            return self._delete",
               "            return bool(notnone_or(self._delete, self._default_delete or self._implicit_delete))"), ['C04.R2']),
        Mutant('function-node-merges-by-default', lambda r: in_module(r, 'function', "class FunctionNode(ConfigDict):\n    _default_delete = True", "class FunctionNode(ConfigDict):\n    _default_delete = False"), ['C04.R2']),
        Mutant('protect-on-equal-priority', lambda r: in_func(r, 'ComposedNode.ayns.on_merge_impl', "return node.ayns.has_priority_over(other_node)", "return node.ayns.has_priority_over(other_node, if_equal=True)"), ['C04.R3']),
        Mutant('replacement-loses-ties', lambda r: in_func(r, 'ComposedNode.ayns.on_merge_impl', "if not self._children and other.ayns.has_priority_over(self, if_equal=True):", "if not self._children and other.ayns.has_priority_over(self):"), ['C04.R3']),
        Mutant('removal-on-effective-delete', lambda r: in_func(r, 'ComposedNode.ayns.on_merge_impl', "and value.ayns.explicit_delete:", "and value.ayns.delete:"), ['C04.R4']),
        Mutant('clear-keeps-forced', lambda r: in_func(r, 'ClearNode.ayns.on_premerge_impl', "node.clear()", "node.ayns.filter_nodes(lambda p, child: child.ayns.has_priority_over(self))"), ['C04.R5']),
        Mutant('clear-only-for-leaves', lambda r: in_func(r, 'ClearNode.ayns.on_premerge_impl', "        node.clear()\n", "        if not node.ayns.is_leaf:\n            node.ayns.filter_nodes(lambda p, child: child.ayns.has_priority_over(self), prefix=path)\n        else:\n            node.clear()\n"), ['C04.R5']),
        Mutant('counterpart-falls-back-to-root', lambda r: in_func(r, 'ComposedNode.ayns.get_first_not_missing_node', "incomplete=True)", "incomplete=None)"), ['C04.R3']),
        Mutant('clear-returns-new-dict', lambda r: in_func(r, 'ClearNode.ayns.on_premerge_impl', "        node.clear()\n        return node", "        node.clear()\n        return type(node)()"), ['C04.R5']),
        Mutant('promotion-forgets-clear', lambda r: in_func(r, 'ConfigNode._maybe_promote', "            other.clear()\n            if isinstance(other, list):\n                other.extend(self)", "            if isinstance(other, list):\n                other.extend(self)"), ['C04.R7']),
        Mutant('promotion-list-from-mapping-keys', lambda r: in_func(r, 'ConfigNode._maybe_promote', "other.extend(self.values())", "other.extend(self)"), ['C04.R7']),
        Mutant('promotion-keeps-plain-type', lambda r: in_func(r, 'ConfigNode._maybe_promote', "        if issubclass(type(other), type(self)):", "        if issubclass(type(other), type(self)) and False:"), ['C04.R7']),
        Mutant('del-tag-merges', lambda r: in_func(r, 'yaml._del_constructor', "'delete': True", "'delete': False"), ['C04.R6']),
        Mutant('neutral-prefix-len-inline', lambda r: in_func(r, 'ComposedNode.ayns.on_merge_impl', "path[_prefix_len:]", "path[len(prefix_):]") if False else
               in_func(r, 'ComposedNode.ayns.on_merge_impl', "                _prefix_len = len(path)\n", "                _prefix_len = len(path)\n                _unused = None\n"), neutral=True),
    ]
