"""C19 - deepcopy and pickle reproduce any node tree."""
import ast

from ..mutate import Mutant, in_func, delete_stmt, in_module
from ..report import AnalysisError
from ..srcmodel import unparse, norm, walk_no_nested, calls_in
from .common import is_method_call, name_defs
from . import containers as ct
from . import mergerules as mr

PROP = 'C19'
DECIDED = [
    'R1: ComposedNode.__getstate__ removes the child map from a *copy* of __dict__ and returns that copy.',
    'R2: __reduce__ returns (ComposedNode._recreate, (type(self),), state, list-iterator, dict-item-iterator) with the iterator matching the built-in base; _recreate builds the instance with cls.__new__ and an empty child map.',
    'R3: the mutators the copy/pickle protocols call to re-attach children (append/extend for lists, __setitem__ for mappings) keep both stores paired (C17.R1) and the helpers they reach tolerate the pre-__setstate__ object (hasattr guards first thing); _get_child_kwargs hands out only the implicit_* channel.',
    'R4: node classes declare no __slots__; ConfigScalar.__reduce__ passes a copy of __dict__ as state.',
    'R5: copy-protocol inventory: any __deepcopy__/__copy__ in the package passes its memo to every nested deepcopy and never transfers self.__dict__ (or a mutable field) by reference; no other class overrides __reduce__/__getstate__/__setstate__ unchecked.',
]
UNDECIDED = ['equality of flags / behaviour of the copy as data;', 'ConfigTuple (unfinished in the repo; INFO).']
COPY_HOOKS = ('__reduce__', '__reduce_ex__', '__getstate__', '__setstate__', '__deepcopy__', '__copy__', '__getnewargs__', '__getnewargs_ex__')
CHECKED_HOOKS = {('ComposedNode', '__getstate__'), ('ComposedNode', '__setstate__'), ('ComposedNode', '__reduce__'), ('ConfigScalar', '__reduce__'), ('ConfigList', '__setstate__')}


def _is_dict_copy(e):
    s = norm(e)
    return s in ('self.__dict__.copy()', 'dict(self.__dict__)', 'copy.copy(self.__dict__)', '{**self.__dict__}')


def r1(repo, run):
    fi = repo.func('ComposedNode.__getstate__')
    rets = [s for s in walk_no_nested(fi.node) if isinstance(s, ast.Return)]
    if len(rets) != 1 or not isinstance(rets[0].value, ast.Name):
        raise AnalysisError('__getstate__: single `return <name>` not recognised')
    var = rets[0].value.id
    defs = name_defs(fi, var)
    removed = False
    for s in walk_no_nested(fi.node):
        if isinstance(s, ast.Delete) and any(isinstance(t, ast.Subscript) and norm(t.value) == var and norm(t.slice) == "'_children'" for t in s.targets):
            removed = True
        if isinstance(s, ast.Delete) and any(isinstance(t, ast.Subscript) and norm(t.value) == 'self.__dict__' for t in s.targets):
            run.violation('C19.R1', fi, norm(s), 'deletes from the live __dict__ of the node being copied', node=s)
    for c in calls_in(fi.node):
        if is_method_call(c, recv=var, member='pop') and c.args and norm(c.args[0]) == "'_children'":
            removed = True
        if is_method_call(c, recv='self.__dict__', member=('pop', 'clear', 'popitem')):
            run.violation('C19.R1', fi, unparse(c), 'mutates the live __dict__ of the node being copied', node=c)
    if len(defs) != 1 or not _is_dict_copy(defs[0][1]):
        run.violation('C19.R1', fi, 'state = ' + (norm(defs[0][1]) if defs else '?'), 'the state dict is not a copy of self.__dict__: removing the child map from it would strip the original node (or share its attribute dict with the copy)')
    elif not removed:
        run.violation('C19.R1', fi, norm(fi.node)[:160], 'the child map is left in the pickled/copied state (children are re-attached separately through the item iterators)')
    else:
        run.ok('C19.R1', fi, "state = self.__dict__.copy(); del state['_children']; return state")
    ss = repo.func('ComposedNode.__setstate__')
    if norm(ss.node.body[-1]) != 'self.__dict__.update(state)':
        raise AnalysisError('__setstate__ shape not recognised')
    run.ok('C19.R1', ss, '__setstate__: self.__dict__.update(state) (child map populated by the item iterators survives)')


def r2(repo, run):
    fi = repo.func('ComposedNode.__reduce__')
    rets = [s for s in walk_no_nested(fi.node) if isinstance(s, ast.Return)]
    if len(rets) != 1 or not isinstance(rets[0].value, ast.Tuple) or len(rets[0].value.elts) != 5:
        run.violation('C19.R2', fi, norm(rets[0]) if rets else '__reduce__', '__reduce__ does not return the 5-tuple (callable, args, state, list items, dict items)')
        return
    f, args, state, lit, dit = rets[0].value.elts
    probs = []
    if norm(f) != 'ComposedNode._recreate':
        probs.append('reconstructor is %s' % norm(f))
    if norm(args) not in ('(type(self),)', '(self.__class__,)'):
        probs.append('reconstructor arguments %s do not carry the exact class' % norm(args))
    sd = name_defs(fi, state.id) if isinstance(state, ast.Name) else []
    if not sd or norm(sd[0][1]) != 'self.__getstate__()':
        probs.append('state is not self.__getstate__()')
    for var, base, want in ((lit, 'list', 'iter(self)'), (dit, 'dict', 'iter(self.items())')):
        if not isinstance(var, ast.Name):
            probs.append('%s iterator slot is not a variable' % base)
            continue
        ok = False
        for s in walk_no_nested(fi.node):
            if isinstance(s, ast.If):
                for arm in [s] + [x for x in s.orelse if isinstance(x, ast.If)]:
                    if norm(arm.test) == 'isinstance(self, %s)' % base:
                        for a in arm.body:
                            if isinstance(a, ast.Assign) and norm(a.targets[0]) == var.id and norm(a.value) == want:
                                ok = True
        if not ok:
            probs.append('%s children are not supplied as %s under isinstance(self, %s) in slot %d' % (base, want, base, 4 if base == 'list' else 5))
    if probs:
        run.violation('C19.R2', fi, norm(rets[0]), '; '.join(probs), node=rets[0])
    else:
        run.ok('C19.R2', fi, norm(rets[0]), 'list -> 4th slot iter(self); dict -> 5th slot iter(self.items())')
    rc = repo.func('ComposedNode._recreate')
    src = [norm(s) for s in rc.node.body]
    if src != ['new = cls.__new__(cls)', 'new._children = {}', 'return new']:
        run.violation('C19.R2', rc, ' ; '.join(src), 'the reconstructor must create a bare instance with an empty child map (attributes arrive later through __setstate__; running constructors here re-derives flags from defaults)')
    else:
        run.ok('C19.R2', rc, '_recreate: cls.__new__(cls) with an empty child map')


def r3(repo, run):
    ct.pairing(repo, run, 'C19.R3', classes=('ConfigList',), ops=['append', 'extend'])
    ct.pairing(repo, run, 'C19.R3', classes=('ConfigDict',), ops=['__setitem__'])
    for q in ('ComposedNode._get_child_kwargs', 'ComposedNode._propagate_implicit_values'):
        fi = repo.func(q)
        body = [s for s in fi.node.body if not (isinstance(s, ast.Expr) and isinstance(s.value, ast.Constant))]
        guard = None
        for s in body[:2]:
            if isinstance(s, ast.If) and norm(s.test) == "not hasattr(self, '_delete')" and isinstance(s.body[-1], ast.Return):
                guard = s
        if guard is None:
            run.violation('C19.R3', fi, 'pre-__setstate__ guard', 'children are re-attached before attributes are restored when unpickling; without the `if not hasattr(self, \'_delete\'): return` guard this helper fails or derives flags from an attribute-less parent')
        else:
            # nothing that reads flags may precede the guard
            before = body[:body.index(guard)]
            if any('self._' in norm(b) for b in before):
                run.violation('C19.R3', fi, norm(before[0]), 'flags are read before the pre-__setstate__ guard', node=before[0])
            else:
                run.ok('C19.R3', (fi.file, guard.lineno, fi.qualname), "if not hasattr(self, '_delete'): return", 'tolerates the bare instance made by _recreate')
    mr.child_kwargs_keys(repo, run, 'C19.R3')


def r4(repo, run):
    n = 0
    for cname in repo.subclasses('ConfigNode'):
        ci = repo.classes[cname]
        n += 1
        if '__slots__' in ci.attrs:
            run.violation('C19.R4', (ci.module.relpath, ci.node.lineno, cname), '%s.__slots__' % cname, 'state kept outside __dict__ is not carried by __getstate__/__reduce__')
    run.ok('C19.R4', ('awesomeyaml/nodes', 0, '*'), 'no __slots__ in %d node classes' % n)
    fi = repo.func('ConfigScalar.__reduce__')
    rets = [s for s in walk_no_nested(fi.node) if isinstance(s, ast.Return) and isinstance(s.value, ast.Tuple)]
    if len(rets) != 1 or len(rets[0].value.elts) != 3:
        raise AnalysisError('ConfigScalar.__reduce__: 3-tuple return not recognised')
    cls_, args, state = rets[0].value.elts
    sd = name_defs(fi, state.id) if isinstance(state, ast.Name) else []
    st_src = sd[0][1] if sd else state
    if not _is_dict_copy(st_src):
        run.violation('C19.R4', fi, norm(rets[0]), 'scalar state is %s, not a copy of self.__dict__' % norm(st_src), node=rets[0])
    elif norm(cls_) != 'ConfigScalar' or '_get_native_value' not in norm(args):
        run.violation('C19.R4', fi, norm(rets[0]), 'scalar is not rebuilt as ConfigScalar(native value)', node=rets[0])
    else:
        run.ok('C19.R4', fi, norm(rets[0]), 'ConfigScalar(native value) + copy of __dict__')


def r5(repo, run):
    n = 0
    for fi in repo.all_functions(include_nested=False):
        if fi.name not in COPY_HOOKS or fi.cls is None:
            continue
        n += 1
        key = (fi.cls.name, fi.name)
        if fi.name in ('__deepcopy__', '__copy__'):
            memo = fi.params()[1] if len(fi.params()) > 1 else None
            bad = False
            for c in calls_in(fi.node):
                if unparse(c.func) in ('copy.deepcopy', 'deepcopy'):
                    if fi.name == '__deepcopy__' and (len(c.args) < 2 or norm(c.args[1]) != memo) and not any(k.arg == 'memo' and norm(k.value) == memo for k in c.keywords):
                        run.violation('C19.R5', fi, unparse(c), 'nested deepcopy without the memo: nodes shared inside the tree are split into separate copies', node=c)
                        bad = True
                if isinstance(c.func, ast.Attribute) and c.func.attr == 'update' and norm(c.func.value).endswith('.__dict__') and c.args and norm(c.args[0]) == 'self.__dict__':
                    run.violation('C19.R5', fi, unparse(c), 'attribute dict transferred by reference: mutable fields (metadata) are shared between original and copy', node=c)
                    bad = True
            for s in walk_no_nested(fi.node):
                if isinstance(s, ast.Assign) and norm(s.value) in ('self.__dict__', 'self._metadata') and fi.name == '__deepcopy__':
                    run.violation('C19.R5', fi, norm(s), 'mutable state transferred by reference in a deep copy', node=s)
                    bad = True
            if not bad:
                run.ok('C19.R5', fi, '%s.%s' % key, 'memo passed on, no state shared by reference')
        elif key in CHECKED_HOOKS:
            run.ok('C19.R5', fi, '%s.%s' % key, 'checked by R1/R2/R4')
        else:
            run.violation('C19.R5', fi, '%s.%s' % key, 'copy/pickle hook outside the reconstruction scheme that R1-R4 check (ComposedNode / ConfigScalar)')
    if n < 4:
        raise AnalysisError('copy-protocol inventory found only %d hooks' % n)
    ct_ = repo.classes.get('ConfigTuple')
    if ct_ is not None:
        run.info('C19.R5', (ct_.module.relpath, ct_.node.lineno, 'ConfigTuple'), 'ConfigTuple', 'unfinished node kind (repo TODO); not covered')


def check(repo, run, tier):
    r1(repo, run)
    r2(repo, run)
    r3(repo, run)
    r4(repo, run)
    r5(repo, run)


def mutants(repo):
    return [
        Mutant('getstate-no-copy', lambda r: in_func(r, 'ComposedNode.__getstate__', "state = self.__dict__.copy()", "state = self.__dict__"), ['C19.R1']),
        Mutant('getstate-keeps-children', lambda r: in_func(r, 'ComposedNode.__getstate__', "        del state['_children']\n", ""), ['C19.R1']),
        Mutant('reduce-dict-items-in-list-slot', lambda r: in_func(r, 'ComposedNode.__reduce__', "return ComposedNode._recreate, (type(self), ), state, lit, dit", "return ComposedNode._recreate, (type(self), ), state, dit, lit"), ['C19.R2']),
        Mutant('reduce-keys-only', lambda r: in_func(r, 'ComposedNode.__reduce__', "dit = iter(self.items())", "dit = iter(self)"), ['C19.R2']),
        Mutant('recreate-runs-init', lambda r: in_func(r, 'ComposedNode._recreate', "        new._children = {}\n", "        ConfigNode.__init__(new)\n        new._children = {}\n"), ['C19.R2']),
        Mutant('unpickle-guard-removed', lambda r: in_func(r, 'ComposedNode._get_child_kwargs', "        if not hasattr(self, '_delete'):", "        if False:"), ['C19.R3']),
        Mutant('child-kwargs-carry-priority', lambda r: in_func(r, 'ComposedNode._get_child_kwargs', "        ret['implicit_allow_new'] =", "        ret['priority'] = self._priority\n        ret['implicit_allow_new'] ="), ['C19.R3']),
        Mutant('append-storage-only', lambda r: in_func(r, 'ConfigList.append', "        value = ComposedNode.ayns.set_child(self, len(self), value)\n", ""), ['C19.R3']),
        Mutant('scalar-state-by-reference', lambda r: in_func(r, 'ConfigScalar.__reduce__', "state = self.__dict__.copy()", "state = self.__dict__"), ['C19.R4']),
        Mutant('scalar-deepcopy-shares-dict', lambda r: in_func(r, 'ConfigScalar.__reduce__', "    def __reduce__(self):",
               "    def __deepcopy__(self, memo):\n        ret = self._dyn_base.__new__(type(self), self._get_native_value())\n        ret.__dict__.update(self.__dict__)\n        return ret\n\n    def __reduce__(self):"), ['C19.R5']),
        Mutant('function-deepcopy-drops-memo', lambda r: in_func(r, 'FunctionNode.__bool__', "    def __bool__(self):",
               "    def __deepcopy__(self, memo):\n        import copy\n        new = type(self).__new__(type(self))\n        memo[id(self)] = new\n        new._children = {}\n        new.__dict__.update(copy.deepcopy(self.__getstate__(), memo))\n        for k, child in self.items():\n            new[k] = copy.deepcopy(child)\n        return new\n\n    def __bool__(self):"), ['C19.R5']),
        Mutant('neutral-getstate-dict-ctor', lambda r: in_func(r, 'ComposedNode.__getstate__', "state = self.__dict__.copy()", "state = dict(self.__dict__)"), neutral=True),
    ]
