"""C19 - deepcopy and pickle reproduce any node tree."""
import ast
import re

from ..mutate import Mutant, in_func, delete_stmt, in_module
from ..report import AnalysisError
from ..srcmodel import unparse, norm, walk_no_nested, calls_in
from .common import is_method_call, name_defs, node_obj, fde_guard
from ..fde import FDE
from . import tr
from . import containers as ct
from . import mergerules as mr

from . import unitrules
from .common import Guard  # noqa: E402

PROP = 'C19'
DECIDED = [
    'R1: ComposedNode.__getstate__ removes the child map from a *copy* of __dict__ and returns that copy.',
    'R2: __reduce__ returns (ComposedNode._recreate, (type(self),), state, list-iterator, dict-item-iterator) with the iterator matching the built-in base; _recreate builds the instance with cls.__new__ and an empty child map.',
    'R3: the mutators the copy/pickle protocols call to re-attach children (append/extend for lists, __setitem__ for mappings) keep both stores paired (C17.R1) and the helpers they reach tolerate the pre-__setstate__ object (hasattr guards first thing); _get_child_kwargs hands out only the implicit_* channel.',
    'R4: node classes declare no __slots__; ConfigScalar.__reduce__ passes a copy of __dict__ as state.',
    'R5: copy-protocol inventory: any __deepcopy__/__copy__ in the package passes its memo to every nested deepcopy and never transfers self.__dict__ (or a mutable field) by reference; no other class overrides __reduce__/__getstate__/__setstate__ unchecked.',
]
UNDECIDED = ['equality of flags / behaviour of the copy as data beyond the evaluated tables (R6).']
COPY_HOOKS = ('__reduce__', '__reduce_ex__', '__getstate__', '__setstate__', '__deepcopy__', '__copy__', '__getnewargs__', '__getnewargs_ex__')
CHECKED_HOOKS = {('ComposedNode', '__getstate__'), ('ComposedNode', '__setstate__'), ('ComposedNode', '__reduce__'), ('ConfigScalar', '__reduce__'), ('ConfigList', '__setstate__')}


COPY_TEXTS = ('self.__dict__.copy()', 'dict(self.__dict__)', 'copy.copy(self.__dict__)', '{**self.__dict__}')


def _is_dict_copy(e):
    s = norm(e)
    return s in COPY_TEXTS


def r1(repo, run):
    """evaluated on the traces of __getstate__ (locals substituted): the returned object is a fresh copy of
    __dict__, the child map has been removed from *it*, the live __dict__ is never mutated"""
    fi = repo.func('ComposedNode.__getstate__')
    paths = tr.paths_of(repo, fi)
    rets = tr.top_returns(paths)
    if not rets:
        raise AnalysisError('__getstate__: no returning path')
    bad = False
    for p, fin in rets:
        ret = fin.value.text
        for e in p.events:
            if e.kind == 'store' and e.target.startswith('del self.__dict__['):
                run.violation('C19.R1', tr.where(fi, e), e.target, 'deletes from the live __dict__ of the node being copied')
                bad = True
            if tr.is_call(e, attr=('pop', 'clear', 'popitem', 'update', '__delitem__', 'setdefault'), recv='self.__dict__'):
                run.violation('C19.R1', tr.where(fi, e), e.callee, 'mutates the live __dict__ of the node being copied')
                bad = True
        if ret == 'self.__dict__':
            run.violation('C19.R1', tr.where(fi, fin), 'return self.__dict__', 'the state dict is not a copy of self.__dict__: removing the child map from it would strip the original node (or share its attribute dict with the copy)')
            bad = True
            continue
        filtered = re.match(r"^\{(\w+): (\w+) for \1, \2 in self\.__dict__\.items\(\) if \1 != '_children'\}$", ret)
        if ret not in COPY_TEXTS and not filtered:
            raise AnalysisError('__getstate__: returned value %s not recognised as a copy of __dict__' % ret[:80])
        removed = bool(filtered)
        for e in p.events:
            if e.kind == 'store' and e.target == "del %s['_children']" % ret:
                removed = True
            if tr.is_call(e, attr='pop', recv=ret) and e.args and e.args[0].const == '_children':
                removed = True
        if not removed:
            run.violation('C19.R1', tr.where(fi, fin), 'return ' + ret, 'the child map is left in the pickled/copied state (children are re-attached separately through the item iterators)')
            bad = True
    if not bad:
        run.ok('C19.R1', fi, 'returns a copy of self.__dict__ without the child map; live __dict__ untouched (%d paths)' % len(rets))
    ss = repo.func('ComposedNode.__setstate__')
    sp = tr.paths_of(repo, ss)
    upd = [e for p in sp for e in p.events if tr.is_call(e, attr='update', recv='self.__dict__') and e.args and e.args[0].text == ss.params()[1]]
    clobber = [e for p in sp for e in p.events if (e.kind == 'store' and e.target in ('self.__dict__', 'self._children')) or tr.is_call(e, attr='clear', recv=('self.__dict__', 'self._children'))]
    if clobber:
        run.violation('C19.R1', tr.where(ss, clobber[0]), clobber[0].target or clobber[0].callee, '__setstate__ replaces the attribute dict / child map that the item iterators populate')
    elif len(upd) != len(sp):
        raise AnalysisError('__setstate__ shape not recognised')
    else:
        run.ok('C19.R1', ss, '__setstate__: self.__dict__.update(state) (child map populated by the item iterators survives)')


def r2(repo, run):
    fi = repo.func('ComposedNode.__reduce__')
    paths = tr.paths_of(repo, fi, no_inline={'__getstate__', '_recreate'})
    rets = tr.top_returns(paths)
    if not rets:
        raise AnalysisError('__reduce__: no returning path')
    n = 0
    probs = set()
    for p, fin in rets:
        el = fin.value.elems
        if el is not None and any(isinstance(getattr(x, 'ast', None), ast.Starred) for x in el):
            raise AnalysisError('__reduce__: the returned tuple is assembled with a starred part (%s): not recognised' % fin.value.text[:80])
        if el is None and not isinstance(fin.value.ast, (ast.Tuple, ast.Constant)):
            raise AnalysisError('__reduce__: what is returned (%s) is not a tuple display: not recognised' % fin.value.text[:80])
        if el is None or len(el) != 5:
            run.violation('C19.R2', tr.where(fi, fin), fin.value.text[:120], '__reduce__ does not return the 5-tuple (callable, args, state, list items, dict items)')
            return
        f, args, state, lit, dit = el
        if f.text not in ('ComposedNode._recreate', 'self._recreate', 'type(self)._recreate', 'self.__class__._recreate'):
            probs.add('reconstructor is %s' % f.text)
        if args.text not in ('(type(self),)', '(self.__class__,)'):
            probs.add('reconstructor arguments %s do not carry the exact class' % args.text)
        if state.text != 'self.__getstate__()':
            probs.add('state is %s, not self.__getstate__()' % state.text[:60])
        is_list = tr.fact(p, 'isinstance(self, list)', True)
        is_dict = tr.fact(p, 'isinstance(self, dict)', True)
        if is_list and is_dict:
            continue
        if is_list:
            n += 1
            if lit.text != 'iter(self)' or dit.const is not None:
                probs.add('list children are not supplied as iter(self) in slot 4 alone (slots: %s, %s)' % (lit.text, dit.text))
        elif is_dict:
            n += 1
            if dit.text != 'iter(self.items())' or lit.const is not None:
                probs.add('dict children are not supplied as iter(self.items()) in slot 5 alone (slots: %s, %s)' % (lit.text, dit.text))
        elif tr.fact(p, 'isinstance(self, list)', False) and tr.fact(p, 'isinstance(self, dict)', False):
            pass
        else:
            raise AnalysisError('__reduce__: a path does not test the built-in base (%s)' % tr.describe(p))
    if n < 2 and not probs:
        raise AnalysisError('__reduce__: list / dict paths not found')
    if probs:
        run.violation('C19.R2', fi, 'return of __reduce__', '; '.join(sorted(probs)))
    else:
        run.ok('C19.R2', fi, '(ComposedNode._recreate, (type(self),), self.__getstate__(), lit, dit)', 'list -> 4th slot iter(self); dict -> 5th slot iter(self.items()) (%d paths)' % len(rets))
    rc = repo.func('ComposedNode._recreate')
    cls = rc.params()[0]
    bad = False
    for p, fin in tr.top_returns(tr.paths_of(repo, rc)):
        new = fin.value.text
        if new not in ('%s.__new__(%s)' % (cls, cls), 'object.__new__(%s)' % cls):
            bad = 'returns %s' % new[:80]
        calls = [e for e in p.events if e.kind == 'call' and e.callee not in ('%s.__new__' % cls, 'object.__new__')]
        if calls:
            bad = 'calls %s' % calls[0].callee
        stores = [e for e in p.events if e.kind == 'store']
        if not any(e.target == new + '._children' and e.value is not None and e.value.text in ('{}', 'dict()') for e in stores):
            bad = bad or 'no empty child map'
        extra = [e for e in stores if e.target != new + '._children']
        if extra:
            bad = bad or 'also sets %s' % extra[0].target
    if bad:
        run.violation('C19.R2', rc, '_recreate: ' + bad, 'the reconstructor must create a bare instance with an empty child map (attributes arrive later through __setstate__; running constructors here re-derives flags from defaults)')
    else:
        run.ok('C19.R2', rc, '_recreate: cls.__new__(cls) with an empty child map')


def _instance_attrs(repo):
    out = set()
    for q in ('ConfigNode.__init__', 'ComposedNode.__init__'):
        fi = repo.func(q)
        for n in ast.walk(fi.node):
            if isinstance(n, ast.Attribute) and isinstance(n.ctx, ast.Store) and isinstance(n.value, ast.Name) and n.value.id == 'self':
                out.add(n.attr)
    if '_delete' not in out or len(out) < 6:
        raise AnalysisError('instance attributes of ConfigNode not found')
    return out - {'_children'}


def r3(repo, run):
    ct.pairing(repo, run, 'C19.R3', classes=('ConfigList',), ops=['append', 'extend'])
    ct.pairing(repo, run, 'C19.R3', classes=('ConfigDict',), ops=['__setitem__'])
    # the object the item iterators fill is the bare instance made by _recreate: evaluate the helpers the mutators
    # reach on an object that has a child map and *no* instance attributes
    attrs = _instance_attrs(repo)
    for q, with_child in (('ComposedNode._get_child_kwargs', True), ('ComposedNode._propagate_implicit_values', False)):
        fi = repo.func(q)
        for child in ((None, 'child') if with_child else (None,)):
            bare = node_obj('bare', 'ComposedNode')
            for a in attrs:
                bare.f.pop(a, None)
            # an attribute with a class-level fallback is *not* missing on the bare instance (hasattr is true, the class value is read)
            bare.missing = {a for a in attrs if repo.class_attr('ComposedNode', a)[1] is None}
            bare.f['_children'] = {}
            args = [bare]
            if child:
                args.append(node_obj('child', 'ConfigNode'))
            f = FDE(repo)
            r = fde_guard(lambda: f.call(fi, *args))
            if r.raised is not None:
                run.violation('C19.R3', fi, '%s on the pre-__setstate__ object raises %s' % (fi.name, r.raised), 'children are re-attached before attributes are restored when unpickling; without the `hasattr(self, \'_delete\')` guard this helper fails on (or derives flags from) an attribute-less parent')
                break
            if with_child and r.ret != {}:
                run.violation('C19.R3', fi, '%s on the pre-__setstate__ object returns %r' % (fi.name, r.ret), 'flags are derived from an attribute-less parent')
                break
        else:
            run.ok('C19.R3', fi, '%s evaluated on a bare instance (no instance attributes)' % fi.name, 'tolerates the bare instance made by _recreate')
    mr.child_kwargs_keys(repo, run, 'C19.R3')


def r4(repo, run):
    n = 0
    for cname in repo.subclasses('ConfigNode'):
        ci = repo.classes[cname]
        n += 1
        if '__slots__' in ci.attrs:
            run.violation('C19.R4', (ci.module.relpath, ci.node.lineno, cname), '%s.__slots__' % cname, 'state kept outside __dict__ is not carried by __getstate__/__reduce__')
    run.ok('C19.R4', ('awesomeyaml/nodes', 0, '*'), 'no __slots__ in %d node classes' % n)
    fi = repo.func('ConfigScalar.__reduce__')
    rets = [s for s in walk_no_nested(fi.node) if isinstance(s, ast.Return) and isinstance(s.value, ast.Tuple)]
    if len(rets) != 1 or len(rets[0].value.elts) != 3:
        raise AnalysisError('ConfigScalar.__reduce__: 3-tuple return not recognised')
    cls_, args, state = rets[0].value.elts
    sd = name_defs(fi, state.id) if isinstance(state, ast.Name) else []
    st_src = sd[0][1] if sd else state
    if not _is_dict_copy(st_src):
        run.violation('C19.R4', fi, norm(rets[0]), 'scalar state is %s, not a copy of self.__dict__' % norm(st_src), node=rets[0])
    elif norm(cls_) != 'ConfigScalar' or '_get_native_value' not in norm(args):
        run.violation('C19.R4', fi, norm(rets[0]), 'scalar is not rebuilt as ConfigScalar(native value)', node=rets[0])
    else:
        run.ok('C19.R4', fi, norm(rets[0]), 'ConfigScalar(native value) + copy of __dict__')


def _unprotected_self(e, memo):
    """does the expression carry state of `self` that did not pass through copy.deepcopy(<...>, memo)?  (the class of self and its
    identity are not state)"""
    if isinstance(e, ast.Call):
        fn = norm(e.func)
        if fn in ('copy.deepcopy', 'deepcopy') and (len(e.args) >= 2 and norm(e.args[1]) == memo or any(k.arg == 'memo' and norm(k.value) == memo for k in e.keywords)):
            return False
        if fn in ('type', 'id', 'len', 'isinstance') and e.args and norm(e.args[0]) == 'self':
            return False
    if isinstance(e, ast.Attribute) and e.attr == '__class__' and norm(e.value) == 'self':
        return False
    if isinstance(e, ast.Name):
        return e.id == 'self'
    return any(_unprotected_self(c, memo) for c in ast.iter_child_nodes(e))


def _deepcopy_flow(repo, fi, memo):
    """__deepcopy__ on traces: whatever reaches the new object (state, items, attributes) from self must have passed through
    copy.deepcopy(..., memo): a shallow copy splits nodes that are shared inside the tree, a value passed by reference is shared
    between original and copy"""
    out = []
    seen = set()
    try:
        paths = tr.paths_of(repo, fi, no_inline={'__getstate__', '__setstate__', '_recreate', 'set_child', 'append', '__setitem__'}, follow_exceptions=False)
    except AnalysisError:
        return out
    for p in paths:
        if p.status != 'return' or p.ret is None:
            continue
        NEW = p.ret.text
        for e in p.events:
            sinks = []
            if e.kind == 'call' and e.recv is not None and (e.recv.text == NEW or e.recv.text.startswith(NEW + '.')) and e.attr not in ('__new__',):
                sinks = [a.ast for a in e.args] + [v.ast for v in e.kw.values()]
            elif e.kind == 'call' and e.args and e.args[0].text == NEW and e.recv is not None and e.recv.text.split('.')[0] in ('list', 'dict', 'ComposedNode', 'ConfigNode', 'object'):
                sinks = [a.ast for a in e.args[1:]]
            elif e.kind == 'store' and (e.target.startswith(NEW + '.') or e.target.startswith(NEW + '[')) and e.value is not None:
                sinks = [e.value.ast]
            for a in sinks:
                if _unprotected_self(a, memo) and id(e.node) not in seen:
                    seen.add(id(e.node))
                    t = norm(a)
                    shallow = 'copy.copy(' in t or '.copy()' in t
                    out.append(('%s reaches the copy without copy.deepcopy(..., %s): %s' % (t[:70], memo, 'a shallow copy bypasses the memo, so nodes shared inside the tree are split into separate copies and nested mutable state is shared' if shallow else 'state is transferred by reference: mutable fields (metadata) are shared between original and copy'), e))
    return out


def r5(repo, run):
    n = 0
    for fi in repo.all_functions(include_nested=False):
        if fi.name not in COPY_HOOKS or fi.cls is None:
            continue
        n += 1
        key = (fi.cls.name, fi.name)
        if fi.name in ('__deepcopy__', '__copy__'):
            memo = fi.params()[1] if len(fi.params()) > 1 else None
            bad = False
            if fi.name == '__deepcopy__' and memo:
                for why, ev in _deepcopy_flow(repo, fi, memo):
                    run.violation('C19.R5', tr.where(fi, ev), (ev.callee or ev.target or '')[:100], why)
                    bad = True
            for c in calls_in(fi.node):
                if unparse(c.func) in ('copy.deepcopy', 'deepcopy'):
                    if fi.name == '__deepcopy__' and (len(c.args) < 2 or norm(c.args[1]) != memo) and not any(k.arg == 'memo' and norm(k.value) == memo for k in c.keywords):
                        run.violation('C19.R5', fi, unparse(c), 'nested deepcopy without the memo: nodes shared inside the tree are split into separate copies', node=c)
                        bad = True
                if isinstance(c.func, ast.Attribute) and c.func.attr == 'update' and norm(c.func.value).endswith('.__dict__') and c.args and norm(c.args[0]) == 'self.__dict__':
                    run.violation('C19.R5', fi, unparse(c), 'attribute dict transferred by reference: mutable fields (metadata) are shared between original and copy', node=c)
                    bad = True
            for s in walk_no_nested(fi.node):
                if isinstance(s, ast.Assign) and norm(s.value) in ('self.__dict__', 'self._metadata') and fi.name == '__deepcopy__':
                    run.violation('C19.R5', fi, norm(s), 'mutable state transferred by reference in a deep copy', node=s)
                    bad = True
            if not bad:
                run.ok('C19.R5', fi, '%s.%s' % key, 'memo passed on, no state shared by reference')
        elif key in CHECKED_HOOKS:
            run.ok('C19.R5', fi, '%s.%s' % key, 'checked by R1/R2/R4')
        else:
            run.violation('C19.R5', fi, '%s.%s' % key, 'copy/pickle hook outside the reconstruction scheme that R1-R4 check (ComposedNode / ConfigScalar)')
    if n < 4:
        raise AnalysisError('copy-protocol inventory found only %d hooks' % n)



def r2b(repo, run):
    # every node class that inherits ComposedNode.__reduce__ is rebuilt by _recreate with cls.__new__(cls) - no further argument - and
    # refilled through append / item assignment: its __new__ must accept that call and its built-in base must be refillable
    rec = repo.func('ComposedNode._recreate')
    bare = any(isinstance(c, ast.Call) and isinstance(c.func, ast.Attribute) and c.func.attr == '__new__' and len(c.args) == 1 and not c.keywords for c in ast.walk(rec.node))
    for cname, ci in sorted(repo.classes.items()):
        if cname == 'ComposedNode' or not repo.is_subclass(cname, 'ComposedNode') or repo.resolve(cname, '__reduce__') is not repo.func('ComposedNode.__reduce__'):
            continue
        nw = repo.resolve(cname, '__new__')
        mro = repo.mro(cname)
        problems = []
        if bare and nw is not None:
            a = nw.node.args
            required = [x.arg for x in (a.posonlyargs + a.args)[1:len(a.posonlyargs + a.args) - len(a.defaults)]]
            if required:
                problems.append('%s.__new__ requires %s, but ComposedNode._recreate calls cls.__new__(cls) without arguments (TypeError)' % (nw.cls.name if nw.cls else cname, ', '.join(required)))
        if 'tuple' in mro and 'list' not in mro and 'dict' not in mro:
            problems.append('its built-in base is the immutable tuple: the elements cannot be re-attached after the object was rebuilt')
        if problems:
            run.violation('C19.R2', (ci.module.relpath, ci.node.lineno, cname), '%s: copy / pickle through ComposedNode.__reduce__' % cname, '%s cannot be deep-copied or pickled: %s' % (cname, '; '.join(problems)))
        else:
            run.ok('C19.R2', (ci.module.relpath, ci.node.lineno, cname), '%s is rebuilt by cls.__new__(cls) and refilled through its mutators' % cname)


def check(repo, run, tier):
    g = Guard()
    g(r1, repo, run)
    g(r2, repo, run)
    g(r2b, repo, run)
    g(r3, repo, run)
    g(r4, repo, run)
    g(r5, repo, run)
    g(unitrules.deepcopy_keeps_inherited_flags, repo, run, 'C19.R6')
    g.done()


def _state_first(r):
    ov = in_func(r, 'ComposedNode.__deepcopy__', "        new.__setstate__(copy.deepcopy(self.__getstate__(), memo))\n        return new", "        return new")
    r2 = r.with_overrides(ov)
    return in_func(r2, 'ComposedNode.__deepcopy__', "        memo[id(self)] = new\n", "        memo[id(self)] = new\n        new.__setstate__(copy.deepcopy(self.__getstate__(), memo))\n")


def mutants(repo):
    return [
        Mutant('F22-reverted-deepcopy-through-reduce', lambda r: in_func(r, 'ComposedNode.__deepcopy__', "    def __deepcopy__(self, memo):", "    def _unused_deepcopy(self, memo):"), ['C19.R6']),
        Mutant('deepcopy-restores-the-state-first', lambda r: _state_first(r), ['C19.R6']),
        Mutant('getstate-no-copy', lambda r: in_func(r, 'ComposedNode.__getstate__', "state = self.__dict__.copy()", "state = self.__dict__"), ['C19.R1']),
        Mutant('getstate-keeps-children', lambda r: in_func(r, 'ComposedNode.__getstate__', "        del state['_children']\n", ""), ['C19.R1']),
        Mutant('reduce-dict-items-in-list-slot', lambda r: in_func(r, 'ComposedNode.__reduce__', "return ComposedNode._recreate, (type(self), ), state, lit, dit", "return ComposedNode._recreate, (type(self), ), state, dit, lit"), ['C19.R2']),
        Mutant('reduce-keys-only', lambda r: in_func(r, 'ComposedNode.__reduce__', "dit = iter(self.items())", "dit = iter(self)"), ['C19.R2']),
        Mutant('recreate-runs-init', lambda r: in_func(r, 'ComposedNode._recreate', "        new._children = {}\n", "        ConfigNode.__init__(new)\n        new._children = {}\n"), ['C19.R2']),
        Mutant('unpickle-guard-removed', lambda r: in_func(r, 'ComposedNode._get_child_kwargs', "        if not hasattr(self, '_delete'):", "        if False:"), ['C19.R3']),
        Mutant('child-kwargs-carry-priority', lambda r: in_func(r, 'ComposedNode._get_child_kwargs', "        ret['implicit_allow_new'] =", "        ret['priority'] = self._priority\n        ret['implicit_allow_new'] ="), ['C19.R3']),
        Mutant('append-storage-only', lambda r: in_func(r, 'ConfigList.append', "        value = ComposedNode.ayns.set_child(self, len(self), value)\n", ""), ['C19.R3']),
        Mutant('scalar-state-by-reference', lambda r: in_func(r, 'ConfigScalar.__reduce__', "state = self.__dict__.copy()", "state = self.__dict__"), ['C19.R4']),
        Mutant('scalar-deepcopy-shares-dict', lambda r: in_func(r, 'ConfigScalar.__reduce__', "    def __reduce__(self):",
               "    def __deepcopy__(self, memo):\n        ret = self._dyn_base.__new__(type(self), self._get_native_value())\n        ret.__dict__.update(self.__dict__)\n        return ret\n\n    def __reduce__(self):"), ['C19.R5']),
        Mutant('function-deepcopy-drops-memo', lambda r: in_func(r, 'FunctionNode.__bool__', "    def __bool__(self):",
               "    def __deepcopy__(self, memo):\n        import copy\n        new = type(self).__new__(type(self))\n        memo[id(self)] = new\n        new._children = {}\n        new.__dict__.update(copy.deepcopy(self.__getstate__(), memo))\n        for k, child in self.items():\n            new[k] = copy.deepcopy(child)\n        return new\n\n    def __bool__(self):"), ['C19.R5']),
        Mutant('class-level-attribute-fallbacks', lambda r: in_func(r, 'ConfigNode.__init__', "    def __init__(self, idx=None", "    _delete = None\n    _implicit_delete = None\n    _safe = None\n    _implicit_safe = None\n    _allow_new = None\n    _implicit_allow_new = None\n\n    def __init__(self, idx=None"), ['C19.R3']),
        Mutant('composed-deepcopy-state-by-reference', lambda r: in_func(r, 'ComposedNode.__reduce__', "    def __reduce__(self):",
               "    def __deepcopy__(self, memo):\n        import copy\n        new = ComposedNode._recreate(type(self))\n        memo[id(self)] = new\n        new.__setstate__(self.__getstate__())\n        for k, child in self.ayns.named_children():\n            new.ayns.set_child(k, copy.deepcopy(child, memo))\n        return new\n\n    def __reduce__(self):"), ['C19.R5']),
        Mutant('composed-deepcopy-shallow-leaves', lambda r: in_func(r, 'ComposedNode.__reduce__', "    def __reduce__(self):",
               "    def __deepcopy__(self, memo):\n        import copy\n        new = ComposedNode._recreate(type(self))\n        memo[id(self)] = new\n        new.__setstate__(copy.deepcopy(self.__getstate__(), memo))\n        for k, child in self.ayns.named_children():\n            new.ayns.set_child(k, copy.deepcopy(child, memo) if isinstance(child, ComposedNode) else copy.copy(child))\n        return new\n\n    def __reduce__(self):"), ['C19.R5']),
        Mutant('neutral-getstate-dict-ctor', lambda r: in_func(r, 'ComposedNode.__getstate__', "state = self.__dict__.copy()", "state = dict(self.__dict__)"), neutral=True),
    ]
