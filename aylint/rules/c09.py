"""C09 - cross-references alias their target, in any order, and always terminate."""
import ast

from ..mutate import Mutant, in_func, delete_stmt
from ..report import AnalysisError
from ..srcmodel import unparse, norm, walk_no_nested, calls_in
from .common import is_method_call, get_kw, recv_of, cfg_of, only_reached_from, thorough
from . import evalrules as er
from . import unitrules
from . import tr

from .common import Guard  # noqa: E402

PROP = 'C09'
DECIDED = [
    'R1: every while loop reachable from EvalContext.evaluate is classified (bounded counter / shrinking worklist / reference chasing); a reference-chasing loop tests membership of the current element in a collection that grows in the loop body and raises on a revisit; unclassifiable loops are in a frozen table with a reason or give no verdict.',
    'R2: XRefNode.on_evaluate_impl returns ctx.evaluate_node(...) unmodified (alias, not copy) and evaluate_node memoises by node identity (C10.R1).',
    'R3: the lookup inside the chasing loop is strict (incomplete left false) and KeyError is converted into a raised error.',
    'R4: NodePath.split_path validates prefix/gaps inside the match loop and the unparsed suffix after it (both raise ValueError); get_list_path parses text with validation on.',
    'R5: errors.Error.__init__ evaluated for every error class x second node x known / unknown source position: building an error never raises (a failure is reported as the error the property names, not as an unrelated exception) and the PyYAML base constructor gets message, note and marks of the right nodes.',
    'R5 also: how failures become the named errors (traces of errors.rethrow_point, the node-method decorators, errors.api_entry; default configuration): own error class passes, anything else is converted with node / path / second node / message and the original exception as cause; the re-creation at the API boundary keeps class, fields and cause.',
]
UNDECIDED = ['the path grammar itself (regex semantics);', 'forward/backward order independence as data;', 'recursive cycles through containers rely on CPython\'s recursion limit (stated assumption).']
ASSUMPTIONS = ['recursion (as opposed to loops) terminates through RecursionError, which evaluation reports as EvalError']



NODE_LOOKUPS = {'get_node', '_get_node', 'get_child', 'evaluate_node', 'get_first_not_missing_node'}


def reachable_from_evaluate(repo):
    seeds = [repo.func('EvalContext.evaluate'), repo.func('EvalContext.evaluate_node'), repo.func('EvalContext.get_node'),
             repo.func('EvalContext.PartialChild.__getitem__'), repo.func('GlobalsWrapper.__getattr__')]
    seeds += repo.cha('on_evaluate_impl', ayns=True) + repo.cha('on_evaluate', ayns=True)
    seen = {}
    todo = list(seeds)
    cha_names = {'get_node', '_get_node', 'get_child', 'has_child', 'evaluate_node', 'named_children', 'children', 'nodes_with_paths', 'get_first_not_missing_node',
                 'get_list_path', 'get_str_path', 'split_path', 'join_path', 'import_name', '_resolve_args', '_patch_access_to_globals', 'get_or_set', 'get_lookup_dirs', 'require_all_safe'}
    while todo:
        f = todo.pop()
        if id(f.node) in seen:
            continue
        seen[id(f.node)] = f
        for g in f.nested().values():
            todo.append(g)
        for c in calls_in(f.node):
            for t in repo.resolve_call(c, f):
                todo.append(t)
            if isinstance(c.func, ast.Attribute) and c.func.attr in cha_names:
                todo += repo.cha(c.func.attr, ayns=True) + repo.cha(c.func.attr, ayns=False)
            if isinstance(c.func, ast.Name) and c.func.id in cha_names:
                for m in repo.modules.values():
                    if c.func.id in m.functions:
                        todo.append(m.functions[c.func.id])
    return list(seen.values())


def classify(loop):
    test = loop.test
    body = loop.body
    # bounded counter: `while i < len(x)` / `i < N` with a top-level `i += k`
    if isinstance(test, ast.Compare) and len(test.ops) == 1 and isinstance(test.ops[0], (ast.Lt, ast.LtE)) and isinstance(test.left, ast.Name):
        i = test.left.id
        incr = [s for s in body if isinstance(s, ast.AugAssign) and isinstance(s.op, ast.Add) and norm(s.target) == i]
        conts = [s for s in ast.walk(loop) if isinstance(s, ast.Continue)]
        if incr and not conts:
            return 'bounded-counter', 'counter %s increases at the end of every iteration' % i
    # membership counter: `while i in coll: i += 1` (coll finite, not modified in the loop)
    if isinstance(test, ast.Compare) and len(test.ops) == 1 and isinstance(test.ops[0], ast.In) and isinstance(test.left, ast.Name):
        i = test.left.id
        coll = norm(test.comparators[0])
        incr = [s for s in body if isinstance(s, ast.AugAssign) and isinstance(s.op, ast.Add) and norm(s.target) == i]
        grows = [c for c in calls_in(loop) if isinstance(c.func, ast.Attribute) and norm(c.func.value) == coll and c.func.attr in ('add', 'append', 'update', 'setdefault', '__setitem__')]
        stores = [s for s in ast.walk(loop) if isinstance(s, ast.Assign) and any(isinstance(t, ast.Subscript) and norm(t.value) == coll for t in s.targets)]
        if incr and len(body) == len(incr) and not grows and not stores:
            return 'bounded-counter', 'counter %s walks a finite collection %s that the loop does not modify' % (i, coll)
        conts = [s for s in ast.walk(loop) if isinstance(s, (ast.Continue,))]
        if incr and not grows and not stores and not conts:
            return 'bounded-counter', 'counter %s increases in every iteration over a finite collection %s that the loop only shrinks' % (i, coll)
    # shrinking worklist: while True: if K not in D: break ; ... D.pop(K)
    if isinstance(test, ast.Constant) and test.value is True and body and isinstance(body[0], ast.If) and any(isinstance(b, ast.Break) for b in body[0].body):
        t = body[0].test
        if isinstance(t, ast.Compare) and isinstance(t.ops[0], ast.NotIn):
            coll = norm(t.comparators[0])
            if any(is_method_call(c, recv=coll, member='pop') for c in calls_in(loop)):
                return 'shrinking-worklist', 'every iteration pops an element of %s' % coll
    # reference chasing: loop variable tested with isinstance / is not None and reassigned in the body from a lookup
    names = {n.id for n in ast.walk(test) if isinstance(n, ast.Name)}
    if isinstance(test, ast.Constant) and test.value is True:
        for st in body:
            if isinstance(st, ast.If) and any(isinstance(b, (ast.Break, ast.Return)) for b in st.body):
                names |= {n.id for n in ast.walk(st.test) if isinstance(n, ast.Name)}
    reassigned = [s for s in ast.walk(loop) if isinstance(s, ast.Assign) and any(isinstance(t, ast.Name) and t.id in names for t in s.targets)]
    # only a reassignment *computed from the loop variable by a call / attribute / subscript* (possibly through other locals of the
    # loop) is reference chasing (x = lookup(x), x = x.next, r = table[x]; x = r); arithmetic on a counter is not
    def _mentions(e, nms):
        return any(isinstance(x, ast.Name) and x.id in nms for x in ast.walk(e))

    def _lookup_of(rhs, nms):
        for n in ast.walk(rhs):
            if isinstance(n, ast.Call) and (_mentions(n.func, nms) or any(_mentions(a, nms) for a in list(n.args) + [k.value for k in n.keywords])):
                return True
            if isinstance(n, ast.Attribute) and _mentions(n.value, nms):
                return True
            if isinstance(n, ast.Subscript) and _mentions(n.slice, nms):
                return True
        return False
    chased = []
    for v in sorted(names):
        derived = {v}
        lookups = set()
        changed = True
        while changed:
            changed = False
            for s_ in ast.walk(loop):
                if isinstance(s_, ast.Assign):
                    for t in s_.targets:
                        if isinstance(t, ast.Name) and t.id not in lookups and (_lookup_of(s_.value, derived) or (isinstance(s_.value, ast.Name) and s_.value.id in lookups)):
                            lookups.add(t.id)
                            derived.add(t.id)
                            changed = True
        if v in lookups:
            chased.append(v)
    reassigned = [s for s in reassigned if any(isinstance(t, ast.Name) and t.id in chased for t in s.targets)]
    if reassigned:
        return 'reference-chasing', 'loop variable %s is reassigned from %s' % (sorted(names & {t.id for s in reassigned for t in s.targets if isinstance(t, ast.Name)}), norm(reassigned[0].value)[:60])
    return None, None


def counter_advances(repo, fi, loop):
    """`while i < bound`: interprets the function (helpers inlined) and looks at the value of the counter at the end of every
    iteration path that goes round again: it must be the value at loop entry plus a positive constant (sums of positive
    integer constants, possibly added inside inner loops) - a strictly increasing counter against a bound the loop leaves alone"""
    from ..tracer import Tracer
    test = loop.test
    if not (isinstance(test, ast.Compare) and len(test.ops) == 1 and isinstance(test.ops[0], (ast.Lt, ast.LtE)) and isinstance(test.left, ast.Name)):
        return None
    i = test.left.id
    bound_names = {n.id for n in ast.walk(test.comparators[0]) if isinstance(n, ast.Name)}
    for st in ast.walk(loop):
        if isinstance(st, (ast.Assign, ast.AugAssign, ast.AnnAssign)):
            tg = st.targets if isinstance(st, ast.Assign) else [st.target]
            if any(isinstance(t, ast.Name) and t.id in bound_names for t in tg):
                return None      # the bound moves
    ends = []
    t = Tracer(repo, follow_exceptions=False, mark_carried=True)
    t.iter_hook = lambda st, path: ends.append(path.env.get(i)) if st is loop else None
    top = loop
    while getattr(top, '_parent', None) is not fi.node and top is not None:
        top = getattr(top, '_parent', None)
    try:
        t.trace(fi, upto=top if top is not None and any(top is st for st in fi.node.body) else None)      # what follows the loop does not matter
    except AnalysisError:
        return None

    def advance(e):
        """(number of positive constants added, ok)"""
        if isinstance(e, ast.BinOp) and isinstance(e.op, ast.Add):
            for a, b in ((e.left, e.right), (e.right, e.left)):
                if isinstance(b, ast.Constant) and isinstance(b.value, int) and not isinstance(b.value, bool) and b.value > 0:
                    n, ok = advance(a)
                    return n + 1, ok
            return 0, False
        if isinstance(e, ast.Call) and isinstance(e.func, ast.Name) and e.func.id == 'carried' and len(e.args) == 1:
            n, ok = advance(e.args[0])
            return n, True if not ok and n == 0 else ok      # the value at loop entry, whatever it is
        return 0, False
    if not ends:
        return None
    for v in ends:
        if v is None:
            return None
        n, ok = advance(v.ast)
        if not ok or n < 1:
            return None
    return 'bounded-counter', 'counter %s is its value at the start of the iteration plus a positive constant on all %d interpreted iteration paths (helpers inlined); the bound is not assigned in the loop' % (i, len(ends))


def cycle_guard(loop):
    """membership test of the current element against a collection that grows in the body and leads to raise"""
    grows = set()
    for c in calls_in(loop):
        if isinstance(c.func, ast.Attribute) and c.func.attr in ('add', 'append'):
            grows.add(norm(c.func.value))
    for s in ast.walk(loop):
        if isinstance(s, ast.If) and isinstance(s.test, ast.Compare) and isinstance(s.test.ops[0], ast.In):
            coll = norm(s.test.comparators[0])
            if coll in grows and any(isinstance(b, ast.Raise) for b in s.body):
                # the tested element and the added element must be the same expression
                added = [norm(c.args[0]) for c in calls_in(loop) if isinstance(c.func, ast.Attribute) and c.func.attr in ('add', 'append') and norm(c.func.value) == coll and c.args]
                if norm(s.test.left) in added:
                    return True, 'if %s in %s: raise; %s grows every iteration' % (norm(s.test.left), coll, coll)
    return False, 'no `if <current> in <visited>: raise` with <visited> growing in the loop body'


def _exception_chain_walk(loop):
    """`while e is not None: ...; e = getattr(e, '__cause__', None)` (or e.__cause__ / __context__): the loop variable is tested
    against None and every re-assignment of it in the body takes the next link of the exception chain of that same variable"""
    t = loop.test
    if not (isinstance(t, ast.Compare) and len(t.ops) == 1 and isinstance(t.ops[0], ast.IsNot) and isinstance(t.left, ast.Name)
            and isinstance(t.comparators[0], ast.Constant) and t.comparators[0].value is None):
        return False
    v = t.left.id
    stores = [n for n in ast.walk(ast.Module(body=loop.body, type_ignores=[])) if isinstance(n, ast.Assign) and any(isinstance(x, ast.Name) and x.id == v for tg in n.targets for x in ast.walk(tg))]
    if not stores or any(isinstance(n, (ast.AugAssign, ast.For, ast.With)) and any(isinstance(x, ast.Name) and x.id == v and isinstance(x.ctx, ast.Store) for x in ast.walk(n)) for n in ast.walk(ast.Module(body=loop.body, type_ignores=[]))):
        return False
    for st in stores:
        val = st.value
        ok = (isinstance(val, ast.Attribute) and val.attr in ('__cause__', '__context__') and isinstance(val.value, ast.Name) and val.value.id == v) or \
             (isinstance(val, ast.Call) and isinstance(val.func, ast.Name) and val.func.id == 'getattr' and len(val.args) == 3 and isinstance(val.args[0], ast.Name) and val.args[0].id == v
              and isinstance(val.args[1], ast.Constant) and val.args[1].value in ('__cause__', '__context__') and isinstance(val.args[2], ast.Constant) and val.args[2].value is None)
        if not ok or len(st.targets) != 1 or not isinstance(st.targets[0], ast.Name):
            return False
    return True


def r1(repo, run):
    n_chase = 0
    for fi in reachable_from_evaluate(repo):
        for loop in walk_no_nested(fi.node):
            if not isinstance(loop, ast.While):
                continue
            kind, why = classify(loop)
            if kind not in ('bounded-counter', 'shrinking-worklist') and fi.outer is None:
                adv = counter_advances(repo, fi, loop)
                if adv is not None:
                    kind, why = adv
            where = (fi.file, loop.lineno, fi.qualname)
            desc = 'while %s' % norm(loop.test)[:80]
            if kind in ('bounded-counter', 'shrinking-worklist'):
                run.ok('C09.R1', where, desc, '%s: %s' % (kind, why))
            elif kind == 'reference-chasing' and _exception_chain_walk(loop) and not (fi.cls is not None and repo.is_subclass(fi.cls.name, 'ConfigNode')):
                run.ok('C09.R1', where, desc, 'walks the __cause__ / __context__ chain of an exception raised by the interpreter: finite unless user code builds a cyclic chain')
            elif (fi.cls is not None and fi.cls.name == 'XRefNode') or only_reached_from(repo, fi.qualname, {'XRefNode.ayns.on_evaluate_impl'}):
                continue      # the reference chase of XRefNode is decided on its traces (xref_guard below), whatever its loop looks like
            elif kind == 'reference-chasing':
                n_chase += 1
                ok, how = cycle_guard(loop)
                if ok:
                    run.ok('C09.R1', where, desc, 'reference chasing with cycle guard: ' + how)
                elif not any(isinstance(c.func, ast.Attribute) and c.func.attr in NODE_LOOKUPS for c in calls_in(loop)):
                    # a loop that re-assigns its variable from some call, but not from a lookup in the config tree: nothing says it
                    # follows references, and nothing bounds it either
                    raise AnalysisError('C09.R1: loop `%s` in %s cannot be classified (variable reassigned from %s) and is not in the table' % (desc, fi.qualname, why))
                else:
                    run.violation('C09.R1', fi, desc, 'reference-chasing loop (%s) without a cycle guard: %s. A reference cycle (also one that the start node is not part of) never terminates' % (why, how), node=loop)
            else:
                raise AnalysisError('C09.R1: loop `%s` in %s cannot be classified and is not in the table' % (desc, fi.qualname))
    xref_guard(repo, run)
    chain_condition(repo, run)


XNI = {'get_node', 'evaluate_node', 'get_str_path'}


def _xref_paths(repo):
    fi = repo.func('XRefNode.ayns.on_evaluate_impl')
    return fi, tr.paths_of(repo, fi, no_inline=XNI, follow_exceptions=True, mark_carried=True)


def _lookups(p):
    return [e for e in p.events if e.kind == 'call' and e.attr == 'get_node' and e.in_loop and e.args]


def xref_guard(repo, run):
    """reference chasing in XRefNode.on_evaluate_impl (helpers inlined): in the iteration that dereferences the current
    node CUR, membership of a value derived from CUR alone in a collection S has been tested false, S receives that value in
    the same iteration, and the true outcome of the test raises"""
    fi, paths = _xref_paths(repo)
    n = 0
    bad = None
    for p in paths:
        for e in _lookups(p):
            n += 1
            CUR = e.args[0].text
            keys = ('id(%s)' % CUR, CUR, 'str(%s)' % CUR)
            guards = [(t[:t.index(' in ')], t[t.index(' in ') + 4:]) for t, pol in e.facts if not pol and ' in ' in t and t[:t.index(' in ')] in keys]
            okp = False
            for x, coll in guards:
                grows = any(g.kind == 'call' and g.attr in ('add', 'append') and g.recv is not None and g.recv.text == coll and g.args and g.args[0].text == x and g.in_loop for g in p.events)
                raises = any(q.status == 'raise' and ('%s in %s' % (x, coll), True) in q.facts for q in paths)
                if grows and raises:
                    okp = (x, coll)
            if not okp:
                bad = (e, 'the lookup of %s is not preceded by `if <key of current> in <visited>: raise` with <visited> receiving that key in the same iteration%s' % (CUR, (' (tests found: %s)' % guards) if guards else ''))
    if not n:
        raise AnalysisError('C09.R1: the reference-chasing loop of XRefNode.on_evaluate_impl was not found')
    if bad:
        run.violation('C09.R1', tr.where(fi, bad[0]), 'reference chasing: ' + bad[0].callee, 'reference-chasing loop without a cycle guard: %s. A reference cycle (also one that the start node is not part of) never terminates' % bad[1])
    else:
        run.ok('C09.R1', fi, 'reference chasing: ctx.get_node(<current>)', 'cycle guard: key of the current node tested against a visited collection that receives it every iteration; a revisit raises')


def chain_condition(repo, run):
    """the chain is followed exactly while the current node is a reference: every dereference happens with the current node
    known to be an XRefNode, and what is finally evaluated is known not to be one"""
    fi, paths = _xref_paths(repo)
    n = 0
    bad = set()
    for p in paths:
        for e in _lookups(p):
            n += 1
            cur = e.args[0].text
            if cur.startswith('carried(') and cur.endswith(')'):
                cur = cur[len('carried('):-1]
            if not any(pol and t in ('isinstance(%s, XRefNode)' % cur, 'isinstance(carried(%s), XRefNode)' % cur) for t, pol in e.facts):
                bad.add('%s is dereferenced without being known to be a reference (facts: %s)' % (cur[:40], [t for t, _ in e.facts][-2:]))
        if p.status == 'return':
            fin = [e for e in p.events if e.kind == 'call' and e.attr == 'evaluate_node' and e.args]
            if not fin:
                continue
            tgt = fin[-1].args[0].text
            known = [pol for t, pol in fin[-1].facts if t in ('isinstance(%s, XRefNode)' % tgt, 'isinstance(carried(%s), XRefNode)' % tgt)]
            if not known or known[-1] is not False:
                bad.add('the node finally evaluated (%s) is not known to be a non-reference: the chain may stop early (or never start)' % tgt[:50])
    if not n:
        raise AnalysisError('C09.R1: the reference-chasing loop of XRefNode.on_evaluate_impl was not found')
    if bad:
        run.violation('C09.R1', fi, 'chain-following condition', '; '.join(sorted(bad)[:2]))
    else:
        run.ok('C09.R1', fi, 'the chain is followed while isinstance(<current>, XRefNode); the first non-reference is what gets evaluated')


def _last_text(v):
    """text of a value, or of the last element when it is `[<...>, x][-1]` (the last entry of a chain built by appending)"""
    a = v.ast
    if isinstance(a, ast.Subscript) and isinstance(a.value, (ast.List, ast.Tuple)) and a.value.elts and norm(a.slice) in ('-1', '- 1'):
        return norm(a.value.elts[-1])
    return v.text


def r2r3(repo, run):
    fi, paths = _xref_paths(repo)
    n = 0
    v2, v3 = set(), set()
    for p in paths:
        looks = _lookups(p)
        if p.status == 'return':
            evs = [e for e in p.events if tr.is_call(e, attr='evaluate_node') and e.recv is not None and e.recv.text == fi.params()[2]]
            final = looks[-1].result.text if looks else 'self'
            if not evs or p.ret is None or p.ret.text != evs[-1].result.text or not evs[-1].args or evs[-1].args[0].text not in (final, 'carried(%s)' % final):
                v2.add(('bad', 'a reference does not evaluate to the very object its target evaluates to (result wrapped / copied / not obtained through ctx.evaluate_node): returns %s' % (p.ret.text[:60] if p.ret is not None else None)))
            elif looks and evs[-1].kw.get('prefix') is None and len(evs[-1].args) < 2:
                # (what the prefix is cannot be read off reliably - the chain is a list filled by appends, possibly in a helper - but
                # its absence can: the target would be evaluated, recorded and reported under the empty path)
                v2.add(('bad', 'the target is evaluated without its path (no prefix): its evaluation is recorded / cached / reported as if it were the document root'))
            else:
                v2.add(('ok', 'the referenced node\'s own (memoised) evaluation result is returned unmodified'))
        for e in looks:
            n += 1
            inc = e.kw.get('incomplete')
            if inc is not None and inc.const is not False:
                v3.add(('bad', 'the reference lookup tolerates missing paths (incomplete=%s): a dangling reference ends the chain silently' % inc.text))
            else:
                v3.add(('ok', 'strict lookup (incomplete left False): a missing path raises KeyError'))
        if looks and any(t.startswith('exception:') and pol for t, pol in p.facts) and p.status != 'raise':
            v3.add(('bad', 'a failed lookup is swallowed instead of being reported [%s]' % tr.describe(p, 4)))
    if not n:
        raise AnalysisError('XRefNode.on_evaluate_impl: chasing loop not found')
    gn = repo.func('ComposedNode.ayns.get_node')
    d = dict(zip([a.arg for a in gn.node.args.kwonlyargs], gn.node.args.kw_defaults))
    dv = d.get('incomplete')
    ectx = repo.func('EvalContext.get_node')
    passes = any(is_method_call(c, member='get_node', ayns=True) and any(k.arg is None for k in c.keywords) for c in calls_in(ectx.node))
    if not (isinstance(dv, ast.Constant) and dv.value is False) or not passes:
        run.violation('C09.R3', gn, 'get_node(incomplete=%s)' % (norm(dv) if dv is not None else '?'), 'lookups are not strict by default / EvalContext.get_node does not forward to the strict lookup')
    for r_, vs in (('C09.R2', v2), ('C09.R3', v3)):
        for v in sorted(vs):
            (run.ok if v[0] == 'ok' else run.violation)(r_, fi, 'XRefNode evaluation', v[1])


VALID_PATHS = {'a': ['a'], 'a.b': ['a', 'b'], 'a[0]': ['a', 0], 'a.b[12].c_d': ['a', 'b', 12, 'c_d'], '[3]': [3], '': []}
INVALID_PATHS = [' a', 'a b', 'a.b-c', 'a[x]', 'a[1', 'a]', 'a.b c', '-a', 'a.b[1]x y']


def _regex_attr(repo, cls, attr):
    import re
    owner, e = repo.class_attr(cls, attr)
    if e is None or not (isinstance(e, ast.Call) and norm(e.func) == 're.compile' and e.args and isinstance(e.args[0], ast.Constant) and isinstance(e.args[0].value, str)):
        raise AnalysisError('%s.%s is not re.compile(<literal>)' % (cls, attr))
    flags = 0
    for a_ in list(e.args[1:]) + [k.value for k in e.keywords]:
        for part in (a_.values if isinstance(a_, ast.BoolOp) else [a_]) if not isinstance(a_, ast.BinOp) else [x for x in ast.walk(a_) if isinstance(x, ast.Attribute)]:
            nm = norm(part)
            if not (nm.startswith('re.') and nm[3:].isupper() and hasattr(re, nm[3:])):
                raise AnalysisError('%s.%s: regex flag %s not modelled' % (cls, attr, nm))
            flags |= getattr(re, nm[3:])
    return re.compile(e.args[0].value, flags)


def r4(repo, run):
    """NodePath.split_path evaluated on concrete strings (finite-domain evaluator; the class-level pattern is compiled by the stdlib):
    well-formed paths give their components, text before / between / after the components raises ValueError"""
    from ..fde import FDE
    from .common import fde_guard
    fi = repo.func('NodePath.split_path')
    rx_names = [a for a, e in repo.classes['NodePath'].attrs.items() if isinstance(e, ast.Call) and norm(e.func) == 're.compile']
    if not rx_names:
        raise AnalysisError('NodePath: compiled path pattern not found')
    bad = []
    rows = 0

    def run_one(text, validate):
        f = FDE(repo)
        f.generators = True
        for a in rx_names:
            f.class_objs[('NodePath', a)] = _regex_attr(repo, 'NodePath', a)
        args = [('class', 'NodePath'), text] if fi.is_classmethod else [text]
        return fde_guard(lambda: f.call(fi, *args) if validate is None else f.call(fi, *args, validate=validate))
    valid, invalid = dict(VALID_PATHS), list(INVALID_PATHS)
    if thorough():
        # reference grammar: path = (name | index) ( '.' name | index )*, name = [A-Za-z0-9_]+, index = '[' -?digits ']'
        # every path of up to 3 tokens over a small alphabet is well formed; a junk character inserted anywhere (unless the result is
        # well formed again) must be rejected
        import itertools, re
        names, idxs = ['a', 'b1', '_x', '7'], [('[0]', 0), ('[-1]', -1), ('[12]', 12)]
        ref = re.compile(r'^(?:[A-Za-z0-9_]+|\[-?[0-9]+\])(?:\.[A-Za-z0-9_]+|\[-?[0-9]+\])*$')
        toks = [(n, n, True) for n in names] + [(t, v, False) for t, v in idxs]
        for n in (1, 2, 3):
            for combo in itertools.product(toks, repeat=n):
                text, comps = '', []
                for j, (t, v, is_name) in enumerate(combo):
                    text += ('.' if (is_name and j > 0) else '') + t
                    comps.append(v)
                valid[text] = comps
        for text in list(valid)[:400:3]:
            for pos in range(len(text) + 1):
                for junk in (' ', '-', '/', ']', '[', '..'):
                    bad_text = text[:pos] + junk + text[pos:]
                    if not ref.match(bad_text) and bad_text not in invalid and len(invalid) < 1500:
                        invalid.append(bad_text)
    for text, want in valid.items():
        r = run_one(text, None)
        rows += 1
        if r.raised or list(r.ret or []) != want:
            bad.append('the well-formed path %r gives %s (expected %r)' % (text, ('raises ' + str(r.raised)) if r.raised else list(r.ret or []), want))
    gap = suffix = 0
    for text in invalid:
        r = run_one(text, None)
        rows += 1
        if r.raised != 'ValueError':
            bad.append('the malformed path %r is accepted as %s: text %s the components is ignored, so a mistyped reference silently denotes another node' % (text, list(r.ret or []) if not r.raised else 'error ' + str(r.raised), 'after' if text in ('a.b-c', 'a[1', 'a]', 'a.b[1]x y') else 'before / between / after'))
    run.table('C09.R4', rows, 'split_path over %d well-formed and %d malformed path strings' % (len(valid), len(invalid)))
    if bad:
        run.violation('C09.R4', fi, 'path text validation', '; '.join(bad[:3]))
    else:
        run.ok('C09.R4', fi, 'split_path table (%d rows)' % rows, 'components of well-formed paths; prefix, gaps and unparsed suffix rejected with ValueError')
    a = fi.node.args
    names = [x.arg for x in a.args]
    dflt = a.defaults[names.index('validate') - (len(names) - len(a.defaults))] if 'validate' in names else None
    glp = repo.func('NodePath.get_list_path')
    calls = [c for f_ in ([glp] + [g for g in glp.module.functions.values() if only_reached_from(repo, g.qualname, {glp.qualname})]) for c in calls_in(f_.node) if is_method_call(c, member='split_path')]
    lenient = [c for c in calls if get_kw(c, 'validate') is not None and not (isinstance(get_kw(c, 'validate'), ast.Constant) and get_kw(c, 'validate').value is True)]
    if not (isinstance(dflt, ast.Constant) and dflt.value is True) or lenient or not calls:
        run.violation('C09.R4', glp, 'split_path(validate=...)', 'textual paths are parsed without validation')
    else:
        run.ok('C09.R4', (glp.file, calls[0].lineno, glp.qualname), unparse(calls[0]), 'validation on by default')


def check(repo, run, tier):
    g = Guard()
    g(r1, repo, run)
    g(r2r3, repo, run)
    g(er.memo_discipline, repo, run, 'C09.R2')
    g(r4, repo, run)
    g(unitrules.errors_constructible, repo, run, 'C09.R5')
    g(unitrules.list_path_table, repo, run, 'C09.R4')
    g(unitrules.error_wrapping, repo, run, 'C09.R5')
    g(unitrules.tag_spec, repo, run, 'C09.R3', ['!xref', '!ref'])
    g(unitrules.xref_chain_table, repo, run, 'C09.R6')
    g.done()


def mutants(repo):
    return [
        Mutant('xref-asserts-it-found-itself', lambda r: in_func(r, 'XRefNode.ayns.on_evaluate_impl', "assert curr is not self", "assert curr is self"), ['C09.R6']),
        Mutant('xref-target-named-by-previous-link', lambda r: in_func(r, 'XRefNode.ayns.on_evaluate_impl', "prefix=chain[-1]", "prefix=chain[-2]"), ['C09.R6']),
        Mutant('xref-chain-not-recorded', lambda r: in_func(r, 'XRefNode.ayns.on_evaluate_impl', "            chain.append(str(curr))\n", ""), ['C09.R6']),
        Mutant('rethrow-loses-cause', lambda r: in_func(r, 'errors.rethrow_point', "raise error_type(error_msg=str(e), node=self, path=path, extra_node=other) from reason", "raise error_type(error_msg=str(e), node=self, path=path, extra_node=other)"), ['C09.R5']),
        Mutant('target-evaluated-under-the-reference-path', lambda r: in_func(r, 'XRefNode.ayns.on_evaluate_impl', "return ctx.evaluate_node(curr, prefix=chain[-1])", "return ctx.evaluate_node(curr)"), ['C09.R2']),
        Mutant('path-type-check-inverted', lambda r: in_func(r, 'NodePath.get_list_path', "        elif check_types:", "        elif not check_types:"), ['C09.R4']),
        Mutant('chain-condition-negated', lambda r: in_func(r, 'XRefNode.ayns.on_evaluate_impl', "while isinstance(curr, XRefNode):", "while not isinstance(curr, XRefNode):"), ['C09.R1']),
        Mutant('error-position-of-config-nodes', lambda r: in_func(r, 'Error.__init__', "if self.stage == 'parsing':", "if self.stage != 'parsing':"), ['C09.R5']),
        Mutant('F4-reverted-no-cycle-guard', lambda r: in_func(r, 'XRefNode.ayns.on_evaluate_impl',
               "            if id(curr) in visited:\n                raise ValueError(f'Circular reference detected while following a chain of references: {chain}')\n            visited.add(id(curr))\n", ""), ['C09.R1']),
        Mutant('cycle-guard-only-start-node', lambda r: in_func(r, 'XRefNode.ayns.on_evaluate_impl',
               "            if id(curr) in visited:\n                raise ValueError(f'Circular reference detected while following a chain of references: {chain}')\n            visited.add(id(curr))\n",
               "            if curr is self and len(chain) > 1:\n                raise ValueError(f'Circular reference detected while following a chain of references: {chain}')\n"), ['C09.R1']),
        Mutant('guard-set-never-grows', lambda r: in_func(r, 'XRefNode.ayns.on_evaluate_impl', "            visited.add(id(curr))\n", ""), ['C09.R1']),
        Mutant('xref-returns-copy', lambda r: in_func(r, 'XRefNode.ayns.on_evaluate_impl', "return ctx.evaluate_node(curr, prefix=chain[-1])", "return copy.copy(ctx.evaluate_node(curr, prefix=chain[-1]))"), ['C09.R2']),
        Mutant('memo-only-containers', lambda r: in_func(r, 'EvalContext.evaluate_node',
               "        self._eval_cache_id[utils.persistent_id(cfgobj)] = evaluated_cfgobj", "        if not cfgobj.ayns.is_leaf:\n            self._eval_cache_id[utils.persistent_id(cfgobj)] = evaluated_cfgobj"), ['C09.R2']),
        Mutant('lookup-tolerates-missing', lambda r: in_func(r, 'XRefNode.ayns.on_evaluate_impl', "ref = ctx.get_node(curr)", "ref = ctx.get_node(curr, incomplete=None)"), ['C09.R3']),
        Mutant('keyerror-swallowed', lambda r: in_func(r, 'XRefNode.ayns.on_evaluate_impl',
               "                msg = f'Referenced node {str(curr)!r} is missing, while following a chain of references: {chain}'\n                raise ValueError(msg) from None", "                ref = None"), ['C09.R3']),
        Mutant('suffix-validation-lost', lambda r: in_func(r, 'NodePath.split_path', "            if path_str and end != len(path_str):\n                raise ValueError(f'Invalid path: {path_str!r}')\n", ""), ['C09.R4']),
        Mutant('neutral-chain-message', lambda r: in_func(r, 'XRefNode.ayns.on_evaluate_impl', "Circular reference detected", "Reference cycle detected"), neutral=True),
    ]
