"""C07 - unsafe content never reaches executed code (structural clauses R1..R7 of DESIGN 5/C07)."""
import ast

from .. import cfg as cfgmod
from ..fde import FDE, Obj
from ..mutate import Mutant, in_func, delete_stmt, in_module
from ..report import AnalysisError
from ..srcmodel import unparse, norm, walk_no_nested, calls_in
from . import mergerules as mr
from .common import (cfg_of, node_obj, is_method_call, F3, product_dicts, fde_guard, inside_with_calling,
                     facts_at, find_stmt_node, derives_from, get_kw, name_defs, recv_of)

PROP = 'C07'
DECIDED = [
    'R1: a call of ConfigNode.ayns._require_safe on self dominates every execution sink (import_name, eval/exec/compile, __import__, import_module, a call/partial of the node target) in every ayns.on_evaluate_impl and the helpers it reaches; package-wide inventory of such primitives.',
    'R2: _require_safe raises UnsafeError exactly when ayns.safe is false; ayns.safe is False whenever one of the three flags is False or the source default is missing (27-row table).',
    'R3: argument children of !call/!bind and config names resolved by evaluated code are evaluated inside `with ctx.require_all_safe(..)`, which sets the flag before yield and restores it in finally.',
    'R4: every hand-out of an already evaluated value (path cache, identity cache, partially evaluated tree) and the on_evaluate call are dominated by the strict-mode safety gate; the unsafe-path record is written under the `not safe` branch with the cache key.',
    'R5: _replace_self/_replace_other are monotone in unsafety for _safe and _default_safe (9-row tables each).',
    'R6: Builder.add_source parses inside default_safe_flag(<conjunction containing the safe parameter>), default_safe_flag stores `value and old`, every add_source call made by node classes passes safe= derived from a node ayns.safe.',
    'R7: an _implicit_safe that is already False is never overwritten (metaclass adopt branch, _propagate_implicit_values, _get_child_kwargs).',
]
UNDECIDED = ['what legitimately executed user code does;', 'attribute access through ayns.cfg from evaluated code;',
             'spreading unsafety to siblings (the statement only forbids removing it).']
ASSUMPTIONS = ['utils.import_name / eval / exec / compile / __import__ / importlib.import_module / functools.partial of a target are the only execution primitives (inventory rule R1b lists every other use in the package)',
               'exceptions raised by a statement are taken before its effect']

SINK_NAMES = {'eval', 'exec', 'compile', '__import__', 'import_name'}
SINK_ATTRS = {'importlib.import_module', 'pickle.loads'}
R1_EXEMPT = {
    # qualname -> reason (one line each; these are not node-evaluation sites named by C07)
    'yaml._import_constructor': 'constant module name inside the package ("import" is a keyword)',
    'yaml._encode_all_metadata': 'parse-time {{...}} metadata literal, not one of the node kinds C07 names (out of scope, not claimed safe)',
    'yaml._decode_metadata': 'parse-time metadata blob, same as above',
    'utils.import_name': 'the import primitive itself',
}


def _is_gate(call):
    return is_method_call(call, recv='self', member='_require_safe', ayns=True)


def _sink_kind(call, tainted):
    f = call.func
    if isinstance(f, ast.Name):
        if f.id in SINK_NAMES:
            return f.id
        if f.id in tainted:
            return 'call of node target ' + f.id
        if f.id == 'partial' and call.args and isinstance(call.args[0], ast.Name) and call.args[0].id in tainted:
            return 'partial over node target'
    t = unparse(f)
    if t in SINK_ATTRS or t == 'functools.partial' and call.args and isinstance(call.args[0], ast.Name) and call.args[0].id in tainted:
        return t
    if isinstance(f, ast.Attribute) and unparse(f) == 'self._func':
        return 'call of node target self._func'
    return None


def _tainted_names(repo, fi):
    """local names bound from self._func, import_name(...), or unpacked from a helper that returns the target"""
    out = set()
    for n in walk_no_nested(fi.node):
        if isinstance(n, ast.Assign) and isinstance(n.value, ast.Call) and isinstance(n.value.func, ast.Attribute) and norm(n.value.func.value) in ('self', 'self.ayns'):
            for t in repo.resolve_call(n.value, fi):
                if t is not fi and t.cls is not None and t.name != 'on_evaluate_impl':
                    rets = [s for s in walk_no_nested(t.node) if isinstance(s, ast.Return) and s.value is not None]
                    inner = _tainted_names_local(t)
                    if any(isinstance(x, ast.Name) and x.id in inner for r in rets for x in ast.walk(r.value)):
                        for tg in n.targets:
                            for x in ast.walk(tg):
                                if isinstance(x, ast.Name):
                                    out.add(x.id)
    return out | _tainted_names_local(fi, out)


def _tainted_names_local(fi, seed=()):
    out = set(seed)
    changed = True
    while changed:
        changed = False
        for n in walk_no_nested(fi.node):
            if isinstance(n, ast.Assign) and len(n.targets) == 1 and isinstance(n.targets[0], ast.Name):
                v = n.value
                src = unparse(v)
                hit = src == 'self._func' or (isinstance(v, ast.Call) and isinstance(v.func, ast.Name) and v.func.id == 'import_name') \
                    or (isinstance(v, ast.Name) and v.id in out)
                if hit and n.targets[0].id not in out:
                    out.add(n.targets[0].id)
                    changed = True
    return out


def _helper_summary(repo, fi, depth=0, _stack=None):
    """(ungated_sinks, acts_as_gate, returns_tainted) for a helper reachable from on_evaluate_impl.
    ungated_sinks: execution sinks inside the helper (or deeper) that its own gate does not dominate;
    acts_as_gate: a gate call is passed on every path to a normal exit of the helper;
    returns_tainted: a return value derives from the node target."""
    _stack = _stack if _stack is not None else []
    if fi.qualname in _stack or depth > 3:
        return [], False, False
    _stack = _stack + [fi.qualname]
    g = cfg_of(fi)
    tainted = _tainted_names(repo, fi)
    is_gate = _gate_pred(repo, fi)
    seen, IN = cfgmod.must_have_seen(g, is_gate)
    ungated = []
    for n in g.stmt_nodes():
        for c in n.calls():
            kind = _sink_kind(c, tainted)
            if kind is None:
                for t in repo.resolve_call(c, fi):
                    if t.qualname in R1_EXEMPT or t.name == 'on_evaluate_impl' or t is fi:
                        continue
                    sub_ungated, _, _ = _helper_summary(repo, t, depth + 1, _stack)
                    if sub_ungated:
                        kind = 'helper %s with ungated %s' % (t.qualname, sub_ungated[0][1])
            if kind and not cfgmod.dominated_by_gate(g, n, c, is_gate, seen):
                ungated.append((c, kind))
    exit_in = IN.get(g.exit.id)
    acts = exit_in is not None and 'gate' in exit_in
    rets = [s for s in walk_no_nested(fi.node) if isinstance(s, ast.Return) and s.value is not None]
    rt = any(isinstance(x, ast.Name) and x.id in tainted for r in rets for x in ast.walk(r.value))
    return ungated, acts, rt


def _gate_pred(repo, fi):
    """gate = self.ayns._require_safe(...) or a call of a helper on self that passes the gate on all its normal exits"""
    def pred(call):
        if _is_gate(call):
            return True
        if isinstance(call.func, ast.Attribute) and norm(call.func.value) in ('self', 'self.ayns') and call.func.attr not in ('_require_safe', 'on_evaluate_impl'):
            for t in repo.resolve_call(call, fi):
                if t is not fi and t.cls is not None and not t.is_property:
                    if _helper_summary(repo, t, 1, [fi.qualname])[1]:
                        return True
        return False
    return pred


def r1(repo, run):
    impls = repo.cha('on_evaluate_impl', ayns=True)
    if not impls:
        raise AnalysisError('no ayns.on_evaluate_impl found')
    gate_def = repo.func('ConfigNode.ayns._require_safe')
    for fi in impls:
        g = cfg_of(fi)
        tainted = _tainted_names(repo, fi)
        is_gate = _gate_pred(repo, fi)
        seen, _ = cfgmod.must_have_seen(g, is_gate)
        for n in g.stmt_nodes():
            for c in n.calls():
                kind = _sink_kind(c, tainted)
                if kind is None:
                    for t in repo.resolve_call(c, fi):
                        if t.qualname in R1_EXEMPT or t.name == 'on_evaluate_impl':
                            continue
                        ungated, acts, _ = _helper_summary(repo, t, 1, [fi.qualname])
                        if ungated:
                            kind = 'helper %s reaching an execution primitive (%s) that its own gate does not dominate' % (t.qualname, ungated[0][1])
                        elif acts and _helper_has_sink(repo, t):
                            run.ok('C07.R1', (fi.file, c.lineno, fi.qualname), '%s [helper with its own gate before its sinks]' % unparse(c)[:80], 'gate inside %s dominates its sinks' % t.qualname)
                if kind is None:
                    continue
                if cfgmod.dominated_by_gate(g, n, c, is_gate, seen):
                    r = repo.resolve(fi.cls.name, '_require_safe', ayns=True)
                    if r is not gate_def:
                        run.violation('C07.R1', fi, unparse(c), 'gate resolves to %s, not ConfigNode.ayns._require_safe' % (r.qualname if r else None), node=c)
                    else:
                        run.ok('C07.R1', (fi.file, c.lineno, fi.qualname), '%s [%s]' % (unparse(c)[:80], kind), 'dominated by self.ayns._require_safe')
                else:
                    run.violation('C07.R1', fi, unparse(c),
                                  'execution sink (%s) reachable on a path from the entry of %s without a preceding self.ayns._require_safe(path)' % (kind, fi.qualname), node=c)
    # inheritance: every subclass of a class whose on_evaluate_impl has sinks resolves to a checked definition
    checked = {id(f.node) for f in impls}
    for cname in repo.subclasses('ConfigNode'):
        t = repo.resolve(cname, 'on_evaluate_impl', ayns=True)
        if t is None or id(t.node) not in checked:
            raise AnalysisError('class %s resolves on_evaluate_impl outside the checked set' % cname)
    fstr = repo.resolve('FStrNode', 'on_evaluate_impl', ayns=True)
    if fstr is None or fstr.cls.name != 'EvalNode':
        run.info('C07.R1', fstr or 'FStrNode', 'FStrNode.on_evaluate_impl', 'overridden; checked as its own definition')
    else:
        run.ok('C07.R1', fstr, 'FStrNode inherits EvalNode.ayns.on_evaluate_impl', 'covered through inheritance')
    run.floor('C07.R1', 6, '(sinks in Call/Bind/Eval/Import + inheritance)')


def _helper_has_sink(repo, fi):
    tainted = _tainted_names(repo, fi)
    return any(_sink_kind(c, tainted) for c in calls_in(fi.node))


def r1b(repo, run):
    """package-wide inventory of execution primitives outside on_evaluate_impl"""
    n = 0
    for fi in repo.all_functions():
        if fi.name == 'on_evaluate_impl' and fi.ayns:
            continue
        for c in calls_in(fi.node):
            k = _sink_kind(c, set())
            if k is None:
                continue
            n += 1
            top = fi
            while top.outer is not None:
                top = top.outer
            if top.qualname in R1_EXEMPT:
                run.ok('C07.R1b', (fi.file, c.lineno, fi.qualname), unparse(c)[:80], 'exempt: ' + R1_EXEMPT[top.qualname])
            elif fi.cls is not None and repo.is_subclass(fi.cls.name, 'ConfigNode') and fi.outer is None and \
                    cfgmod.dominated_by_gate(cfg_of(fi), find_stmt_node(cfg_of(fi), c), c, _gate_pred(repo, fi)):
                run.ok('C07.R1b', (fi.file, c.lineno, fi.qualname), unparse(c)[:80], 'node-class helper: dominated by its own self.ayns._require_safe')
            else:
                run.violation('C07.R1b', fi, unparse(c), 'execution primitive %s used outside a gated on_evaluate_impl and outside the exemption table' % k, node=c)
    # module-level statements
    for m in repo.modules.values():
        for s in m.tree.body:
            if isinstance(s, (ast.FunctionDef, ast.ClassDef, ast.AsyncFunctionDef)):
                continue
            for c in calls_in(s):
                if _sink_kind(c, set()):
                    run.violation('C07.R1b', (m.relpath, c.lineno, '<module>'), unparse(c), 'execution primitive at module level')
    run.floor('C07.R1b', 3)


def _safe_of(repo, o):
    f = FDE(repo)
    return fde_guard(lambda: f.getter(o, 'safe'))


def r2(repo, run):
    getter = repo.func('ConfigNode.ayns.safe')
    bad = []
    rows = 0
    for v in product_dicts(_safe=F3, _implicit_safe=F3, _default_safe=F3):
        o = node_obj('n', **v)
        s = _safe_of(repo, o)
        rows += 1
        must_be_false = (v['_safe'] is False or v['_implicit_safe'] is False or v['_default_safe'] is False or v['_default_safe'] is None)
        if must_be_false and s:
            bad.append((v, s))
        if not must_be_false and not s:
            bad.append((v, s))
    run.table('C07.R2', rows, 'ayns.safe over (_safe,_implicit_safe,_default_safe) in {None,True,False}^3')
    if bad:
        run.violation('C07.R2', getter, 'ayns.safe truth table', 'node reported %s for flag valuation %s' % ('safe' if bad[0][1] else 'unsafe', bad[0][0]), witness=bad[:4])
    else:
        run.ok('C07.R2', getter, 'ayns.safe truth table (27 rows)', 'False iff any flag False or source default missing')
    for cname in repo.subclasses('ConfigNode'):
        t = repo.resolve(cname, 'safe', ayns=True)
        if t is not getter:
            run.violation('C07.R2', t, 'override of ayns.safe in %s' % cname, 'safety getter overridden outside ConfigNode')
    # the gate: raises UnsafeError iff not safe
    gate = repo.func('ConfigNode.ayns._require_safe')
    res = {}
    for sv in (True, False):
        o = node_obj('n', _safe=sv)
        f = FDE(repo)
        r = fde_guard(lambda: f.call(gate, o, 'p'))
        res[sv] = r.raised
    if res[False] != 'UnsafeError' or res[True] is not None:
        run.violation('C07.R2', gate, '_require_safe', 'gate outcome safe->%s unsafe->%s (expected None / UnsafeError)' % (res[True], res[False]))
    else:
        run.ok('C07.R2', gate, '_require_safe raises UnsafeError iff not ayns.safe')
    for fi in repo.cha('_require_safe', ayns=True):
        if fi is not gate:
            run.violation('C07.R2', fi, 'override of _require_safe', 'gate overridden in %s' % fi.cls.name)


def r3(repo, run):
    n = 0
    scan = []
    for cname in repo.subclasses('FunctionNode'):
        ci = repo.classes[cname]
        fi0 = ci.ayns.get('on_evaluate_impl')
        if fi0 is None or cname == 'FunctionNode':
            continue
        todo = [fi0]
        while todo:
            f_ = todo.pop()
            if f_ in scan:
                continue
            scan.append(f_)
            for c in calls_in(f_.node):
                if isinstance(c.func, ast.Attribute) and norm(c.func.value) in ('self', 'self.ayns', 'FunctionNode') and c.func.attr not in ('on_evaluate_impl', '_require_safe'):
                    for t in repo.resolve_call(c, f_):
                        if t.cls is not None and repo.is_subclass(t.cls.name, 'FunctionNode') and not t.is_property:
                            todo.append(t)
    for fi in scan:
        for c in calls_in(fi.node):
            evaluates_children = (is_method_call(c, member='on_evaluate_impl', ayns=True) or
                                  is_method_call(c, member=('evaluate_node', 'evaluate')))
            if not evaluates_children:
                continue
            n += 1
            if inside_with_calling(c, 'require_all_safe'):
                run.ok('C07.R3', (fi.file, c.lineno, fi.qualname), unparse(c)[:80], 'inside with ctx.require_all_safe(...)')
            else:
                run.violation('C07.R3', fi, unparse(c), 'argument children are evaluated outside `with ctx.require_all_safe(...)`', node=c)
    gw = repo.func('GlobalsWrapper.__getattr__')
    m = 0
    for node in walk_no_nested(gw.node):
        hit = None
        if isinstance(node, ast.Subscript) and unparse(node.value) in ('self.ecfg',) and isinstance(node.ctx, ast.Load):
            hit = node
        elif isinstance(node, ast.Call) and isinstance(node.func, ast.Attribute) and unparse(node.func.value) in ('self.ecfg', 'self.ctx') \
                and node.func.attr in ('evaluate_node', 'get_node', 'get', '__getitem__', 'get_or_set'):
            hit = node
        elif isinstance(node, ast.Call) and isinstance(node.func, ast.Name) and node.func.id == 'getattr' and node.args and unparse(node.args[0]) == 'self.ecfg':
            hit = node
        if hit is None:
            continue
        m += 1
        if inside_with_calling(hit, 'require_all_safe'):
            run.ok('C07.R3', (gw.file, hit.lineno, gw.qualname), unparse(hit), 'config lookup inside with self.ctx.require_all_safe(...)')
        else:
            run.violation('C07.R3', gw, unparse(hit), 'config value resolved as a name for evaluated code outside `with ...require_all_safe(...)`', node=hit)
    if n < 1 or m < 1:
        raise AnalysisError('C07.R3: expected >=1 child evaluations in Call/Bind and >=1 config lookup in GlobalsWrapper (got %d, %d)' % (n, m))
    # the context manager itself
    cm = repo.func('EvalContext.require_all_safe')
    if not cm.is_contextmanager:
        raise AnalysisError('EvalContext.require_all_safe is no longer a contextmanager')
    tries = [s for s in walk_no_nested(cm.node) if isinstance(s, ast.Try)]
    yields = [s for s in walk_no_nested(cm.node) if isinstance(s, ast.Expr) and isinstance(s.value, ast.Yield)]
    ok_shape = False
    detail = ''
    if len(yields) == 1 and tries:
        t = [t for t in tries if any(y in ast.walk(t) for y in yields) and any(y in ast.walk(ast.Module(body=t.body, type_ignores=[])) for y in yields)]
        if t:
            t = t[0]
            # flag set to True before the try, saved value restored in finally
            set_true = None
            saved = None
            for s in cm.node.body:
                if s is t:
                    break
                if isinstance(s, ast.Assign):
                    tg = s.targets[0]
                    if isinstance(tg, ast.Tuple) and isinstance(s.value, ast.Tuple):
                        for a, b in zip(tg.elts, s.value.elts):
                            if unparse(a) == 'self._require_all_safe' and isinstance(b, ast.Constant) and b.value is True:
                                set_true = s
                            if isinstance(a, ast.Name) and unparse(b) == 'self._require_all_safe':
                                saved = a.id
                    else:
                        if unparse(tg) == 'self._require_all_safe' and isinstance(s.value, ast.Constant) and s.value.value is True:
                            set_true = s
                        if isinstance(tg, ast.Name) and unparse(s.value) == 'self._require_all_safe' and set_true is None:
                            saved = tg.id
            restored = any(isinstance(s, ast.Assign) and unparse(s.targets[0]) == 'self._require_all_safe' and
                           isinstance(s.value, ast.Name) and s.value.id == saved for s in t.finalbody)
            ok_shape = bool(set_true) and bool(saved) and restored
            detail = 'set_true=%s saved=%s restored_in_finally=%s' % (bool(set_true), saved, restored)
    if ok_shape:
        run.ok('C07.R3', cm, 'require_all_safe: flag := True before yield, previous value restored in finally', detail)
    else:
        run.violation('C07.R3', cm, 'require_all_safe save/set/restore', 'strict-mode flag is not set before the yield and restored in a finally block (%s)' % detail)


# ---- R4 -------------------------------------------------------------------------------------------
STRICT = ('self._require_all_safe', 'self._eval_ctx._require_all_safe')
CACHES = ('_eval_cache', '_eval_cache_id')


def _mentions_strict(test):
    for n in ast.walk(test):
        if isinstance(n, ast.Attribute) and unparse(n) in STRICT:
            return True
    return False


def _raises_unsafe(stmts):
    for s in stmts:
        for n in ast.walk(s):
            if isinstance(n, ast.Raise) and n.exc is not None and 'UnsafeError' in unparse(n.exc):
                return n
    return None


def _gate_nodes(repo, fi, g, gated_funcs):
    """CFG test nodes that act as strict-mode gates in fi"""
    out = []
    for s in walk_no_nested(fi.node):
        if not isinstance(s, ast.If) or not _mentions_strict(s.test):
            continue
        # the strict flag must be a positive conjunct of the test
        facts = cfgmod.cond_facts(s.test, True)
        if not any(t in STRICT and pol for t, pol in facts):
            continue
        kind = None
        rz = _raises_unsafe(s.body)
        if rz is not None:
            # condition under which it raises: collect the facts of the enclosing ifs inside s
            conds = set(facts)
            for p in _ifs_between(s, rz):
                conds |= cfgmod.cond_facts(p.test, _in_body(p, rz))
            unsafe_cond = [c for c in conds if c[0] not in STRICT]
            okc = any((t.endswith('.ayns.safe') and pol is False) or ('_eval_cache_unsafe' in t and ' in ' in t and pol is True) for t, pol in unsafe_cond)
            if okc and len(unsafe_cond) == 1:
                kind = 'raises UnsafeError when strict and %s' % (unsafe_cond,)
        else:
            for c in calls_in(ast.Module(body=s.body, type_ignores=[])):
                for t in repo.resolve_call(c, fi) or _by_name(repo, c):
                    if t.qualname in gated_funcs:
                        kind = 'calls strict-gated %s' % t.qualname
        if kind:
            node = [n for n in g.nodes if n.kind == 'test' and n.ast is s.test]
            if node:
                out.append((node[0], kind))
    return out


def _by_name(repo, call):
    if isinstance(call.func, ast.Attribute) and call.func.attr in ('get_node', 'evaluate_node'):
        t = repo.resolve('EvalContext', call.func.attr)
        return [t] if t else []
    return []


def _ifs_between(outer_if, inner):
    out = []
    for p in ast.walk(outer_if):
        if isinstance(p, ast.If) and p is not outer_if and any(n is inner for n in ast.walk(p)):
            out.append(p)
    return out


def _in_body(if_node, target):
    return any(n is target for s in if_node.body for n in ast.walk(s))


def _is_cache_read(n):
    if isinstance(n, ast.Subscript) and isinstance(n.value, ast.Attribute) and n.value.attr in CACHES:
        return True
    if isinstance(n, ast.Call) and isinstance(n.func, ast.Attribute) and n.func.attr in ('get', 'pop', 'setdefault') and isinstance(n.func.value, ast.Attribute) and n.func.value.attr in CACHES:
        return True
    return False


def _handouts(fi):
    """(ast node, description) of every hand-out of an evaluated value in fi"""
    out = []
    for r in walk_no_nested(fi.node):
        if isinstance(r, ast.Return) and r.value is not None:
            if isinstance(r.value, ast.Name) and not any(_is_cache_read(n) for n in ast.walk(r.value)):
                if derives_from(fi, r.value, _is_cache_read, depth=2):
                    out.append((r, 'returns cached value through local %s' % r.value.id))
            for n in ast.walk(r.value):
                if isinstance(n, ast.Subscript) and isinstance(n.value, ast.Attribute) and n.value.attr in CACHES:
                    out.append((r, 'returns cached value ' + unparse(n)))
                if isinstance(n, ast.Call) and unparse(n.func) in ('super().__getitem__', 'dict.__getitem__', 'Bunch.__getitem__', 'super().get', 'dict.get'):
                    out.append((r, 'returns stored evaluated value ' + unparse(n)))
                if isinstance(n, ast.Call) and isinstance(n.func, ast.Attribute) and n.func.attr == 'get' and isinstance(n.func.value, ast.Attribute) and n.func.value.attr in CACHES:
                    out.append((r, 'returns cached value ' + unparse(n)))
    for c in calls_in(fi.node):
        if is_method_call(c, member='on_evaluate', ayns=True):
            out.append((c, 'evaluates ' + unparse(c)))
    return out


def r4(repo, run):
    funcs = [repo.func('EvalContext.get_node'), repo.func('EvalContext.evaluate_node'), repo.func('EvalContext.PartialChild.__getitem__')]
    extra = [f for f in repo.all_functions(include_nested=False)
             if f.cls is not None and f.cls.name in ('EvalContext', 'EvalContext.PartialChild') and f not in funcs]
    gated = set()
    total = 0
    # two rounds so that a function gated through a summarised callee is recognised
    for rnd in range(2):
        for fi in funcs + extra:
            g = cfg_of(fi)
            gates = _gate_nodes(repo, fi, g, gated)
            gate_ids = {n.id for n, _ in gates}

            def transfer(n, facts, gate_ids=gate_ids):
                return facts | {'gate'} if n.id in gate_ids else facts
            IN = cfgmod.forward_must(g, transfer)
            hs = _handouts(fi)
            all_ok = True
            for node, desc in hs:
                cn = find_stmt_node(g, node) if not isinstance(node, ast.stmt) else [x for x in g.nodes if x.ast is node][0]
                facts = IN.get(cn.id)
                ok = facts is not None and 'gate' in facts
                # a hand-out reached through a call of a gated function in the same return is fine
                if not ok and isinstance(node, ast.Return):
                    for c in calls_in(node):
                        for t in (repo.resolve_call(c, fi) or _by_name(repo, c)):
                            if t.qualname in gated and desc.startswith('returns') and unparse(c) in desc:
                                ok = True
                if rnd == 1:
                    total += 1
                    if ok:
                        run.ok('C07.R4', (fi.file, node.lineno, fi.qualname), desc, 'dominated by strict gate: ' + '; '.join(k for _, k in gates)[:160])
                    else:
                        run.violation('C07.R4', fi, desc, 'an already evaluated value is handed out (or a node evaluated) on a path that has not passed the strict-mode safety test', node=node)
                all_ok = all_ok and ok
            if hs and all_ok and gates:
                gated.add(fi.qualname)
    if total < 4:
        raise AnalysisError('C07.R4: expected >= 4 hand-out points in EvalContext (got %d)' % total)
    run.floors['C07.R4'] = 4
    # R4b: the unsafe-path record
    ev = repo.func('EvalContext.evaluate_node')
    g = cfg_of(ev)
    stores = {}
    for n in g.stmt_nodes():
        s = n.ast
        if n.kind == 'stmt' and isinstance(s, ast.Assign) and isinstance(s.targets[0], ast.Subscript) and isinstance(s.targets[0].value, ast.Attribute):
            stores.setdefault(s.targets[0].value.attr, []).append((n, s))
    uses_record = any('_eval_cache_unsafe' in unparse(f.node) for f in funcs)
    if uses_record:
        if '_eval_cache_unsafe' not in stores or '_eval_cache' not in stores:
            run.violation('C07.R4b', ev, 'store into _eval_cache_unsafe', 'strict gate reads _eval_cache_unsafe but evaluate_node never records unsafe paths')
        else:
            n, s = stores['_eval_cache_unsafe'][0]
            key_u = norm(s.targets[0].slice)
            key_c = norm(stores['_eval_cache'][0][1].targets[0].slice)
            facts = facts_at(g, n)
            guarded = any(t.endswith('.ayns.safe') and pol is False for t, pol in facts)
            if key_u != key_c:
                run.violation('C07.R4b', ev, unparse(s), 'unsafe-path record keyed by %s but the path cache by %s' % (key_u, key_c), node=s)
            elif not guarded:
                run.violation('C07.R4b', ev, unparse(s), 'unsafe-path record is not written under the `not <node>.ayns.safe` branch (facts: %s)' % sorted(facts), node=s)
            else:
                run.ok('C07.R4b', (ev.file, s.lineno, ev.qualname), unparse(s), 'recorded under not safe, same key as the path cache')
    else:
        run.info('C07.R4b', ev, 'no unsafe-path record in use', 'gates test the node directly')


# ---- R5 -------------------------------------------------------------------------------------------
def r5(repo, run):
    for fname in ('ConfigNode._replace_self', 'ConfigNode._replace_other'):
        fi = repo.func(fname)
        rows = 0
        bad = []
        for fld in ('_safe', '_default_safe'):
            for a in F3:
                for b in F3:
                    me = node_obj('self', **{'_default_safe': None, fld: a})
                    ot = node_obj('other', **{'_default_safe': None, fld: b})
                    f = FDE(repo)
                    fde_guard(lambda: f.call(fi, me, ot, allow_promotions=False))
                    rows += 1
                    new = me.f[fld]
                    if (a is False or b is False) and new is not False:
                        bad.append((fld, a, b, new))
        run.table('C07.R5:' + fi.name, rows, 'new(self.f) for f in {_safe,_default_safe}, (self.f, other.f) in {None,True,False}^2')
        if bad:
            fld, a, b, new = bad[0]
            run.violation('C07.R5', fi, '%s merge of %s' % (fi.name, fld),
                          'not monotone in unsafety: self.%s=%r, other.%s=%r gives %r (must be False)' % (fld, a, fld, b, new), witness=bad)
        else:
            run.ok('C07.R5', fi, '%s: _safe and _default_safe tables (18 rows)' % fi.name, 'False whenever either side is False')
    for cname in repo.subclasses('ConfigNode', strict=True):
        for m in ('_replace_self', '_replace_other'):
            t = repo.resolve(cname, m)
            if t.cls.name != 'ConfigNode':
                run.violation('C07.R5', t, 'override of ' + m, 'flag combination overridden in %s' % cname)


# ---- R6 -------------------------------------------------------------------------------------------
def r6(repo, run):
    add = repo.func('Builder.add_source')
    parses = [c for c in calls_in(add.node) if unparse(c.func) in ('yaml.parse', 'parse')]
    if not parses:
        raise AnalysisError('Builder.add_source no longer calls yaml.parse')
    for c in parses:
        w = inside_with_calling(c, 'default_safe_flag')
        if w is None:
            run.violation('C07.R6', add, unparse(c), 'documents are parsed outside `with ConfigNode.default_safe_flag(...)`', node=c)
            continue
        arg = [it.context_expr for it in w.items if isinstance(it.context_expr, ast.Call) and it.context_expr.func.attr == 'default_safe_flag'][0].args[0]
        conj = arg.values if isinstance(arg, ast.BoolOp) and isinstance(arg.op, ast.And) else [arg]
        if isinstance(arg, ast.BoolOp) and not isinstance(arg.op, ast.And):
            run.violation('C07.R6', add, unparse(arg), 'source safety is not a conjunction', node=arg)
        elif any(isinstance(v, ast.Name) and v.id == 'safe' for v in conj):
            # `safe` may only be re-bound from None to a default
            ok = True
            for d in name_defs(add, 'safe'):
                st = d[2]
                facts = facts_at(cfg_of(add), find_stmt_node(cfg_of(add), st.value))
                if ('safe is None', True) not in facts:
                    ok = False
            if ok:
                run.ok('C07.R6', (add.file, w.lineno, add.qualname), 'with ConfigNode.default_safe_flag(%s)' % unparse(arg), 'safe parameter is a conjunct; only defaulted when None')
            else:
                run.violation('C07.R6', add, 'rebinding of safe', 'the safe parameter is overwritten before it reaches default_safe_flag')
        else:
            run.violation('C07.R6', add, unparse(arg), 'the `safe` parameter does not reach default_safe_flag as a conjunct', node=arg)
    dsf = repo.func('ConfigNode.default_safe_flag')
    # the value stored before the yield
    ys = [s for s in walk_no_nested(dsf.node) if isinstance(s, ast.Expr) and isinstance(s.value, ast.Yield)]
    pre = []
    for s in walk_no_nested(dsf.node):
        if isinstance(s, ast.Assign) and unparse(s.targets[0]) == 'ConfigNode._default_safe.value' and ys and s.lineno < ys[0].lineno:
            pre.append(s)
    if not pre:
        raise AnalysisError('default_safe_flag: no store before yield')
    st = pre[-1]
    bad = []
    f = FDE(repo)
    for value in (True, False):
        for old in (True, False):
            r = fde_guard(lambda: f._ev(st.value, {'value': value, 'old': old}, dsf))
            if (value is False or old is False) and r is not False:
                bad.append((value, old, r))
    if bad:
        run.violation('C07.R6', dsf, unparse(st), 'installed default is %r for value=%r, enclosing=%r (must be False)' % (bad[0][2], bad[0][0], bad[0][1]), node=st)
    else:
        run.ok('C07.R6', (dsf.file, st.lineno, dsf.qualname), unparse(st), 'False if the requested or the enclosing default is False (4 rows)')
    # old is read from the slot
    n_calls = 0
    for fi in repo.all_functions():
        if fi.cls is None or not repo.is_subclass(fi.cls.name, 'ConfigNode'):
            continue
        for c in calls_in(fi.node):
            if isinstance(c.func, ast.Attribute) and c.func.attr in ('add_source', 'add_multiple_sources'):
                n_calls += 1
                kw = get_kw(c, 'safe')
                if kw is None:
                    run.violation('C07.R6', fi, unparse(c), 'node class adds a source without passing safe=', node=c)
                elif derives_from(fi, kw, lambda n: isinstance(n, ast.Attribute) and n.attr == 'safe' and isinstance(n.value, ast.Attribute) and n.value.attr == 'ayns'):
                    run.ok('C07.R6', (fi.file, c.lineno, fi.qualname), unparse(c)[:90], 'safe= derives from a node ayns.safe')
                else:
                    run.violation('C07.R6', fi, unparse(c), 'safe= argument (%s) does not derive from a node\'s ayns.safe' % unparse(kw), node=c)
    if n_calls < 2:
        raise AnalysisError('C07.R6: expected add_source calls in IncludeNode and RecurseNode (got %d)' % n_calls)


# ---- R7 -------------------------------------------------------------------------------------------
def r7(repo, run):
    # (1) metaclass adopt branch
    mc = repo.func('ConfigNodeMeta.__call__')
    g = cfg_of(mc)
    n1 = 0
    for n in g.stmt_nodes():
        for c in n.calls():
            if isinstance(c.func, ast.Name) and c.func.id == 'setattr' and len(c.args) == 3 and 'arg_name' in unparse(c.args[1]):
                n1 += 1
                facts = facts_at(g, n)
                ok = any(pol is False and 'implicit_safe' in t and 'is False' in t for t, pol in facts)
                if ok:
                    run.ok('C07.R7', (mc.file, c.lineno, mc.qualname), unparse(c), 'adoption keeps an implicit_safe that is already False')
                else:
                    run.violation('C07.R7', mc, unparse(c), 'inherited flags are assigned to an adopted child without sparing an _implicit_safe that is already False', node=c)
    if n1 < 1:
        raise AnalysisError('C07.R7: adopt-branch setattr not found in ConfigNodeMeta.__call__')
    # (2) _propagate_implicit_values: table over (parent _safe None, parent implicit, child implicit)
    prop = repo.func('ComposedNode._propagate_implicit_values')
    bad = []
    rows = 0
    for pi in F3:
        for ci in F3:
            for pd in (None, True):
                for ps in F3:
                    for pe in (None, True):     # other explicit flags of the parent
                        child = node_obj('child', 'ConfigNode', _implicit_safe=ci)
                        parent = node_obj('parent', 'ComposedNode', _safe=ps, _delete=pe, _allow_new=pe, _implicit_safe=pi, _implicit_delete=pd, _children={'k': child})
                        f = FDE(repo)
                        fde_guard(lambda: f.call(prop, parent))
                        rows += 1
                        if ci is False and child.f['_implicit_safe'] is not False:
                            bad.append(('child False overwritten', ps, pi, ci, child.f['_implicit_safe']))
                        if pi is False and child.f['_implicit_safe'] is not False:
                            bad.append(('inherited unsafety of a parent with explicit safe=%r does not reach its child' % ps, pi, ci, child.f['_implicit_safe']))
    run.table('C07.R7:_propagate_implicit_values', rows, '(parent._implicit_safe, child._implicit_safe, parent._implicit_delete)')
    if bad:
        run.violation('C07.R7', prop, '_propagate_implicit_values on _implicit_safe', 'child flag after propagation: %s' % (bad[0],), witness=bad)
    else:
        run.ok('C07.R7', prop, '_propagate_implicit_values: child False stays False, parent False reaches the child (%d rows)' % rows)
    # (3) _get_child_kwargs
    gk = repo.func('ComposedNode._get_child_kwargs')
    bad = []
    rows = 0
    for ps in F3:
        for pi in F3:
            for ci in F3:
                child = node_obj('child', 'ConfigNode', _implicit_safe=ci)
                parent = node_obj('parent', 'ComposedNode', _safe=ps, _implicit_safe=pi)
                f = FDE(repo)
                r = fde_guard(lambda: f.call(gk, parent, child))
                rows += 1
                kw = r.ret
                if ci is False and 'implicit_safe' in kw and kw['implicit_safe'] is not False:
                    bad.append((ps, pi, ci, kw.get('implicit_safe')))
            # new child: unsafety of the parent must be handed down
            parent = node_obj('parent', 'ComposedNode', _safe=ps, _implicit_safe=pi)
            f = FDE(repo)
            r = fde_guard(lambda: f.call(gk, parent))
            rows += 1
            if (ps is False or pi is False) and r.ret.get('implicit_safe') is not False:
                bad.append(('new child of a node with explicit safe=%r whose inherited flag is %r' % (ps, pi), ps, pi, r.ret.get('implicit_safe')))
    run.table('C07.R7:_get_child_kwargs', rows, '(parent._safe, parent._implicit_safe, child._implicit_safe)')
    if bad:
        run.violation('C07.R7', gk, '_get_child_kwargs implicit_safe', 'adoption would overwrite / lose unsafety: %s' % (bad[0],), witness=bad)
    else:
        run.ok('C07.R7', gk, '_get_child_kwargs: never re-enables a child that is implicitly unsafe; unsafe parent yields implicit_safe=False (%d rows)' % rows)
    # (4) any other store to _implicit_safe
    allowed = {'ConfigNode.__init__', 'ComposedNode._propagate_implicit_values'}
    for fi in repo.all_functions():
        for s in walk_no_nested(fi.node):
            if isinstance(s, (ast.Assign, ast.AugAssign)):
                tg = s.targets if isinstance(s, ast.Assign) else [s.target]
                for t in tg:
                    if isinstance(t, ast.Attribute) and t.attr == '_implicit_safe' and fi.qualname not in allowed:
                        run.violation('C07.R7', fi, unparse(s), 'write to _implicit_safe outside the checked flag-maintenance functions', node=s)


def check(repo, run, tier):
    r1(repo, run)
    r1b(repo, run)
    r2(repo, run)
    r3(repo, run)
    r4(repo, run)
    r5(repo, run)
    r6(repo, run)
    r7(repo, run)
    mr.propagation_table(repo, run, 'C07.R7', 'safe')


def mutants(repo):
    return [
        Mutant('call-gate-removed', lambda r: delete_stmt(r, 'CallNode.ayns.on_evaluate_impl', lambda t: '_require_safe' in t), ['C07.R1']),
        Mutant('import-gate-removed', lambda r: delete_stmt(r, 'ImportNode.ayns.on_evaluate_impl', lambda t: '_require_safe' in t), ['C07.R1']),
        Mutant('eval-gate-after-compile', lambda r: in_func(r, 'EvalNode.ayns.on_evaluate_impl', "        self.ayns._require_safe(path)\n", "", 1), ['C07.R1']),
        Mutant('bind-args-outside-strict', lambda r: in_func(r, 'BindNode.ayns.on_evaluate_impl',
               "        with ctx.require_all_safe(self, path):\n            args = ", "        if True:\n            args = "), ['C07.R3']),
        Mutant('globals-lookup-outside-strict', lambda r: in_func(r, 'GlobalsWrapper.__getattr__',
               "            with self.ctx.require_all_safe(self.node, self.path):\n                return self.ecfg[name]", "            return self.ecfg[name]"), ['C07.R3']),
        Mutant('strict-flag-not-restored', lambda r: in_func(r, 'EvalContext.require_all_safe', "            self._require_all_safe = old", "            pass"), ['C07.R3']),
        Mutant('cache-hit-before-gate', lambda r: in_func(r, 'EvalContext.evaluate_node',
               "        if self._require_all_safe:\n            if not cfgobj.ayns.safe:", "        if self._require_all_safe and id(cfgobj) not in self._eval_cache_id:\n            if not cfgobj.ayns.safe:"), ['C07.R4']),
        Mutant('get_node-gate-dropped', lambda r: in_func(r, 'EvalContext.get_node', "if self._require_all_safe and str(path) in self._eval_cache_unsafe:", "if False:"), ['C07.R4']),
        Mutant('partialchild-gate-dropped', lambda r: delete_stmt(r, 'EvalContext.PartialChild.__getitem__', lambda t: t.startswith('if self._eval_ctx._require_all_safe')), ['C07.R4']),
        Mutant('unsafe-record-inverted', lambda r: in_func(r, 'EvalContext.evaluate_node', "if not cfgobj.ayns.safe:\n            self._eval_cache_unsafe", "if cfgobj.ayns.safe:\n            self._eval_cache_unsafe"), ['C07.R4b']),
        Mutant('replace-self-default-safe-F2-reverted', lambda r: in_func(r, 'ConfigNode._replace_self',
               "self._default_safe = notnone_or(self._default_safe, True)", "self._default_safe = notnone_or(other._default_safe, True)"), ['C07.R5']),
        Mutant('replace-other-and-to-or', lambda r: in_func(r, 'ConfigNode._replace_other',
               "self._safe = notnone_or(self._safe, True) and other._safe", "self._safe = notnone_or(self._safe, True) or other._safe"), ['C07.R5']),
        Mutant('safe-getter-default-true', lambda r: in_func(r, 'ConfigNode.ayns.safe', "notnone_or(self._default_safe, False)", "notnone_or(self._default_safe, True)"), ['C07.R2']),
        Mutant('include-drops-safe', lambda r: in_func(r, 'IncludeNode.ayns.on_preprocess_impl', ", safe=self.ayns.safe)", ")"), ['C07.R6']),
        Mutant('source-flag-or', lambda r: in_func(r, 'ConfigNode.default_safe_flag', "value and old", "value or old"), ['C07.R6']),
        Mutant('add_source-ignores-safe', lambda r: in_func(r, 'Builder.add_source', "default_safe_flag(safe and self._default_safe_flag)", "default_safe_flag(self._default_safe_flag)"), ['C07.R6']),
        Mutant('adopt-overwrites-implicit-safe', lambda r: in_func(r, 'ConfigNodeMeta.__call__',
               "if arg_name == 'implicit_safe' and getattr(value, '_' + arg_name) is False:", "if False:"), ['C07.R7']),
        Mutant('F18-reverted-explicit-safe-lifts-unsafety', lambda r: in_func(r, 'ComposedNode._get_child_kwargs', "False if self._implicit_safe is False else notnone_or(self._safe, self._implicit_safe)", "notnone_or(self._safe, self._implicit_safe)"), ['C07.R7']),
        Mutant('F18-reverted-propagation-stops-at-explicit-safe', lambda r: in_func(r, 'ComposedNode._propagate_implicit_values', "if self._safe is None or self._implicit_safe is False:", "if self._safe is None:"), ['C07.R7']),
        Mutant('propagate-overwrites-false', lambda r: in_func(r, 'ComposedNode._propagate_implicit_values', "if child._implicit_safe is not False:", "if True:"), ['C07.R7']),
        Mutant('neutral-rename-local', lambda r: in_func(r, 'CallNode.ayns.on_evaluate_impl', "_func", "_target", None), neutral=True),
        Mutant('neutral-extra-logging', lambda r: in_func(r, 'EvalContext.evaluate_node', "        self._eval_stack.append(prefix)\n", "        self._eval_stack.append(prefix)\n        _dbg = len(self._eval_stack)\n"), neutral=True),
    ]
